#!/bin/sh
# tools/confirm_seed.sh <ID> <dir with patch.diff demo.py>  : confirm a seeded change in a scratch worktree
ID=$1; SRC=$2; W=/tmp/cw_$ID
git -C /repo worktree remove --force $W 2>/dev/null
git -C /repo worktree add -q --detach $W HEAD || exit 9
cd $W
mkdir -p MUTATION && cp $SRC/demo.py MUTATION/demo.py
PYTHONPATH=$W /venv/bin/python MUTATION/demo.py >/tmp/cw_$ID.demo0 2>&1; D0=$?
git apply $SRC/patch.diff || { echo "PATCH DOES NOT APPLY"; cd /; git -C /repo worktree remove --force $W; exit 8; }
PYTHONPATH=$W /venv/bin/python MUTATION/demo.py >/tmp/cw_$ID.demo1 2>&1; D1=$?
PYTHONPATH=$W /venv/bin/python -m pytest -q -p no:cacheprovider --timeout=900 --continue-on-collection-errors --junitxml=/tmp/cw_$ID.junit.xml >/tmp/cw_$ID.test 2>&1
python3 - "$ID" <<'PY'
import json, sys, xml.etree.ElementTree as ET
ID=sys.argv[1]
base=json.load(open('/root/.vp/BASELINE.json'))
t=ET.parse(f'/tmp/cw_{ID}.junit.xml'); passed=set()
for tc in t.iter('testcase'):
    if not any(c.tag in ('failure','error','skipped') for c in tc):
        passed.add(tc.get('classname')+'::'+tc.get('name'))
missing=[x for x in base['stable_pass'] if x not in passed]
print("tests: baseline-stable missing with patch:", len(missing), missing[:5])
PY
echo "demo unpatched exit=$D0 patched exit=$D1"
tail -3 /tmp/cw_$ID.demo1
cd /; git -C /repo worktree remove --force $W
