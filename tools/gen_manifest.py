#!/usr/bin/env python3
"""Regenerate /verif/MANIFEST.json from the tables below."""
import json
import os

ROOT = os.path.dirname(os.path.dirname(os.path.abspath(__file__)))

CLAIMED = {
    # id: (technique, level text, level note, design ref)
    "C01": (
        "SMT (z3 regex theory) language inclusion/disjointness of the live regex cascade vs. a Fortran statement grammar",
        "Bounded/unbounded symbolic checking of the kernel of C01: for every statement of the grammar (unbounded length, all "
        "letter cases/blank variants) the real regex cascade reaches the designated branch and no earlier one; executable "
        "statements reach no declaration branch.  'unsat' = holds for all inputs of the stated language; every model is "
        "replayed through the real parser before it is reported.  Compositional/HTML part of C01 is outside.",
        "Trusted: z3 5.1 regex solver, the sre_parse->z3 translator (validated against `re` per run), the statement grammar "
        "in fv/grammar.py as specification.",
        "DESIGN.md §5 C01",
    ),
    "C02": (
        "bounded symbolic execution of the real scanners/regexes/reader step (AST->SMT, exact regex semantics) vs. the Fortran lexical DFA, decided by z3 (QF_BV)",
        "For every line (every 1-3 line fragment) up to the stated length over an alphabet of quotes, `!`, `;`, `&`, blanks, letters: literal "
        "tracking, `;` splitting, comment/doc-mark detection and one FortranReader.__next__ step agree with the Fortran lexical rules. "
        "unsat per path/obligation = holds for all inputs within the bound; loops carry unwinding assertions; models are replayed on the real reader.",
        "Trusted: z3 QF_BV, the RXA regex encoding (differentially validated against `re`), the SXM/DSE interpreters (validated by replay), the lexical DFA in fv/oracles.py.",
        "DESIGN.md §5 C02",
    ),
    "C03": (
        "symbolic execution of the real FortranReader + parser on symbolic source text (finite-choice comment lines) and of the admonition pre-processor, decided by z3",
        "For every combination of following / preceding / alternate-block doc comments, ordinary comments, inline docs and their absence between "
        "two declarations, each entity receives exactly its documentation lines, once and in order (reader and parser both real); the admonition "
        "pre-processor keeps every word of 3-4 symbolic doc lines once and in order and raises only for the documented marker errors.",
        "Trusted: z3, CV evaluator, the attachment oracle written from the user guide.",
        "DESIGN.md §5 C03",
    ),
    "C04": (
        "symbolic execution of the REAL parser on symbolic programs (finite-choice statements: spellings x placements), assertions decided by z3",
        "The real FortranSourceFile parser (cascade, constructors, line_to_variables, process_attribs) runs on a symbolic module / derived type "
        "whose default-access statement, declaration attribute and access statement (absent/before/after, several spellings and letter cases) "
        "are symbolic choices; for every combination the recorded accessibility equals Fortran's rule (F2008 5.3.2) for 8 entity kinds, "
        "components and bindings.  Path conditions and assertions are decided by z3; models are replayed natively.",
        "Trusted: z3, the finite-choice (CV) evaluator which applies CPython's own str/re semantics per choice, the accessibility oracle in fv/props/c04.py.",
        "DESIGN.md §5 C04",
    ),
    "C05": (
        "symbolic execution (path exploration with z3 feasibility/assertion queries) of the real prune/_set_display methods on stand-in entities",
        "For every combination of display subset, hide_undoc, proc_internals, child permission and documented flag (all symbolic) the real "
        "prune family keeps exactly the selected children, sets `visible` and recurses exactly on them; _set_display follows the documented "
        "inheritance/override/none rules for every metadata word list up to 2 words.",
        "Trusted: z3, the DSE engine (every model replayed natively), stand-ins built with object.__new__ on the real classes.",
        "DESIGN.md §5 C05",
    ),
    "C10": (
        "symbolic execution of the real NameSelector.get_name/get_dir on entities with symbolic names (bounded strings / finite operator set), z3 QF_BV",
        "For every pair/triple of names up to the bound (identifiers in any letter case, every operator/assignment/defined-io generic name, "
        "unnamed) distinct entities of one output directory obtain stems that differ even ignoring case, stems are stable and free of path separators.",
        "Trusted: z3, DSE engine, the association-list dict stand-in replacing NameSelector._counts.",
        "DESIGN.md §5 C10",
    ),
    "C06": (
        "symbolic execution of the real USE_RE/get_used_entities and of parser+Project.correlate on symbolic multi-module projects (finite-choice statements), decided by z3",
        "For every USE form of the tables (plain, ONLY, renames with/without ONLY, :: and intrinsic prefixes, case/blank variants, empty ONLY) the "
        "imported local names and entities equal the standard's USE association rule; through a chain a->b->c with symbolic default "
        "accessibility, public lists, ONLY lists and renames at both hops the type linked in c is the one the standard designates.",
        "Trusted: z3, CV evaluator (CPython semantics per choice), the USE association oracle in fv/props/c06.py.",
        "DESIGN.md §5 C06",
    ),
    "C07": (
        "symbolic execution of the real parser + Project.correlate on symbolic projects (finite-choice USE statements and references), decided by z3",
        "For every combination of USE form in the referencing scope and referenced name/letter case (declared in the used module, the host, a "
        "sibling or child scope, privately, or nowhere) the entity linked for a variable's derived type, a procedure pointer's interface and "
        "a called procedure is the one Fortran scoping designates (innermost use/host association; sibling/child-local and undeclared names stay text).",
        "Trusted: z3, CV evaluator, the scoping oracle in fv/props/c07.py.",
        "DESIGN.md §5 C07",
    ),
    "C08": (
        "SMT regex inclusion (FORMAT / computed GOTO skipping) + symbolic execution of parser and Project.correlate on symbolic procedure bodies (finite-choice statements)",
        "Every FORMAT statement and computed GOTO of the grammar (unbounded) reaches the branch that skips call scanning; for every pair of "
        "executable statements from the option tables (calls, nested function references, control-construct headers, type-bound calls, I/O, "
        "array references, intrinsics, literals with call-like text, ASSOCIATE nesting) the recorded calls equal the user procedures invoked.",
        "Trusted: z3, RX translator, CV evaluator; expected call lists are part of the option tables.",
        "DESIGN.md §5 C08",
    ),
    "C09": (
        "SMT (z3 linear integer arithmetic) implication between template link conditions (Jinja AST) and page-creation conditions (Python AST)",
        "For every statically known internal URL in the real templates the enclosing template conditions imply the page-creation "
        "condition extracted from Documentation.__init__/writeout, for all project shapes (unbounded sizes) and flags; models are "
        "replayed by a real FORD run on a generated project and a link check of the written HTML.",
        "Trusted: z3 LIA, the Jinja/Python AST condition translators (untranslatable conditions are left unconstrained = link may be emitted).",
        "DESIGN.md §5 C09",
    ),
    "C14": (
        "symbolic execution of the real FortranLine/convertToFree feeding the real free-form reader on symbolic fixed-form fragments (finite-choice lines), decided by z3",
        "For every combination of statement line (label, padding to column 72, sequence-field text), intermediate comment/blank line of every "
        "style and continuation-or-new line (every continuation character class), with the length limit on and off, the logical statements "
        "delivered equal the fixed-form column rules (F2008 3.3.3).",
        "Trusted: z3, CV evaluator, the column-rule oracle in fv/props/c14.py.",
        "DESIGN.md §5 C14",
    ),
    "C15": (
        "symbolic execution of the real settings pipeline (meta_preprocessor, convert_setting, ProjectSettings, parse_arguments) with finite-choice value forms and presence flags, decided by z3",
        "For one option of each type of the settings schema: every markdown-metadata form and the TOML-native form give the same effective value; "
        "for every combination of presence in the project file / --config / command line the effective value follows command line > --config > "
        "file > default; ill-typed values are rejected with a message naming the option.",
        "Trusted: z3, CV evaluator; tomllib (evaluated per choice), argparse not exercised.",
        "DESIGN.md §5 C15",
    ),
    "C11": (
        "SMT regex equivalence for the reference syntax + symbolic execution of the real convert_link / find_child / Project.find with finite-choice reference texts, decided by z3",
        "LINK_RE equals the documented [[name(kind):item(kind)]] syntax (both inclusions, unbounded); in each of 7 documentation contexts and for "
        "every reference spelling of the table the link target is the entity the documented lookup selects (own contents, parent's contents, "
        "project; qualifiers honoured) and missing targets yield no href.",
        "Trusted: z3, RX translator, CV evaluator, the lookup oracle in fv/props/c11.py written from the user guide.",
        "DESIGN.md §5 C11",
    ),
    "C13": (
        "symbolic execution of the real graph hop expansion on stand-in nodes with symbolic relation and symbolic unbounded limits, decided by z3",
        "For every relation over up to 3 (thorough: 4) nodes (edge presence symbolic; cycles, self loops, diamonds, disconnected parts) and symbolic "
        "graph_maxnodes / graph_maxdepth the 8 per-entity graph classes add exactly the hop levels that fit, emit exactly the relation's edges of the "
        "expanded nodes with the right orientation ('by' graphs = inverse traversal of the same edges), and never emit a dangling edge.",
        "Trusted: z3, DSE engine, the reference expansion in fv/props/c13.py; graph attributes initialised as FortranGraph.__init__ does.",
        "DESIGN.md §5 C13",
    ),
    "C12": (
        "symbolic execution of the real Project.__init__/correlate and graph classes with the iteration order of every `set` of the module under analysis "
        "replaced by an arbitrary permutation chosen by the solver (environment stub), on symbolic multi-file projects; witnesses replayed with real ford runs under different PYTHONHASHSEEDs",
        "Data-dependent half of C12 only: for every order in which the set of source paths is iterated (2 files; thorough 3 files, per file a symbolic choice "
        "of 8 program units with overlapping names), every iteration order of the sets built by correlate() (two symbolic USE statements) and every "
        "iteration order of the node sets in ford.graphs (fixed project, 12 graph classes) the ordered entity lists, names, identifiers, the order of "
        "used-module listings and the emitted graph node/edge sequence equal those of a reference order.  Worker scheduling, stale output directories, "
        "third-party set use and comprehension-built sets outside the rewritten modules are outside the claim.",
        "Trusted: z3, CV evaluator, the permutation stub fv/permset.py (bound 5 elements per set), the assumption that rendering reads only the compared state; "
        "list-order differences are reported only when real runs under different hash seeds produce different bytes.",
        "DESIGN.md §11.7",
    ),
    "C16": (
        "symbolic execution of parser + load_external_modules/dict2obj + Project.correlate on a symbolic project B against a really exported project A, decided by z3",
        "For every combination of: B defines / does not define a module and a type named like one of A (several letter cases), USE spellings: B's own "
        "entities win over A's, names only A defines link to A's exported entities, Project.find prefers local entities.",
        "Trusted: z3, CV evaluator; A's modules.json is produced by the real dump_modules in the same run; local (file) external projects only.",
        "DESIGN.md §5 C16",
    ),
    "C18": (
        "symbolic execution of the real parser on declarations with finite-choice literal texts + SMT check of Jinja template expressions (escaping for every operand truthiness)",
        "For every literal of a table of HTML/Markdown-significant and placeholder-like texts in 5 declaration forms the recorded initial value is the "
        "source literal verbatim (only runs of blanks become NBSP); bind(...) texts are verbatim; every template expression printing `<x>.initial` "
        "is escaped whatever the truthiness of its operands.",
        "Trusted: z3, CV evaluator, Jinja's parser; only the `.initial` print sites are covered on the template side.",
        "DESIGN.md §5 C18",
    ),
}

CLAIMED["C20"] = (
    "symbolic execution of the real Project.__init__ (per-file try/except), parser and correlate() on symbolic projects with one extra file that is a symbolically truncated / spliced valid source or a malformed construct, decided by z3",
    "Containment half of C20: for every truncation point and spliced-out statement of a valid module that clashes with the names of the valid files, and every entry "
    "of a table of malformed constructs, with the extra file read first, in the middle or last: whenever FORD rejects the file (default settings) it is named in a "
    "diagnostic, none of its entities is registered, and the other files' ordered lists, names, identifiers and resolved USE/call/type references equal those of the "
    "project without it.  Every explored path terminates.  Undecodable bytes, termination on arbitrary bytes and HTML are outside.",
    "Trusted: z3, CV evaluator; FortranReader stubbed by the statement lists (reader-level corruption is outside); files FORD accepts without raising carry no requirement.",
    "DESIGN.md §11.8",
)

CLAIMED["C17"] = (
    "symbolic execution of the real get_page_tree / PageNode on a virtual page directory (file system and Markdown converter stubbed) whose page contents are finite-choice symbolic values, decided by z3",
    "Tree-building half of C17: for every combination of titled/untitled pages, ordered_subpage lists (none, partial, complete, naming index.md, a directory, a "
    "non-Markdown file, a duplicate, a missing file) at two levels and copy_subdir, the page tree has one page per titled Markdown file at the mirrored relative path, "
    "sub-trees for directories with a titled index.md, the documented order (listed first, the rest alphabetically whatever order the OS lists), hidden/backup entries "
    "ignored, other files recorded for copying, untitled pages reported and skipped without losing siblings, hierarchy = chain of parents.  Copying, HTML, aliases and "
    "relative links are outside.",
    "Trusted: z3, CV evaluator, the in-memory file system stub (fv/props/c17.py::VFS/VPath) and the documented-tree oracle written from writing_pages.rst; replays use a real temporary directory.",
    "DESIGN.md §11.9",
)

CLAIMED["C19"] = (
    "symbolic execution of the real Documentation.writeout / PagetreePage.writeout / copytree and of parse_arguments with the file system as a stubbed environment (in-memory tree, every mutating call logged, the crash point a symbolic integer), decided by z3",
    "Write-out half of C19: for 5 option profiles (media_dir present/missing, css, mathjax_config, incl_src, search, static pages with copy_subdir lists naming missing "
    "directories) x 4 earlier states of the output directory (absent, a file, stale pages, stale directories) x every crash point k (symbolic, 0..70): every created / "
    "modified / deleted path lies inside the output directory and all files outside are byte-identical afterwards.  Refusal check: for 4 x 14 spellings of src_dir / "
    "output_dir (`.`, `..`, nested, absolute, through a symbolic link) the run is refused exactly when a source directory is or lies inside the output directory, before "
    "any file-system operation.  The real OS, externalize and faults inside one copytree/rmtree are outside.",
    "Trusted: z3, the DSE engine, the file-system model fv/vfs.py (pathlib/shutil semantics of the calls FORD makes), page rendering stubbed; six hand-made escapes "
    "(copy beside the output directory, swapped copy arguments, rmtree of the parent, relative MathJax path, copies into page_dir, cleanup of media_dir) are all reported.",
    "DESIGN.md §11.10",
)

# obligations added after the first build (rounds of seeded changes); appended to the level text
LATER = {
    "C01": "Later obligations (same technique, real parser on finite-choice symbolic programs): O6 the whole entity tree of 9 program templates is independent of the "
           "spelling / letter case of every statement and equals a hand-written inventory; O7 the same with one statement broken at a symbolic blank in a symbolic "
           "continuation style and read by the real reader.",
    "C02": "Later: O4 the parser's literal-masking loop round-trips every line up to the bound; O6 a literal continued over two lines; O7 literal text (commas, `;`, `!`, `&`, "
           "doubled quotes) comes out of reader and parser verbatim in 7 statement layouts.",
    "C03": "Later: O3 metadata split (two entities per declaration); O5 rendering keeps entities apart; O6 doc lines after non-entity statements; O7 every entity kind takes "
           "its comment under 4 mark sets x 4 comment styles.",
    "C04": "Later: entity-level specs, typed array constructors, submodule scope, multi-name and mixed-case binding attributes.",
    "C05": "Later: O4 links only to visible entities; O5 parsed-project selection; O6 display override spellings inherited down to type components; O7 (Jinja AST -> z3) every "
           "template href built from the URL of an entity reached through a reference is guarded by that entity's `visible`.",
    "C06": "Later: O4 project module named like an intrinsic; O5 USE inside interface bodies / nested procedures (dependency order); O6 generic interface bodies; O7 cumulative "
           "USE statements; O8 NAMELIST members follow use association (renames, re-export, entity-level character lengths).",
    "C07": "Later: P2b a USE inside a procedure stays local (also for a module named like an external one); P3 USE in nested scopes; P4 binding targets; P5 procedure-pointer "
           "interface names incl. dummy procedures hiding module procedures.",
    "C08": "Later: O5 calls through the real reader; O6 no reference to any Fortran 2018 standard intrinsic (independent list, 198 names x 3 letter cases) is recorded; O7 calls in "
           "continued fixed-form statements; O8 ASSOCIATE names bound to function results.",
    "C09": "Later: O2 every page URL has a page and every anchor URL is `<created page>#<fragment>`; O3 graph node links; O4 summary links; O5 entity links pass relurl; O6 anchor "
           "links imply listed items; O7 relurl from every depth under every output_dir spelling; O8 static pages converted for their own directory.",
    "C10": "Later: P1 distinct URLs / page files / anchors on a parsed symbolic project (incl. submodule implementations); O3 source file copies; O4 saved graph files.",
    "C11": "Later: O3 references in the project file under every project_url form; O4 references in code stay verbatim; O5 references from the documentation of every entity kind "
           "(incl. dummy procedures; entities without own page are anchors of their host's page).",
    "C12": "Later: O2b numbering of equally named modules under an arbitrary module-ordering order; O4 stale output directory; O5 page tree under ascending / descending / rotated "
           "directory enumeration; set operators (&, |, -, ^) of the rewritten modules build permutation sets too; export order (modules.json) observed.",
    "C13": "Later: O2 node constructors; O3 project-wide call graph; O4 file dependency nodes (USE at every nesting depth); O5 used-by graph = inverse view incl. submodule ancestry.",
    "C14": "Later: O3 the extension decides the form; O4 included-file settings; literals ending in a backslash and statements reaching column 72 in O2.",
    "C15": "Later: O4 an option absent from the command line keeps the project file's value (real argparse, every boolean flag).",
    "C16": "Later: O2 remote URL re-basing; O3 [[...]] references into the external project; O1 also covers block data units, public abstract interfaces, capitalised module names, "
           "and A's procedures named as specifics of B's generic interfaces / targets of B's bindings.",
    "C17": "Later: O2 files and copy_subdir directories copied next to their pages (file-system stub); O3 alias links from every depth and placement; the directory each page is "
           "converted for is observed in O1.",
    "C18": "Later: O2 full declaration text; O2b result declarations; O2c procedure prefixes; O2d multi-name attribute statements; O2e entity specification after the name; O2f the "
           "Return Value heading of every generated page (real runs).",
    "C19": "Later: saved graphs (real GraphManager.output_graphs on the stub, graph_dir inside or outside the output directory), symbolic-link nodes in the media directory, "
           "absolute non-canonical spellings in the refusal check.",
    "C20": "Later: O1r the same containment with every file read by the real reader (files rejected half-way with statements still buffered); O2 (z3 regex theory) no unbounded "
           "loop of any source-line regex has an ambiguous body followed by a failing continuation (no catastrophic backtracking).",
}

NOT_APPLICABLE = {
}
NOT_YET = "obligations for this property are not built yet in this revision (see DESIGN.md §9 build order); not claimed"


def main():
    props = [json.loads(l)["id"] for l in open(os.path.join(ROOT, "properties.jsonl"))]
    checks = []
    for pid, (tech, text, note, ref) in CLAIMED.items():
        checks.append({
            "property_id": pid,
            "quick_cmd": f"./check {pid} --tier quick",
            "thorough_cmd": f"./check {pid} --tier thorough",
            "evidence_file": f"evidence/{pid}.json",
            "replay_cmd_template": f"./check {pid} --replay {{path}}",
            "engine": "fv",
            "level_claimed": {"category": "other", "text": text + ("  " + LATER[pid] if pid in LATER else ""), "design_ref": ref},
            "level_note": note,
            "technique": tech,
        })
    na = []
    for pid in props:
        if pid in CLAIMED:
            continue
        na.append({"property_id": pid, "reason": NOT_APPLICABLE.get(pid, NOT_YET)})
    man = {
        "version": 1,
        "setup_cmd": "sh ./setup.sh",
        "hooks": {
            "guard": "FORD_VERIF",
            "enable": "no source hooks are needed: checks read /repo's unmodified source (AST, live compiled regex objects, templates); FORD_VERIF=1 is exported by ./check for completeness",
            "baseline_off_cmd": "cd /repo && /venv/bin/python -m pytest -ra -q -p no:cacheprovider --timeout=900 --continue-on-collection-errors",
            "source_commits": [],
            "add_only": True,
        },
        "engines": [
            {"name": "fv", "path": "fv/", "serves_properties": sorted(CLAIMED),
             "kind_free_text": "solver-based checking of the real code: RX (sre_parse->z3 regex), RXA (exact CPython regex semantics on bounded symbolic strings), SX (symbolic execution of FORD's Python on symbolic strings/stand-in objects), JX (Jinja+Python AST -> LIA); z3 5.1"},
        ],
        "checks": checks,
        "not_applicable": na,
        "notes": "Exit codes: 0 held (KNOWN-FINDING lines allowed), 1 VIOLATION, 2 inconclusive (solver unknown/time-out/unsupported construct/failed vacuity twin), 3 encoding mismatch (a solver model did not reproduce on the real code).  known_findings.json lists unrepaired genuine defects.",
    }
    with open(os.path.join(ROOT, "MANIFEST.json"), "w") as f:
        json.dump(man, f, indent=1)
    print("wrote MANIFEST.json:", len(checks), "checks,", len(na), "n/a")


if __name__ == "__main__":
    main()
