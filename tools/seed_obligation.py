#!/usr/bin/env python3
"""print the obligation id (O6, P2b, ...) named first in a seed's meta.json `caught_by`, or nothing"""
import json
import re
import sys

m = re.search(r"\b([OP][0-9]+[a-z]?)\b", json.load(open(sys.argv[1])).get("caught_by", ""))
print(m.group(1) if m else "")
