#!/bin/sh
# run every claimed check (quick tier unless $1 = thorough) sequentially, summarise
cd /verif
T=${1:-quick}
for id in $(python3 -c "import json;print(' '.join(c['property_id'] for c in json.load(open('MANIFEST.json'))['checks']))"); do
  s=$(date +%s); ./check $id --tier $T > /tmp/runall_$id.log 2>&1; rc=$?; e=$(date +%s)
  echo "$id exit=$rc $((e-s))s $(grep -c '^\[' /tmp/runall_$id.log) obligations, $(grep -c KNOWN-FINDING /tmp/runall_$id.log) known"
done
