#!/bin/sh
# tools/run_refactor.sh <patch file> [check ids...]: run checks (default: all claimed, quick) against a scratch worktree of /repo HEAD
# with a behaviour-preserving patch applied; every check is expected to exit 0
P=$1; shift
W=/tmp/rfwt_$$
git -C /repo worktree add -q --detach $W HEAD || exit 9
git -C $W apply $P || { git -C /repo worktree remove --force $W; echo "patch does not apply"; exit 8; }
IDS="$@"
[ -z "$IDS" ] && IDS=$(python3 -c "import json;print(' '.join(c['property_id'] for c in json.load(open('/verif/MANIFEST.json'))['checks']))")
cd /verif
for id in $IDS; do
  FORD_REPO=$W ./check $id --no-evidence > /tmp/rflog_$$_$id.log 2>&1; rc=$?
  echo "$id exit=$rc $(grep -a -c '^\[ *held' /tmp/rflog_$$_$id.log) held, $(grep -a -c VIOLATION /tmp/rflog_$$_$id.log) violation lines, $(grep -a -c INCONCLUSIVE /tmp/rflog_$$_$id.log) inconclusive, $(grep -a -c MISMATCH /tmp/rflog_$$_$id.log) mismatch"
done
git -C /repo worktree remove --force $W
