#!/bin/sh
# Run the pinned test-suite on /repo and compare with BASELINE.json stable_pass.
cd /repo && /venv/bin/python -m pytest -q -p no:cacheprovider --timeout=900 --continue-on-collection-errors --junitxml=/tmp/baseline.junit.xml >/tmp/baseline.log 2>&1
python3 - <<'PY'
import json, xml.etree.ElementTree as ET
base=json.load(open('/root/.vp/BASELINE.json'))
t=ET.parse('/tmp/baseline.junit.xml'); passed=set()
for tc in t.iter('testcase'):
    if not any(c.tag in ('failure','error','skipped') for c in tc):
        passed.add(tc.get('classname')+'::'+tc.get('name'))
missing=[x for x in base['stable_pass'] if x not in passed]
print("baseline stable:", len(base['stable_pass']), "passed now:", len(passed), "missing:", len(missing))
for m in missing[:20]: print("  MISSING", m)
PY
