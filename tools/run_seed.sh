#!/bin/sh
# tools/run_seed.sh <seed ID> <check ID> [extra check args]: run a check against a scratch worktree of /repo HEAD
# with the seeded change applied (never touches /repo itself)
S=$1; C=$2; shift 2
W=/tmp/seedwt_${S}_$$
git -C /repo worktree add -q --detach $W HEAD || exit 9
git -C $W apply /verif/seeded/$S/patch.diff || { git -C /repo worktree remove --force $W; exit 8; }
cd /verif && FORD_REPO=$W ./check $C --no-evidence "$@" 2>&1 | grep -a -E "^\[|VIOLATION|INCONCLUSIVE|MISMATCH" | cut -c1-260
git -C /repo worktree remove --force $W
