#!/bin/sh
# tools/run_seed.sh <seed ID> <check ID> [extra check args]: apply seeded change to /repo, run a check, undo
S=$1; C=$2; shift 2
cd /repo && git diff --quiet || { echo "/repo not clean"; exit 9; }
git -C /repo apply /verif/seeded/$S/patch.diff || exit 8
cd /verif && ./check $C --no-evidence "$@" 2>&1 | grep -E "^\[|VIOLATION|INCONCLUSIVE|MISMATCH" | cut -c1-260
echo "exit=$?"
git -C /repo checkout -- .
