#!/bin/sh
# run every stored seed against the check of its own property (scratch worktrees; never touches /repo); prints one line per seed.
# $1 = number of seeds run in parallel (default 6)
cd /verif
J=${1:-6}
one() {
  d=$1; s=$(basename $d); c=$(python3 -c "import json;print(json.load(open('$d/meta.json'))['property'])")
  if grep -q '"status": "obsolete"' $d/meta.json; then echo "$s $c obsolete (see meta.json)"; return; fi
  # the obligation named first in meta.json's caught_by (e.g. O6, P2b) restricts the run; FULL=1 runs the whole check
  o=$(python3 tools/seed_obligation.py $d/meta.json)
  if [ -n "$o" ] && [ -z "$FULL" ]; then
    n=$(tools/run_seed.sh $s $c --only=$o 2>/dev/null | grep -a -c "^VIOLATION")
    if [ "$n" = "0" ]; then n=$(tools/run_seed.sh $s $c 2>/dev/null | grep -a -c "^VIOLATION"); o="$o->full"; fi
  else
    n=$(tools/run_seed.sh $s $c 2>/dev/null | grep -a -c "^VIOLATION"); o=full
  fi
  echo "$s $c violations=$n ($o)"
}
if [ "$1" = "--one" ]; then one $2; exit 0; fi
ls -d seeded/*/ | xargs -P $J -n 1 sh tools/run_all_seeds.sh --one
