#!/bin/sh
# run every stored seed against the check of its own property (scratch worktrees; never touches /repo); prints one line per seed
cd /verif
for d in seeded/*/; do
  s=$(basename $d); c=$(python3 -c "import json;print(json.load(open('$d/meta.json'))['property'])")
  if grep -q '"status": "obsolete"' $d/meta.json; then echo "$s $c obsolete (see meta.json)"; continue; fi
  n=$(tools/run_seed.sh $s $c 2>/dev/null | grep -a -c "^VIOLATION")
  echo "$s $c violations=$n"
done
