import z3, time, random, re
from rxa import *
from ford.reader import FortranReader
from ford.sourceform import FortranContainer as FC
def conc(pat, s, N=None):
    N = N or len(s) + 1
    chars = [z3.IntVal(ord(c)) for c in s] + [z3.IntVal(0)] * (N - len(s))
    m = Matcher(Prog(pat), chars, z3.IntVal(len(s))); ok, caps, end = m.match()
    ok = z3.is_true(z3.simplify(ok))
    return ok, [z3.simplify(c).as_long() for c in caps] if ok else None
random.seed(1); bad = 0; tot = 0
for pat in [FortranReader.COM_RE, FC.SUBROUTINE_RE, FC.USE_RE, FC.TYPE_RE, FC.END_RE, FC.ATTRIB_RE]:
    alpha = "ab '\"!(),:= subroutine end use type bind only"
    words = ["subroutine", "end", "use", "type", " ", "(", ")", ",", "::", "a", "b", "!", "'", '"', "bind", "only", ":", "=", "public", "extends"]
    for _ in range(300):
        s = "".join(random.choice(words) for _ in range(random.randint(0, 6)))[:20]
        r = pat.match(s); ok, caps = conc(pat, s)
        tot += 1
        exp = None
        if r:
            exp = []
            for g in range(1, pat.groups + 1): exp += [r.start(g), r.end(g)]
        if (r is not None) != ok or (ok and caps != exp):
            bad += 1
            if bad < 6: print("MISMATCH", pat.pattern[:30], repr(s), r and exp, ok, caps)
print("differential:", tot, "cases,", bad, "mismatches")
# symbolic: COM_RE group 4 start == first '!' outside literals (regex notion) on symbolic array
N = 12
chars = [z3.Int(f"c{i}") for i in range(N)]; L = z3.Int("L")
dom = [z3.Or(*[c == ord(a) for a in "'\"!a "]) for c in chars] + [L >= 0, L <= N]
t0 = time.time(); m = Matcher(Prog(FortranReader.COM_RE), chars, L); ok, caps, end = m.match()
# reference: DFA outside/in-quote (no doubling needed: '' handled as two literals)
st = z3.IntVal(0); first = z3.IntVal(-1); dead = z3.BoolVal(False)
for k in range(N):
    c = chars[k]; act = z3.And(k < L, first == -1)
    first = z3.If(z3.And(act, st == 0, c == ord("!")), k, first)
    st = z3.If(z3.And(k < L), z3.If(st == 0, z3.If(c == ord("'"), 1, z3.If(c == ord('"'), 2, 0)), z3.If(st == 1, z3.If(c == ord("'"), 0, 1), z3.If(c == ord('"'), 0, 2))), st)
sol = z3.Solver(); sol.add(*dom); sol.add(z3.Not(z3.And(ok == (first != -1), z3.Implies(ok, caps[6] == first))))
r = sol.check(); print("COM_RE start(4) == first unquoted '!':", r, round(time.time() - t0, 2))
if str(r) == "sat":
    mm = sol.model(); print(repr("".join(chr(mm.eval(c, True).as_long()) for c in chars[:mm[L].as_long()])), mm.eval(ok), mm.eval(caps[6]), mm.eval(first))
