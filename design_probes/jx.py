import re, ast, inspect, z3, jinja2
from jinja2 import nodes
import ford.output as out
env = out.env
V = {}
def var(name, sort="int"):
    if name not in V: V[name] = z3.Int(name) if sort == "int" else z3.Bool(name)
    return V[name]
def length(e):
    # project.X  -> size variable
    if isinstance(e, nodes.Getattr) and isinstance(e.node, nodes.Name) and e.node.name == "project": return var("n_" + e.attr)
    if isinstance(e, nodes.Add): return length(e.left) + length(e.right)
    if isinstance(e, nodes.Filter) and e.name == "length": return length(e.node)
    if isinstance(e, nodes.Const): return z3.IntVal(e.value)
    raise NotImplementedError(e)
def truth(e):
    if isinstance(e, nodes.Name): return var("b_" + e.name, "bool")
    if isinstance(e, nodes.Getattr): return length(e) > 0
    if isinstance(e, nodes.Not): return z3.Not(truth(e.node))
    if isinstance(e, nodes.And): return z3.And(truth(e.left), truth(e.right))
    if isinstance(e, nodes.Or): return z3.Or(truth(e.left), truth(e.right))
    if isinstance(e, nodes.Test) and e.name == "more_than_one": return length(e.node) > 1   # semantic read from output.is_more_than_one (TODO: from its AST)
    if isinstance(e, nodes.Compare):
        l = length(e.expr); op = e.ops[0]; r = length(op.expr)
        return {"eq": l == r, "gt": l > r, "lt": l < r, "gteq": l >= r, "lteq": l <= r, "ne": l != r}[op.op]
    raise NotImplementedError(e)
links = []
def walk(body, conds, tname):
    for n in body:
        if isinstance(n, nodes.If):
            c = truth_safe(n.test); neg = []
            walk(n.body, conds + [c], tname); neg.append(z3.Not(c) if c is not None else None)
            for el in n.elif_:
                ce = truth_safe(el.test); walk(el.body, conds + [x for x in neg] + [ce], tname); neg.append(z3.Not(ce) if ce is not None else None)
            walk(n.else_, conds + neg, tname)
        elif isinstance(n, nodes.Output):
            for d in n.nodes:
                if isinstance(d, nodes.TemplateData):
                    for m in re.finditer(r"/lists/(\w+\.html)", d.data): links.append((tname, m.group(1), list(conds)))
        else:
            for fld in ("body", "else_"):
                if hasattr(n, fld) and isinstance(getattr(n, fld), list): walk(getattr(n, fld), conds, tname)
def truth_safe(e):
    try: return truth(e)
    except NotImplementedError: return None    # unknown condition: treated as unconstrained (sound: link may be emitted)
for t in ["base.html", "index.html"]:
    src = open(f"/repo/ford/templates/{t}").read()
    walk(env.parse(src).body, [], t)
# python side: conditions guarding self.lists.append(X(...)) in Documentation.__init__
tree = ast.parse(inspect.getsource(out.Documentation.__init__).lstrip()) if False else ast.parse(__import__("textwrap").dedent(inspect.getsource(out.Documentation.__init__)))
def pyexpr(e):
    if isinstance(e, ast.Compare):
        l = pyexpr(e.left); r = pyexpr(e.comparators[0]); o = e.ops[0]
        return {ast.Gt: l > r, ast.GtE: l >= r, ast.Lt: l < r, ast.Eq: l == r}[type(o)]
    if isinstance(e, ast.Call) and getattr(e.func, "id", "") == "len": return pyexpr(e.args[0])
    if isinstance(e, ast.Attribute) and isinstance(e.value, ast.Name) and e.value.id == "project": return var("n_" + e.attr)
    if isinstance(e, ast.Attribute) and isinstance(e.value, ast.Name) and e.value.id == "settings": return var("b_" + e.attr, "bool")
    if isinstance(e, ast.BinOp) and isinstance(e.op, ast.Add): return pyexpr(e.left) + pyexpr(e.right)
    if isinstance(e, ast.Constant): return z3.IntVal(e.value)
    if isinstance(e, ast.BoolOp): 
        vs = [pytruth(x) for x in e.values]; return z3.And(*vs) if isinstance(e.op, ast.And) else z3.Or(*vs)
    raise NotImplementedError(ast.dump(e))
def pytruth(e):
    v = pyexpr(e)
    return v if z3.is_bool(v) else v > 0
pages = {}
for n in ast.walk(tree):
    if isinstance(n, ast.If):
        for s in n.body:
            if isinstance(s, ast.Expr) and isinstance(s.value, ast.Call) and ast.unparse(s.value.func) == "self.lists.append":
                cls = s.value.args[0].func.id; pages[getattr(out, cls).out_page] = pytruth(n.test)
print("pages:", {k: str(v) for k, v in pages.items()})
facts = [v >= 0 for k, v in V.items() if k.startswith("n_")] + [var("n_files") >= 1]
for t, page, conds in links:
    conds = [c for c in conds if c is not None]
    s = z3.Solver(); s.add(*facts, *conds, z3.Not(pages[page])); r = s.check()
    print(t, page, r, s.model() if str(r) == "sat" else "")
