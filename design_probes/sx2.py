"""Spike 2: merged-state interpretation of REAL methods on stand-in objects (attributes hold z3 terms)."""
import ast, inspect, textwrap, types, z3

class GList:
    """guarded list: items present under a guard, in program order"""
    def __init__(self, items=None): self.items = list(items or [])   # (guard, obj)
class SymSet:
    def __init__(self, members): self.members = members             # {concrete value: Bool}
class SymEmptyList:
    def __init__(self, nonempty): self.nonempty = nonempty
class Leaf:
    """stand-in child entity"""
    def __init__(self, name, perm, documented):
        self.name, self.permission, self.doc_list = name, perm, SymEmptyList(documented)
        self.visible = z3.BoolVal(False); self.pruned = z3.BoolVal(False)
class Ret(Exception): pass

def tobool(v):
    if isinstance(v, bool): return z3.BoolVal(v)
    if isinstance(v, GList): return z3.Or(*[g for g, _ in v.items]) if v.items else z3.BoolVal(False)
    if isinstance(v, SymEmptyList): return v.nonempty
    if isinstance(v, list): return z3.BoolVal(bool(v))
    return v
def ite(g, a, b):
    if a is b: return a
    if isinstance(a, bool) or isinstance(b, bool) or z3.is_bool(a) or z3.is_bool(b): return z3.If(g, tobool(a), tobool(b))
    if isinstance(a, GList) and isinstance(b, (GList, list)):
        bi = b.items if isinstance(b, GList) else [(z3.BoolVal(True), x) for x in b]
        return GList([(z3.And(g, x), o) for x, o in a.items] + [(z3.And(z3.Not(g), x), o) for x, o in bi])
    if isinstance(a, list) and isinstance(b, (GList, list)): return ite(g, GList([(z3.BoolVal(True), x) for x in a]), b)
    return z3.If(g, a, b)

class Frame:
    def __init__(self): self.env = {}; self.returned = z3.BoolVal(False); self.retval = None; self.yields = None

class SX:
    def __init__(self): self.trace = []
    def fn_ast(self, f):
        return ast.parse(textwrap.dedent(inspect.getsource(f))).body[0]
    def call(self, f, args, g):
        node = self.fn_ast(f); fr = Frame()
        names = [a.arg for a in node.args.args]
        for n, v in zip(names, args): fr.env[n] = v
        if node.args.vararg: fr.env[node.args.vararg.arg] = list(args[len(names):])
        if any(isinstance(n, (ast.Yield)) for n in ast.walk(node)): fr.yields = GList()
        self.block(node.body, g, fr)
        return fr.yields if fr.yields is not None else fr.retval
    def block(self, stmts, g, fr):
        for s in stmts: self.stmt(s, g, fr)
    def live(self, g, fr): return z3.simplify(z3.And(g, z3.Not(fr.returned)))
    def setattr_(self, obj, name, val, g):
        old = getattr(obj, name, None)
        setattr(obj, name, val if old is None else ite(g, val, old))
    def stmt(self, s, g, fr):
        g = self.live(g, fr)
        if z3.is_false(g): return
        if isinstance(s, ast.Expr):
            if isinstance(s.value, ast.Constant): return
            self.ev(s.value, g, fr); return
        if isinstance(s, ast.Assign):
            v = self.ev(s.value, g, fr); t = s.targets[0]
            if isinstance(t, ast.Name): fr.env[t.id] = v if t.id not in fr.env else ite(g, v, fr.env[t.id])
            elif isinstance(t, ast.Attribute): self.setattr_(self.ev(t.value, g, fr), t.attr, v, g)
            else: raise NotImplementedError(ast.dump(t))
            return
        if isinstance(s, ast.If):
            c = tobool(self.ev(s.test, g, fr))
            self.block(s.body, z3.And(g, c), fr); self.block(s.orelse, z3.And(g, z3.Not(c)), fr); return
        if isinstance(s, ast.Return):
            v = self.ev(s.value, g, fr) if s.value else None
            fr.retval = v if fr.retval is None else ite(g, v, fr.retval)
            fr.returned = z3.Or(fr.returned, g); return
        if isinstance(s, ast.For):
            it = self.ev(s.iter, g, fr)
            items = it.items if isinstance(it, GList) else [(z3.BoolVal(True), x) for x in it]
            for gi, x in items:
                fr.env[s.target.id] = x
                self.block(s.body, z3.And(g, gi), fr)
            return
        raise NotImplementedError(ast.dump(s)[:120])
    def ev(self, e, g, fr):
        if isinstance(e, ast.Constant): return e.value
        if isinstance(e, ast.Name):
            if e.id in fr.env: return fr.env[e.id]
            import ford.sourceform as sf
            return getattr(sf, e.id, None) if hasattr(sf, e.id) else __builtins__[e.id] if isinstance(__builtins__, dict) else getattr(__builtins__, e.id)
        if isinstance(e, ast.List): return [self.ev(x, g, fr) for x in e.elts]
        if isinstance(e, ast.Attribute): return getattr(self.ev(e.value, g, fr), e.attr)
        if isinstance(e, ast.UnaryOp) and isinstance(e.op, ast.Not): return z3.Not(tobool(self.ev(e.operand, g, fr)))
        if isinstance(e, ast.BoolOp):
            vs = [tobool(self.ev(x, g, fr)) for x in e.values]
            return z3.And(*vs) if isinstance(e.op, ast.And) else z3.Or(*vs)
        if isinstance(e, ast.Compare):
            l = self.ev(e.left, g, fr); r = self.ev(e.comparators[0], g, fr); op = e.ops[0]
            if isinstance(op, ast.Eq): return l == r
            if isinstance(op, ast.In):
                if isinstance(r, SymSet): return z3.Or(*[z3.And(l == k, m) for k, m in r.members.items()])
                return z3.Or(*[l == x for x in r])
            raise NotImplementedError(ast.dump(op))
        if isinstance(e, ast.ListComp):
            gen = e.generators[0]; it = self.ev(gen.iter, g, fr)
            items = it.items if isinstance(it, GList) else [(z3.BoolVal(True), x) for x in it]
            out = GList()
            for gi, x in items:
                fr.env[gen.target.id] = x; c = gi
                for cond in gen.ifs: c = z3.And(c, tobool(self.ev(cond, g, fr)))
                out.items.append((z3.simplify(c), self.ev(e.elt, g, fr)))
            return out
        if isinstance(e, ast.Call):
            if isinstance(e.func, ast.Name) and e.func.id in ("isinstance", "hasattr", "getattr"):
                a = [self.ev(x, g, fr) for x in e.args]; return {"isinstance": isinstance, "hasattr": hasattr, "getattr": getattr}[e.func.id](*a)
            if isinstance(e.func, ast.Attribute):
                recv = self.ev(e.func.value, g, fr); args = [self.ev(x, g, fr) for x in e.args]
                if isinstance(recv, Leaf) and e.func.attr == "prune":
                    recv.pruned = z3.Or(recv.pruned, g); return None
                f = getattr(type(recv), e.func.attr)
                if isinstance(f, property): f = f.fget
                return self.call(f, [recv] + args, g)
            raise NotImplementedError(ast.dump(e)[:100])
        if isinstance(e, ast.Yield):
            fr.yields.items.append((g, self.ev(e.value, g, fr))); return None
        raise NotImplementedError(ast.dump(e)[:120])
