"""CPS regex->z3 with marker support for capture groups"""
import re, z3
import re._parser as sp, re._constants as sc
LO, HI = 9, 126          # normal alphabet: \t .. ~   (markers are chr(1..8))
class T:
    def __init__(self, junk=None, marks=None):
        # junk: z3 regex of ignorable marker chars (or None); marks: {group_id_or_name: (open_char, close_char)}
        self.J = z3.Star(junk) if junk is not None else None
        self.marks = marks or {}
        self.ANYC = z3.Range(chr(LO), chr(HI))
        self.EPS = z3.Re(z3.StringVal(""))
        self.D = z3.Range("0","9")
        self.W = z3.Union(z3.Range("a","z"), z3.Range("A","Z"), self.D, self.c(ord("_")))
        self.S = z3.Union(*[self.c(ord(x)) for x in " \t\n\r\x0b\x0c"])
        self.DOT = self.neg(self.c(10))
        anyj = self.ANYC if junk is None else z3.Union(self.ANYC, junk)
        self.FULL = z3.Star(anyj)
    def c(self, o): return z3.Re(z3.StringVal(chr(o)))
    def neg(self, r): return z3.Intersect(self.ANYC, z3.Complement(r))
    def atom(self, r, k):
        r = z3.Concat(r, k)
        return z3.Concat(self.J, r) if self.J is not None else r
    def cat(self, a):
        n=str(a)
        return {"CATEGORY_DIGIT":self.D,"CATEGORY_WORD":self.W,"CATEGORY_SPACE":self.S,"CATEGORY_NOT_SPACE":self.neg(self.S),"CATEGORY_NOT_WORD":self.neg(self.W),"CATEGORY_NOT_DIGIT":self.neg(self.D)}[n]
    def lit(self, o, ic):
        s=chr(o)
        if ic and s.isalpha(): return z3.Union(self.c(ord(s.lower())), self.c(ord(s.upper())))
        return self.c(o)
    def cls(self, arg, ic):
        ng=False; parts=[]
        for o,a in arg:
            on=str(o)
            if on=="NEGATE": ng=True
            elif on=="LITERAL": parts.append(self.lit(a,ic))
            elif on=="RANGE":
                lo,hi=a; r=z3.Range(chr(max(lo,LO)),chr(min(hi,HI)))
                if ic:
                    ex=[self.c(ord(chr(x).swapcase())) for x in range(lo,min(hi,HI)+1) if chr(x).isalpha()]
                    if ex: r=z3.Union(r,*ex)
                parts.append(r)
            elif on=="CATEGORY": parts.append(self.cat(a))
            else: raise NotImplementedError(on)
        u=parts[0] if len(parts)==1 else z3.Union(*parts)
        return self.neg(u) if ng else u
    def seq(self, items, ic, k):
        acc=k
        for op,arg in reversed(list(items)): acc=self.one(op,arg,ic,acc)
        return acc
    def has_special(self, items):
        for op,arg in items:
            n=str(op)
            if n in("AT","ASSERT","ASSERT_NOT"): return True
            if n in("MAX_REPEAT","MIN_REPEAT") and self.has_special(arg[2]): return True
            if n=="SUBPATTERN" and (arg[0] in self.marks or self.has_special(arg[3])): return True
            if n=="BRANCH" and any(self.has_special(a) for a in arg[1]): return True
        return False
    def one(self, op, arg, ic, k):
        n=str(op)
        if n=="LITERAL": return self.atom(self.lit(arg,ic),k)
        if n=="NOT_LITERAL": return self.atom(self.neg(self.lit(arg,ic)),k)
        if n=="ANY": return self.atom(self.DOT,k)
        if n=="IN": return self.atom(self.cls(arg,ic),k)
        if n=="CATEGORY": return self.atom(self.cat(arg),k)
        if n in("MAX_REPEAT","MIN_REPEAT"):
            lo,hi,sub=arg
            if self.has_special(sub):
                if (lo,hi)==(0,1): return z3.Union(self.seq(sub,ic,k),k)
                raise NotImplementedError("anchor/marked group inside repeat")
            r=self.seq(sub,ic,self.EPS)
            if hi==sc.MAXREPEAT:
                rr=z3.Star(r) if lo==0 else (z3.Plus(r) if lo==1 else z3.Concat(*([r]*lo),z3.Star(r)))
            else: rr=z3.Loop(r,lo,hi)
            return z3.Concat(rr,k)
        if n=="SUBPATTERN":
            g,add,dele,sub=arg
            ic2=(ic or bool(add&re.I)) and not bool(dele&re.I)
            if g in self.marks:
                o,cl=self.marks[g]
                inner=self.seq(sub,ic2,z3.Concat(self.J, z3.Re(cl),k) if self.J is not None else z3.Concat(z3.Re(cl),k))
                return z3.Concat(self.J, z3.Re(o), inner) if self.J is not None else z3.Concat(z3.Re(o),inner)
            return self.seq(sub,ic2,k)
        if n=="BRANCH": return z3.Union(*[self.seq(a,ic,k) for a in arg[1]])
        if n=="AT":
            an=str(arg)
            if an=="AT_BEGINNING": return k
            if an=="AT_END":
                tail = self.EPS if self.J is None else self.J
                return z3.Intersect(k, z3.Union(tail, z3.Concat(tail,self.c(10),tail)))
            raise NotImplementedError(an)
        if n in("ASSERT","ASSERT_NOT"):
            d,sub=arg
            if d!=1: raise NotImplementedError("lookbehind")
            la=self.seq(sub,ic,self.FULL)
            return z3.Intersect(k, la if n=="ASSERT" else z3.Complement(la))
        raise NotImplementedError(n)
    def lang(self, pat, mode="match"):
        p=sp.parse(pat.pattern, pat.flags); ic=bool(pat.flags&re.I)
        self.groupindex = dict(p.state.groupdict)
        end = self.FULL if mode!="fullmatch" else (self.EPS if self.J is None else self.J)
        body=self.seq(p,ic,end)
        items=list(p)
        anchored = items and str(items[0][0])=="AT" and str(items[0][1])=="AT_BEGINNING"
        if mode=="search" and not anchored: return z3.Concat(self.FULL, body)
        return body
