import z3, time, re
from rx3 import T
from ford.sourceform import FortranContainer as FC, QUOTES_RE
s=z3.String("s")
def q(*cs,t=60000):
    sol=z3.Solver(); sol.set("timeout",t); sol.add(*cs); t0=time.time(); r=sol.check()
    return str(r),(sol.model()[s] if str(r)=="sat" else None),round(time.time()-t0,2)
# QUOTES symmetric difference (no newline in alphabet of spec)
t=T()
QL=t.lang(QUOTES_RE,"fullmatch")
nl=t.c(10)
def R(x): return z3.Re(x)
sq=z3.Concat(R("'"),z3.Star(z3.Union(t.neg(z3.Union(R("'"),nl)),R("''"))),R("'"))
dq=z3.Concat(R('"'),z3.Star(z3.Union(t.neg(z3.Union(R('"'),nl)),R('""'))),R('"'))
LIT=z3.Union(sq,dq)
NONL=z3.Star(t.neg(nl))
print("QUOTES_RE\\LIT", q(z3.InRe(s,z3.Intersect(QL,z3.Complement(LIT),NONL))))
print("LIT\\QUOTES_RE", q(z3.InRe(s,z3.Intersect(LIT,z3.Complement(QL)))))
# marker trick for subroutine name
def ci(w): return z3.Concat(*[z3.Union(R(c.lower()),R(c.upper())) if c.isalpha() else R(c) for c in w])
Aop,Acl,Bop,Bcl = chr(1),chr(2),chr(3),chr(4)
JA=z3.Union(R(Aop),R(Acl)); JB=z3.Union(R(Bop),R(Bcl))
# impl language with B markers around group 'name', tolerant of A markers
gi = re.compile(FC.SUBROUTINE_RE.pattern, FC.SUBROUTINE_RE.flags).groupindex
tB=T(junk=JA, marks={gi["name"]:(Bop,Bcl)})
MI=tB.lang(FC.SUBROUTINE_RE,"match")
# spec language with A markers, tolerant of B markers: build by hand with junk
J=z3.Star(JB)
def a(r): return z3.Concat(J,r)
SPC=z3.Plus(a(R(" "))); OSP=z3.Star(a(R(" ")))
letter=z3.Union(z3.Range("a","z"),z3.Range("A","Z"))
ident=z3.Concat(a(letter),z3.Star(a(z3.Union(letter,z3.Range("0","9"),R("_")))))
def cij(w): return z3.Concat(*[a(z3.Union(R(c.lower()),R(c.upper()))) for c in w])
arglist=z3.Concat(a(R("(")),OSP,z3.Option(z3.Concat(ident,z3.Star(z3.Concat(OSP,a(R(",")),OSP,ident)),OSP)),a(R(")")))
prefix=z3.Star(z3.Concat(z3.Union(*[cij(w) for w in ["pure","elemental","recursive","impure","module"]]),SPC))
MS=z3.Concat(prefix,cij("subroutine"),SPC,J,R(Aop),ident,J,R(Acl),OSP,z3.Option(arglist),J)
ANY=z3.Star(z3.Union(z3.Range(chr(9),chr(126)),JA,JB))
good=z3.Concat(ANY,z3.Union(R(Aop+Bop),R(Bop+Aop)),ANY,z3.Union(R(Acl+Bcl),R(Bcl+Acl)),ANY)
print("group mismatch:", q(z3.InRe(s,z3.Intersect(MS,MI,z3.Complement(good)))))
# sanity (reachability twin): intersection non-empty
print("twin:", q(z3.InRe(s,z3.Intersect(MS,MI))))
