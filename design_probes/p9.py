import z3, time
from sx import *
from ford.reader import _contains_unterminated_string
from ford.utils import quote_split
import sys
N = int(sys.argv[1]) if len(sys.argv) > 1 else 10
s = SStr("s", N)
alpha = "'\";a"
# reference DFA: 0 out, 1 in ', 2 in ' saw ', 3 in ", 4 in " saw "
def ref_states(s):
    st = z3.IntVal(0); states = []
    for k in range(s.N):
        c = s.chars[k]; q1 = c == ord("'"); q2 = c == ord('"')
        nxt = z3.If(st == 0, z3.If(q1, 1, z3.If(q2, 3, 0)),
              z3.If(st == 1, z3.If(q1, 2, 1),
              z3.If(st == 2, z3.If(q1, 1, z3.If(q2, 3, 0)),
              z3.If(st == 3, z3.If(q2, 4, 3),
                             z3.If(q2, 3, z3.If(q1, 1, 0))))))
        states.append(st)               # state BEFORE consuming char k
        st = z3.If(k < s.len, nxt, st)
    return states, st
states, final = ref_states(s)
it = Interp(_contains_unterminated_string, N)
res = it.run(string=s)
sol = z3.Solver(); sol.add(*s.constraints(alpha))
ref = z3.Or(final == 1, final == 3)
sol.add(res != ref)
t0 = time.time(); r = sol.check(); print("unterminated N=%d:" % N, r, round(time.time() - t0, 2))
if str(r) == "sat":
    m = sol.model(); L = m[s.len].as_long(); print(repr("".join(chr(m.eval(c, True).as_long()) for c in s.chars[:L])))
# quote_split: cut positions
it2 = Interp(quote_split, N + 1)
out = it2.run(sep=ord(";"), string=s)
sol = z3.Solver(); sol.add(*s.constraints(alpha))
viol = []
# impl cut at index i  <=> exists appended slice with hi == i (under guard), excluding final append
cuts_impl = []
for i in range(N):
    cuts_impl.append(z3.Or(*[z3.And(g, v.hi == i) for g, v in out.items[:-1]]))
for i in range(N):
    want = z3.And(i < s.len, s.chars[i] == ord(";"), z3.Or(states[i] == 0, states[i] == 2, states[i] == 4))
    viol.append(cuts_impl[i] != want)
sol.add(z3.Or(*viol))
t0 = time.time(); r = sol.check(); print("quote_split N=%d:" % N, r, round(time.time() - t0, 2), "unwind:", end=" ")
u = z3.Solver(); u.add(*s.constraints(alpha)); u.add(z3.Not(z3.And(*it2.unwind_ok))); print(u.check())
if str(r) == "sat":
    m = sol.model(); L = m[s.len].as_long(); print(repr("".join(chr(m.eval(c, True).as_long()) for c in s.chars[:L])))
