"""Spike: exact (leftmost-first / backtracking-priority) symbolic regex matching over a bounded symbolic char array.
Compile sre AST -> Pike-style program; B(pc,pos) memoised = result of Python's DFS from that configuration."""
import re, z3
import re._parser as sp, re._constants as sc

class Prog:
    def __init__(self, pat):
        self.pat = pat; self.ins = []; self.ic = bool(pat.flags & re.I)
        p = sp.parse(pat.pattern, pat.flags); self.ngroups = p.state.groups
        self.emit_seq(list(p)); self.ins.append(("MATCH",))
    def add(self, *i): self.ins.append(i); return len(self.ins) - 1
    def emit_seq(self, items):
        for op, arg in items: self.emit(op, arg)
    def emit(self, op, arg):
        n = str(op)
        if n in ("LITERAL", "NOT_LITERAL", "ANY", "IN", "CATEGORY"): self.add("CHAR", (n, arg)); return
        if n == "SUBPATTERN":
            g, a, d, sub = arg
            if g is not None: self.add("SAVE", 2 * g)
            self.emit_seq(sub)
            if g is not None: self.add("SAVE", 2 * g + 1)
            return
        if n == "BRANCH":
            alts = arg[1]; jmps = []
            for i, a in enumerate(alts):
                if i < len(alts) - 1:
                    sp_ = self.add("SPLIT", None, None); self.ins[sp_] = ("SPLIT", sp_ + 1, None)
                    self.emit_seq(a); jmps.append(self.add("JMP", None))
                    self.ins[sp_] = ("SPLIT", sp_ + 1, len(self.ins))
                else: self.emit_seq(a)
            for j in jmps: self.ins[j] = ("JMP", len(self.ins))
            return
        if n in ("MAX_REPEAT", "MIN_REPEAT"):
            lo, hi, sub = arg; greedy = n == "MAX_REPEAT"
            if hi == sc.MAXREPEAT and sub.getwidth()[0] == 0: raise NotImplementedError("nullable loop body")
            for _ in range(lo): self.emit_seq(sub)
            if hi == sc.MAXREPEAT:
                L = self.add("SPLIT", None, None); self.emit_seq(sub); self.add("JMP", L)
                self.ins[L] = ("SPLIT", L + 1, len(self.ins)) if greedy else ("SPLIT", len(self.ins), L + 1)
            else:
                outs = []
                for _ in range(hi - lo):
                    L = self.add("SPLIT", None, None); outs.append(L); self.emit_seq(sub)
                for L in outs:
                    self.ins[L] = ("SPLIT", L + 1, len(self.ins)) if greedy else ("SPLIT", len(self.ins), L + 1)
            return
        if n == "AT": self.add("AT", str(arg)); return
        if n in ("ASSERT", "ASSERT_NOT"):
            d, sub = arg
            if d != 1: raise NotImplementedError
            a = self.add("ASSERT", n == "ASSERT_NOT", None); self.emit_seq(sub); self.add("MATCH",)
            self.ins[a] = ("ASSERT", n == "ASSERT_NOT", len(self.ins)); return
        raise NotImplementedError(n)

def char_cond(c, spec, ic):
    n, arg = spec
    def lit(o):
        ch = chr(o)
        if ic and ch.isalpha(): return z3.Or(c == ord(ch.lower()), c == ord(ch.upper()))
        return c == o
    W = z3.Or(z3.And(c >= 97, c <= 122), z3.And(c >= 65, c <= 90), z3.And(c >= 48, c <= 57), c == 95)
    S = z3.Or(*[c == ord(x) for x in " \t\n\r\x0b\x0c"]); D = z3.And(c >= 48, c <= 57)
    def cat(a):
        k = str(a); base = {"DIGIT": D, "WORD": W, "SPACE": S}[k.split("_")[-1]]
        return z3.Not(base) if "_NOT_" in k else base
    if n == "LITERAL": return lit(arg)
    if n == "NOT_LITERAL": return z3.Not(lit(arg))
    if n == "ANY": return c != 10
    if n == "CATEGORY": return cat(arg)
    if n == "IN":
        neg = False; ps = []
        for o, a in arg:
            on = str(o)
            if on == "NEGATE": neg = True
            elif on == "LITERAL": ps.append(lit(a))
            elif on == "RANGE":
                lo, hi = a; r = z3.And(c >= lo, c <= hi)
                if ic: r = z3.Or(r, *[c == ord(chr(x).swapcase()) for x in range(lo, hi + 1) if chr(x).isalpha()])
                ps.append(r)
            elif on == "CATEGORY": ps.append(cat(a))
        u = z3.Or(*ps); return z3.Not(u) if neg else u

class Matcher:
    """chars: list of N z3 Int; length: z3 Int (symbolic, <= N)"""
    def __init__(self, prog, chars, length):
        self.p, self.chars, self.len, self.N = prog, chars, length, len(chars); self.memo = {}
        self.G = 2 * (prog.ngroups - 1)
    def B(self, pc, pos, visiting=frozenset()):
        # returns (ok: BoolRef, caps: list of Int exprs (-1 = unset), end: Int expr)
        key = (pc, pos)
        if key in self.memo: return self.memo[key]
        v = visiting
        i = self.p.ins[pc]; FAIL = (z3.BoolVal(False), [z3.IntVal(-1)] * self.G, z3.IntVal(-1))
        if i[0] == "MATCH": r = (z3.BoolVal(True), [z3.IntVal(-1)] * self.G, z3.IntVal(pos))
        elif i[0] == "CHAR":
            if pos >= self.N: r = FAIL
            else:
                ok, caps, end = self.B(pc + 1, pos + 1)
                r = (z3.And(pos < self.len, char_cond(self.chars[pos], i[1], self.p.ic), ok), caps, end)
        elif i[0] == "JMP": r = self.B(i[1], pos, v)
        elif i[0] == "SPLIT":
            a = self.B(i[1], pos, v); b = self.B(i[2], pos, v)
            r = (z3.Or(a[0], b[0]), [z3.If(a[0], x, y) for x, y in zip(a[1], b[1])], z3.If(a[0], a[2], b[2]))
        elif i[0] == "SAVE":
            ok, caps, end = self.B(pc + 1, pos, v); caps = list(caps)
            caps[i[1] - 2] = z3.If(caps[i[1] - 2] == -1, z3.IntVal(pos), caps[i[1] - 2])
            r = (ok, caps, end)
        elif i[0] == "AT":
            ok, caps, end = self.B(pc + 1, pos, v)
            c = (pos == 0) if i[1] == "AT_BEGINNING" else z3.Or(self.len == pos, z3.And(self.len == pos + 1, self.chars[pos] == 10) if pos < self.N else False)
            r = (z3.And(c, ok) if not isinstance(c, bool) else (ok if c else z3.BoolVal(False)), caps, end)
        elif i[0] == "ASSERT":
            sub = self.B(pc + 1, pos, v); ok, caps, end = self.B(i[2], pos, v)
            r = (z3.And(z3.Not(sub[0]) if i[1] else sub[0], ok), caps, end)
        self.memo[key] = r
        return r
    def match(self): return self.B(0, 0)
