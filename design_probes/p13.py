import z3, time
from sx2 import *
import ford.sourceform as sf
PUB, PRIV, PROT = "public", "private", "protected"
def S(v): return z3.StringVal(v)
class Settings: pass
class Meta: pass
def build(kind):
    m = object.__new__(kind)
    m.obj = "proc" if issubclass(kind, sf.FortranProcedure) else "module"
    m.settings = Settings(); m.settings.hide_undoc = z3.Bool("hide_undoc")
    m.meta = Meta(); m.meta.proc_internals = z3.Bool("proc_internals")
    m.display = SymSet({PUB: z3.Bool("d_pub"), PRIV: z3.Bool("d_priv"), PROT: z3.Bool("d_prot")})
    kids = {}
    for lst in ["functions", "subroutines", "types", "interfaces", "absinterfaces", "variables"]:
        ks = []
        for i in range(2):
            p = z3.String(f"perm_{lst}{i}")
            ks.append(Leaf(f"{lst}{i}", p, z3.Bool(f"doc_{lst}{i}")))
        setattr(m, lst, ks); kids[lst] = ks
    return m, kids
perm_dom = lambda p: z3.Or(p == PUB, p == PRIV, p == PROT)
for kind in (sf.FortranModule, sf.FortranSubroutine):
    m, kids = build(kind)
    t0 = time.time()
    SX().call(sf.FortranCodeUnit.prune, [m], z3.BoolVal(True))
    viol = []; dom = []
    hide, pi = m.settings.hide_undoc, m.meta.proc_internals
    for lst, ks in kids.items():
        after = getattr(m, lst)
        for k in ks:
            dom.append(perm_dom(k.permission))
            kept = z3.Or(*[g for g, o in (after.items if isinstance(after, GList) else [(z3.BoolVal(True), x) for x in after]) if o is k]) if (isinstance(after, GList) and after.items) or (isinstance(after, list) and after) else z3.BoolVal(False)
            sel = z3.And(z3.Or(*[z3.And(k.permission == v, b) for v, b in m.display.members.items()]), z3.Or(z3.Not(hide), k.doc_list.nonempty))
            if m.obj == "proc": sel = z3.And(sel, pi)
            viol.append(kept != sel)
            if lst in ("functions", "subroutines", "types"): viol.append(k.visible != sel); viol.append(k.pruned != sel)
    s = z3.Solver(); s.add(*dom); s.add(z3.Or(*viol)); r = s.check()
    print(kind.__name__, "prune == selection:", r, round(time.time() - t0, 2))
    if str(r) == "sat": print(s.model())
