"""Spike: merged-state bounded symbolic interpreter for char-scanner functions (AST -> z3)."""
import ast, inspect, textwrap, z3

NONE = -1  # encoding of None for optional-char variables

class SStr:  # symbolic input string: fixed array of N char codes + symbolic length
    def __init__(self, name, N):
        self.N = N; self.chars = [z3.Int(f"{name}_{i}") for i in range(N)]; self.len = z3.Int(f"{name}_len")
    def constraints(self, alphabet):
        cs = [self.len >= 0, self.len <= self.N]
        for c in self.chars: cs.append(z3.Or(*[c == ord(a) for a in alphabet]))
        return cs
    def at(self, idx):
        if isinstance(idx, int): return self.chars[idx] if idx < self.N else z3.IntVal(-2)
        e = z3.IntVal(-2)
        for i in reversed(range(self.N)): e = z3.If(idx == i, self.chars[i], e)
        return e

class Slice:
    def __init__(self, base, lo, hi): self.base, self.lo, self.hi = base, lo, hi

class GList:  # guarded list of appended items (program order)
    def __init__(self): self.items = []   # (guard, value)

def ite(g, a, b):
    if isinstance(a, bool): a = z3.BoolVal(a)
    if isinstance(b, bool): b = z3.BoolVal(b)
    if isinstance(a, int): a = z3.IntVal(a)
    if isinstance(b, int): b = z3.IntVal(b)
    if a is b: return a
    return z3.If(g, a, b)

class Interp:
    def __init__(self, fn, unroll):
        self.tree = ast.parse(textwrap.dedent(inspect.getsource(fn))).body[0]
        self.unroll = unroll
        self.unwind_ok = []   # unwinding assertions
    def run(self, **args):
        self.env = dict(args)
        self.returned = z3.BoolVal(False); self.retval = None; self.raised = z3.BoolVal(False)
        self.block(self.tree.body, z3.BoolVal(True), None)
        return self.retval
    # --- expressions
    def ev(self, e):
        if isinstance(e, ast.Constant):
            v = e.value
            if v is None: return NONE
            if isinstance(v, str) and len(v) == 1: return ord(v)
            if isinstance(v, str) and v == "": return "EMPTY"
            return v
        if isinstance(e, ast.Name): return self.env[e.id]
        if isinstance(e, ast.Tuple): return [self.ev(x) for x in e.elts]
        if isinstance(e, ast.UnaryOp) and isinstance(e.op, ast.Not): return z3.Not(self.b(self.ev(e.operand)))
        if isinstance(e, ast.BoolOp):
            vs = [self.b(self.ev(x)) for x in e.values]
            return z3.And(*vs) if isinstance(e.op, ast.And) else z3.Or(*vs)
        if isinstance(e, ast.BinOp):
            l, r = self.ev(e.left), self.ev(e.right)
            if isinstance(e.op, ast.Add): return l + r
            if isinstance(e.op, ast.Sub): return l - r
        if isinstance(e, ast.Compare):
            l = self.ev(e.left); out = []
            for op, rr in zip(e.ops, e.comparators):
                r = self.ev(rr)
                if isinstance(op, ast.Eq): out.append(l == r)
                elif isinstance(op, ast.NotEq): out.append(l != r)
                elif isinstance(op, ast.Lt): out.append(l < r)
                elif isinstance(op, ast.In): out.append(z3.Or(*[l == x for x in r]))
                elif isinstance(op, ast.NotIn): out.append(z3.And(*[l != x for x in r]))
                else: raise NotImplementedError(ast.dump(op))
                l = r
            return z3.And(*out) if len(out) > 1 else out[0]
        if isinstance(e, ast.Call):
            if isinstance(e.func, ast.Name) and e.func.id == "len":
                v = self.ev(e.args[0]); return 1 if isinstance(v, int) else v.len
            if isinstance(e.func, ast.Name) and e.func.id == "range":
                return ("range", self.ev(e.args[0]))
        if isinstance(e, ast.Subscript):
            base = self.ev(e.value)
            if isinstance(e.slice, ast.Slice):
                lo = self.ev(e.slice.lower) if e.slice.lower else 0
                hi = self.ev(e.slice.upper) if e.slice.upper else base.len
                return Slice(base, lo, hi)
            return base.at(self.ev(e.slice))
        if isinstance(e, ast.List) and not e.elts: return GList()
        raise NotImplementedError(ast.dump(e))
    def b(self, v):
        if isinstance(v, bool): return z3.BoolVal(v)
        return v
    # --- statements; g = guard under which stmt executes; loop = dict(cont=BoolRef) or None
    def live(self, g, loop):
        g = z3.And(g, z3.Not(self.returned), z3.Not(self.raised))
        if loop is not None: g = z3.And(g, z3.Not(loop["cont"]), z3.Not(loop["brk"]))
        return g
    def assign(self, name, val, g):
        old = self.env.get(name)
        if isinstance(val, (GList, SStr)) or old is None: self.env[name] = val
        else: self.env[name] = ite(g, val, old)
    def block(self, stmts, g, loop):
        for s in stmts: self.stmt(s, g, loop)
    def stmt(self, s, g, loop):
        g = z3.simplify(self.live(g, loop))
        if isinstance(s, ast.Expr):
            if isinstance(s.value, ast.Constant): return  # docstring
            c = s.value
            if isinstance(c, ast.Call) and isinstance(c.func, ast.Attribute) and c.func.attr == "append":
                self.env[c.func.value.id].items.append((g, self.ev(c.args[0]))); return
            raise NotImplementedError(ast.dump(s))
        if isinstance(s, ast.Assign):
            self.assign(s.targets[0].id, self.ev(s.value), g); return
        if isinstance(s, ast.AugAssign):
            cur = self.env[s.target.id]; d = self.ev(s.value)
            self.assign(s.target.id, cur + d if isinstance(s.op, ast.Add) else cur - d, g); return
        if isinstance(s, ast.If):
            c = self.b(self.ev(s.test))
            self.block(s.body, z3.And(g, c), loop); self.block(s.orelse, z3.And(g, z3.Not(c)), loop); return
        if isinstance(s, ast.Continue): loop["cont"] = z3.Or(loop["cont"], g); return
        if isinstance(s, ast.Break): loop["brk"] = z3.Or(loop["brk"], g); return
        if isinstance(s, ast.Return):
            v = self.ev(s.value)
            self.retval = v if self.retval is None or isinstance(v, GList) else ite(g, v, self.retval)
            self.returned = z3.Or(self.returned, g); return
        if isinstance(s, ast.Raise): self.raised = z3.Or(self.raised, g); return
        if isinstance(s, ast.For):
            it = self.ev(s.iter); lp = {"brk": z3.BoolVal(False)}
            for k in range(self.unroll):
                if isinstance(it, SStr): cond = k < it.len; val = it.chars[k] if k < it.N else None
                else: cond = k < it[1]; val = k
                if val is None: break
                lp["cont"] = z3.BoolVal(False)
                gi = z3.And(g, cond, z3.Not(lp["brk"]))
                self.assign(s.target.id, val, gi)
                self.block(s.body, gi, lp)
            return
        if isinstance(s, ast.While):
            lp = {"brk": z3.BoolVal(False)}
            for k in range(self.unroll):
                lp["cont"] = z3.BoolVal(False)
                gi = z3.And(g, self.b(self.ev(s.test)), z3.Not(lp["brk"]))
                self.block(s.body, gi, lp)
            self.unwind_ok.append(z3.Implies(self.live(g, None), z3.Not(self.b(self.ev(s.test)))))
            return
        raise NotImplementedError(ast.dump(s))
