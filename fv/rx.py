"""RX engine: live compiled `re` pattern (sre_parse AST) -> z3 regular expression.

Continuation-passing translation: seq(items, k) = language of `items` followed by k,
which makes `$`, `(?=..)`, `(?!..)` exact wherever they occur outside a repetition.
Alphabet: ASCII 9..126.  Unsupported constructs raise Unsupported (-> inconclusive).
Also a small combinator library to write specification languages.
"""
import re
import re._constants as sc
import re._parser as sp

import z3

LO, HI = 9, 126


class Unsupported(Exception):
    pass


def ch(o):
    return z3.Re(z3.StringVal(chr(o) if isinstance(o, int) else o))


ANYC = z3.Range(chr(LO), chr(HI))
EPS = z3.Re(z3.StringVal(""))
FULL = z3.Star(ANYC)
DIGIT = z3.Range("0", "9")
WORD = z3.Union(z3.Range("a", "z"), z3.Range("A", "Z"), DIGIT, ch("_"))
SPACE = z3.Union(*[ch(x) for x in " \t\n\r\x0b\x0c"])
NL = ch(10)


def neg(r):
    return z3.Intersect(ANYC, z3.Complement(r))


DOT = neg(NL)
NONWORD = neg(WORD)


def _cat(a):
    n = str(a)
    return {
        "CATEGORY_DIGIT": DIGIT,
        "CATEGORY_WORD": WORD,
        "CATEGORY_SPACE": SPACE,
        "CATEGORY_NOT_SPACE": neg(SPACE),
        "CATEGORY_NOT_WORD": NONWORD,
        "CATEGORY_NOT_DIGIT": neg(DIGIT),
    }[n]


def _lit(o, ic):
    if o < LO or o > HI:
        raise Unsupported(f"literal outside alphabet: {o}")
    s = chr(o)
    if ic and s.isalpha():
        return z3.Union(ch(s.lower()), ch(s.upper()))
    return ch(o)


def _cls(arg, ic):
    ng = False
    parts = []
    for o, a in arg:
        on = str(o)
        if on == "NEGATE":
            ng = True
        elif on == "LITERAL":
            parts.append(_lit(a, ic))
        elif on == "RANGE":
            lo, hi = a
            lo2, hi2 = max(lo, LO), min(hi, HI)
            r = z3.Range(chr(lo2), chr(hi2))
            if ic:
                ex = [ch(chr(x).swapcase()) for x in range(lo2, hi2 + 1) if chr(x).isalpha()]
                if ex:
                    r = z3.Union(r, *ex)
            parts.append(r)
        elif on == "CATEGORY":
            parts.append(_cat(a))
        else:
            raise Unsupported(on)
    u = parts[0] if len(parts) == 1 else z3.Union(*parts)
    return neg(u) if ng else u


def _has_special(items):
    for op, arg in items:
        n = str(op)
        if n in ("AT", "ASSERT", "ASSERT_NOT"):
            return True
        if n in ("MAX_REPEAT", "MIN_REPEAT") and _has_special(arg[2]):
            return True
        if n == "SUBPATTERN" and _has_special(arg[3]):
            return True
        if n == "BRANCH" and any(_has_special(a) for a in arg[1]):
            return True
    return False


def _seq(items, ic, k):
    acc = k
    for op, arg in reversed(list(items)):
        acc = _one(op, arg, ic, acc)
    return acc


def _one(op, arg, ic, k):
    n = str(op)
    if n == "LITERAL":
        return z3.Concat(_lit(arg, ic), k)
    if n == "NOT_LITERAL":
        return z3.Concat(neg(_lit(arg, ic)), k)
    if n == "ANY":
        return z3.Concat(DOT, k)
    if n == "IN":
        return z3.Concat(_cls(arg, ic), k)
    if n == "CATEGORY":
        return z3.Concat(_cat(arg), k)
    if n in ("MAX_REPEAT", "MIN_REPEAT"):
        lo, hi, sub = arg
        if (lo, hi) == (0, 1) and _REQUIRED and _contains_required(sub):
            return _seq(sub, ic, k)  # caller demands that this optional group participates
        if _has_special(sub):
            if (lo, hi) == (0, 1):
                return z3.Union(_seq(sub, ic, k), k)
            raise Unsupported("anchor/look-around inside repeat")
        r = _seq(sub, ic, EPS)
        if hi == sc.MAXREPEAT:
            rr = z3.Star(r) if lo == 0 else (z3.Plus(r) if lo == 1 else z3.Concat(*([r] * lo), z3.Star(r)))
        else:
            rr = z3.Loop(r, lo, hi)
        return z3.Concat(rr, k)
    if n == "SUBPATTERN":
        g, add, dele, sub = arg
        ic2 = (ic or bool(add & re.I)) and not bool(dele & re.I)
        return _seq(sub, ic2, k)
    if n == "BRANCH":
        return z3.Union(*[_seq(a, ic, k) for a in arg[1]])
    if n == "AT":
        an = str(arg)
        if an in ("AT_BEGINNING", "AT_BEGINNING_STRING"):
            # only valid at the start of the pattern; lang() checks position
            return k
        if an == "AT_END":
            return z3.Intersect(k, z3.Union(EPS, NL))
        if an == "AT_END_STRING":
            return z3.Intersect(k, EPS)
        raise Unsupported(an)
    if n in ("ASSERT", "ASSERT_NOT"):
        d, sub = arg
        if d != 1:
            raise Unsupported("look-behind")
        la = _seq(sub, ic, FULL)
        return z3.Intersect(k, la if n == "ASSERT" else z3.Complement(la))
    raise Unsupported(n)


_REQUIRED = set()


def _contains_required(items):
    for op, arg in items:
        n = str(op)
        if n == "SUBPATTERN" and (arg[0] in _REQUIRED or _contains_required(arg[3])):
            return True
        if n in ("MAX_REPEAT", "MIN_REPEAT") and _contains_required(arg[2]):
            return True
        if n == "BRANCH" and any(_contains_required(a) for a in arg[1]):
            return True
    return False


def _begins_anchored(items):
    items = list(items)
    if not items:
        return False
    op, arg = items[0]
    n = str(op)
    if n == "AT" and str(arg) in ("AT_BEGINNING", "AT_BEGINNING_STRING"):
        return True
    return False


def _check_begin_only_first(items, first=True):
    """AT_BEGINNING anywhere but the very first item is unsupported."""
    for i, (op, arg) in enumerate(items):
        n = str(op)
        if n == "AT" and str(arg) in ("AT_BEGINNING", "AT_BEGINNING_STRING"):
            if not (first and i == 0):
                raise Unsupported("^ not at pattern start")
        elif n in ("MAX_REPEAT", "MIN_REPEAT"):
            _check_begin_only_first(arg[2], False)
        elif n == "SUBPATTERN":
            _check_begin_only_first(arg[3], first and i == 0)
        elif n == "BRANCH":
            for a in arg[1]:
                _check_begin_only_first(a, first and i == 0)
        elif n in ("ASSERT", "ASSERT_NOT"):
            _check_begin_only_first(arg[1], False)


def lang(pat, mode="match", require=()):
    """Language of strings s such that pat.<mode>(s) succeeds.
    mode: match | search | fullmatch.  require: names/ids of optional groups `(...)?`
    that must take part in the match (language of matches where the group is set;
    exact when the group sits directly under a `?`)."""
    if pat.flags & re.MULTILINE or pat.flags & re.DOTALL:
        raise Unsupported("MULTILINE/DOTALL")
    p = sp.parse(pat.pattern, pat.flags)
    ic = bool(pat.flags & re.I)
    _check_begin_only_first(list(p))
    end = FULL if mode != "fullmatch" else EPS
    global _REQUIRED
    gd = dict(p.state.groupdict)
    _REQUIRED = {gd.get(g, g) for g in require}
    try:
        body = _seq(p, ic, end)
    finally:
        _REQUIRED = set()
    if mode == "search" and not _begins_anchored(p):
        return z3.Concat(FULL, body)
    return body


def lang_str(pattern, flags=0, mode="fullmatch"):
    return lang(re.compile(pattern, flags), mode)


# ---------------------------------------------------------------------------
# combinators for specifications
# ---------------------------------------------------------------------------
def lit(s):
    """exact text"""
    return z3.Re(z3.StringVal(s)) if s else EPS


def kw(s):
    """keyword, any letter case"""
    parts = []
    for c in s:
        if c.isalpha():
            parts.append(z3.Union(ch(c.lower()), ch(c.upper())))
        else:
            parts.append(ch(c))
    return parts[0] if len(parts) == 1 else z3.Concat(*parts)


def seq(*rs):
    rs = [lit(r) if isinstance(r, str) else r for r in rs]
    return rs[0] if len(rs) == 1 else z3.Concat(*rs)


def alt(*rs):
    rs = [lit(r) if isinstance(r, str) else r for r in rs]
    return rs[0] if len(rs) == 1 else z3.Union(*rs)


def opt(*rs):
    return z3.Option(seq(*rs))


def star(*rs):
    return z3.Star(seq(*rs))


def plus(*rs):
    return z3.Plus(seq(*rs))


def inter(*rs):
    return rs[0] if len(rs) == 1 else z3.Intersect(*rs)


def minus(a, b):
    return z3.Intersect(a, z3.Complement(b))


def chars(s):
    return z3.Union(*[ch(c) for c in s]) if len(s) > 1 else ch(s)


def anyof_kw(*words):
    return alt(*[kw(w) for w in words])


BL = chars(" \t")  # a blank
WS = z3.Star(BL)  # optional blanks
WS1 = z3.Plus(BL)  # required blanks
LETTER = z3.Union(z3.Range("a", "z"), z3.Range("A", "Z"))
IDENT_RAW = z3.Concat(LETTER, z3.Star(WORD))


def ident_excluding(*words):
    """identifier that is not (case-insensitively) one of `words`"""
    if not words:
        return IDENT_RAW
    return minus(IDENT_RAW, anyof_kw(*words))


def comma_list(item, sep=","):
    """item (WS sep WS item)*"""
    return seq(item, star(WS, lit(sep), WS, item))


# ---------------------------------------------------------------------------
# queries
# ---------------------------------------------------------------------------
def nonempty(ctx, label, r, timeout_s=60):
    """Is language r non-empty?  returns (result, witness-string|None)"""
    s = z3.String("s")
    res, m = ctx.solve(label, [z3.InRe(s, r)], timeout_s)
    if res == "sat":
        return res, m.eval(s, model_completion=True).as_string()
    return res, None


def z3str_to_py(x):
    """z3 string literal (with \\u{..} escapes) -> python str"""
    return re.sub(r"\\u\{([0-9a-fA-F]+)\}", lambda m: chr(int(m.group(1), 16)), x)
