"""C14 — fixed-form sources document the same as their free-form equivalent (kernel: conversion + reader)."""
import z3

from fv import sym, choice, patch, parserh, oracles as O
from fv.choice import CV
from fv.core import obligation
from fv.props import META

META["C14"] = {
    "explanation": "Kernel of C14: the real FortranLine / convertToFree feed the real free-form FortranReader.__next__ on symbolic fixed-form "
    "fragments: a statement line (with or without label, short or padded to column 72 with sequence-field text behind it), "
    "an optional comment/blank line of every style (C, c, *, !, blank) and a line that is a continuation (any non-blank, "
    "non-zero character in column 6) or a new statement (blank or 0 in column 6), with the length limit on and off, are "
    "finite-choice symbolic values.  The logical statements delivered must equal the column rules of the standard "
    "(F2008 3.3.3): columns 7-72 of continuation lines appended, comment lines transparent, text beyond column 72 ignored "
    "iff the limit is on.",
    "outside": ["composition with the parser (entity tree equality)", "tabs in fixed form", "OpenMP sentinels", "doc comments in fixed form"],
    "assumptions": ["continuation breaks stand between tokens (free-form token separation after conversion)"],
}


def _pad(code, seq):
    """statement text in columns 7.., padded to column 72 followed by sequence-field text"""
    return (code.ljust(72) + seq) if seq else code


_WIDE = "call foo(" + " " * (66 - len("call foo(") - 2) + "a,"   # exactly columns 7..72

# (line text, label, code)  — first statement line of a continued statement
FIRST = [
    ("      x = 1 +", "", "x = 1 +"),
    ("  100 x = 1 +", "100", "x = 1 +"),
    ("100   x = 1 +", "100", "x = 1 +"),
    ("      call foo(a,", "", "call foo(a,"),
    (_pad("      x = 1 +", "SEQ00010"), "", "x = 1 +"),
    (_pad("      call foo(a,", "SLV00010"), "", "call foo(a,"),
    (_pad("   20 call foo(a,", "12345678"), "20", "call foo(a,"),
    ("      s = 'a ! b' //", "", "s = 'a ! b' //"),
    ("      x = 1 + ! trailing comment", "", "x = 1 +"),
    # a backslash is an ordinary character of a Fortran literal: the literal ends at the quote that follows it
    ("      s = 'C:\\' //", "", "s = 'C:\\' //"),
    (_pad("      s = 'a\\' //", "SEQ00030"), "", "s = 'a\\' //"),
    # labelled statement whose text runs up to column 72, followed by sequence-field text
    (_pad("   20 " + _WIDE, "SEQ00040"), "20", _WIDE),
    (_pad("      " + _WIDE, "SEQ00050"), "", _WIDE),
]
BETWEEN = [None, "C a comment", "c another", "* starred", "! banged", "", "      ", "C", "*     x = 9", "!     &  77"]
# (line text, is_continuation, code)
SECOND = [
    ("     &  2", True, "2"), ("     1  2", True, "2"), ("     !  2", True, "2"), ("     *  2", True, "2"), ("     C  2", True, "2"), ("     $  2", True, "2"), ("     +  2", True, "2"), ("     x  2", True, "2"),
    ("     &b)", True, "b)"), (_pad("     &  2", "SEQ00020"), True, "2"), (_pad("     &  b)", "SLV00020"), True, "b)"),
    ("     &'c'", True, "'c'"),
    ("      y = 3", False, "y = 3"), ("     0y = 3", False, "y = 3"), ("   30 y = 3", False, "30 y = 3"),
]


def fixed_rule(first, between, second, limit):
    """statements (canonical: blanks outside literals collapsed) by the column rules"""
    ftext, label, fcode = first
    stext, iscont, scode = second
    def code_of(text, fallback):
        if limit or len(text) <= 72:
            return fallback
        # limit off: everything after column 6 is code, including the former sequence field
        return text[6:].strip()
    a = code_of(ftext, fcode)
    b = code_of(stext, scode if iscont or not stext[:5].strip() else stext[:5].strip() + " " + stext[6:].strip())
    if not limit and len(stext) > 72 and not iscont:
        b = (stext[:5].strip() + " " if stext[:5].strip() else "") + stext[6:].strip()
    a = (label + " " if label else "") + a
    fb = O.py_first_unquoted(a, "!")
    if fb >= 0:
        a = a[:fb].rstrip()
    if iscont:
        return [O.py_canon(a + " " + b), "z = 0"]
    return [O.py_canon(a), O.py_canon(b), "z = 0"]


def _run_fixed(lines, limit):
    """the real reader on a fixed-form fragment (file I/O stubbed): list of logical statements"""
    import ford.reader as rd
    from ford.fixed2free2 import convertToFree
    from fv import readerh

    r = readerh.mk_reader([], docmark="")
    r.fixed = True
    r.reader = convertToFree(iter(lines), limit)
    out = []
    for _ in range(8):
        try:
            out.append(next(r))
        except StopIteration:
            break
    return out


def replay_fixed(w):
    import ford.reader as rd
    try:
        got = [O.py_canon(x) for x in _run_fixed([l + "\n" for l in w["lines"]], w["limit"]) if x != ""]
    except Exception as e:  # noqa
        got = ["EXC " + repr(e)]
    return got != w["expected"], {"lines": w["lines"], "length_limit": w["limit"], "ford": got, "column_rules": w["expected"]}


def _fixed_ob(limit):
    @obligation("C14", f"O2.convert-and-read.limit-{'on' if limit else 'off'}", engine="SX(CV)", timeout=1800)
    def ob(ctx):
        import ford.reader as rd
        import ford.fixed2free2 as ff
        import ford.utils as fu

        ctx.encode_fn(ff.convertToFree)
        ctx.encode_fn(ff.FortranLine.continueLine)
        ctx.encode_text("FortranLine.__analyse/__convert", __import__("inspect").getsource(ff.FortranLine), "python-source")
        ctx.encode_fn(rd.FortranReader.__next__)
        ctx.bounds.update({"first_line_forms": len(FIRST), "between_forms": len(BETWEEN), "second_line_forms": len(SECOND), "length_limit": limit})
        ctx.stubs.append("file I/O stubbed: the reader's stream is convertToFree(iter(symbolic lines))")

        kf = ctx.known("C14-inline-comment-before-continuation", replay_fixed)

        def h(E):
            f = CV.choice(E, "first", FIRST)
            b = CV.choice(E, "between", BETWEEN)
            s2 = CV.choice(E, "second", SECOND)
            h.state = (f, b, s2)
            if kf:
                # known finding: inline comment on the line that is continued
                E.assume(choice.apply(lambda t, c: not (" ! " in t and c), f[0], s2[1]))
            # the between line may be absent: decided here (the number of physical lines must be concrete)
            present = choice.apply(lambda x: x is not None, b)
            lines = [f[0] + "\n"]
            if present if isinstance(present, bool) else bool(present):
                lines.append(b + "\n")
            lines += [s2[0] + "\n", "      z = 0\n"]
            try:
                got = _run_fixed(lines, limit)
            except ValueError as e:
                E.reachable("error")
                E.require(False, "reader rejects a valid fixed-form fragment: " + str(e)[:60])
                return
            E.reachable("read")
            got = [g for g in got if not (g == "")]
            want = choice.apply(lambda a, c: fixed_rule(a, None, c, limit), f, s2)
            h.want = want
            canon = [choice.apply(O.py_canon, g) for g in got]
            gl = choice.apply(lambda *x: list(x), *canon) if canon else []
            E.require(choice.apply(lambda g, w_: list(g) == list(w_), gl, want), "logical statements differ from the fixed-form column rules")

        extra = parserh.helper_patches()
        extra[(rd, "_contains_unterminated_string")] = parserh.pointwise(rd._contains_unterminated_string)
        with patch.patched(rd, ff, fu, extra=extra):
            E = sym.Engine(ctx, max_paths=100000, incremental=True)
            found = E.explore(h)
            seen = set()
            for label, m, pc in found:
                if label in seen:
                    continue
                seen.add(label)
                f, b, s2 = (choice.value_in_model(m, x) for x in h.state)
                lines = [f[0]] + ([b] if b is not None else []) + [s2[0], "      z = 0"]
                ctx.report(label, {"lines": lines, "limit": limit, "expected": fixed_rule(f, b, s2, limit)}, replay_fixed)
            if E.reached.get("read"):
                ctx.twins += 1
            else:
                ctx.inconclusive.append("vacuity: no fragment was read")
        ctx.sample({"first": FIRST[4][0], "second": SECOND[6][0], "paths": E.paths})

    ob.__doc__ = f"fixed-form fragment (statement, optional comment line, continuation-or-new line), length limit {'on' if limit else 'off'}: statements = column rules"


_fixed_ob(True)
_fixed_ob(False)


# ---------------------------------------------------------------------------------------
# O3: which files are read as fixed form at all: the extension decides (default fixed_extensions f, for, F, FOR)
# ---------------------------------------------------------------------------------------
EXTS = [("f", True), ("F", True), ("for", True), ("FOR", True), ("f90", False), ("F90", False), ("f95", False), ("F95", False), ("f03", False),
        ("F03", False), ("f08", False), ("F08", False)]


def replay_dispatch(w):
    from fv import parserh as _ph
    import ford.sourceform as sf
    log = []
    orig = sf.FortranReader

    import inspect
    sig = inspect.signature(orig.__init__)

    class Spy:
        def __init__(self, *a, **k):
            b = sig.bind(None, *a, **k)
            b.apply_defaults()
            log.append(dict(b.arguments))
            self._r = iter(())

        def __iter__(self):
            return self

        def __next__(self):
            raise StopIteration
    import os, tempfile, shutil, io, contextlib
    import ford.fortran_project as fp
    from ford.settings import ProjectSettings
    d = tempfile.mkdtemp(prefix="fvc14-")
    with open(os.path.join(d, "unit." + w["ext"]), "w") as f:
        f.write("      subroutine s()\n      end subroutine s\n")
    marks = w.get("marks") or ["!", ">", "*", "|"]
    sf.FortranReader = Spy
    try:
        with contextlib.redirect_stdout(io.StringIO()), contextlib.redirect_stderr(io.StringIO()):
            fp.Project(ProjectSettings(src_dir=[__import__("pathlib").Path(d)], preprocess=False, quiet=True, parallel=0, dbg=True,
                                       fixed_length_limit=w.get("fixed_length_limit", True), docmark=marks[0], predocmark=marks[1],
                                       docmark_alt=marks[2], predocmark_alt=marks[3]))
    except Exception:  # noqa
        pass
    finally:
        sf.FortranReader = orig
        shutil.rmtree(d, ignore_errors=True)
    got = [(bool(a_.get("fixed")), a_.get("length_limit"), [a_.get("docmark"), a_.get("predocmark"), a_.get("docmark_alt"), a_.get("predocmark_alt")]) for a_ in log]
    want = [(w["fixed"], w.get("fixed_length_limit", True), list(marks))]
    return got != want, {"file": "unit." + w["ext"], "reader created with (fixed, length_limit, marks)": got, "settings say": want}


@obligation("C14", "O3.extension-decides-the-form", engine="SX(CV)", timeout=600)
def dispatch(ctx):
    """a project with one source file whose extension is symbolic (f, F, for, FOR, f90, F90, ...): the file is handed to the reader as fixed
    form exactly when its extension is one of the (default) fixed_extensions, upper-case extensions included"""
    import ford.fortran_project as fp
    import ford.settings as st
    from fv import parserh as _ph

    ctx.encode_fn(fp.Project.__init__)
    ctx.encode_fn(fp.Project._fortran_file)
    ctx.encode_fn(st.ProjectSettings.__post_init__)
    ctx.bounds.update({"extensions": [e for e, _ in EXTS], "settings": "defaults (fpp_extensions include F, FOR, F90, ...), preprocess off"})

    def h(E):
        e = CV.choice(E, "ext", EXTS).concretize()   # a file name: one path per extension
        limit = CV.choice(E, "fixed_length_limit", [True, False]).concretize()
        marks = CV.choice(E, "marks", [("!", ">", "*", "|"), ("^", "<", "~", "#")]).concretize()
        E.e.snapshot = lambda m: {"ext": e[0], "fixed": e[1], "fixed_length_limit": limit, "marks": list(marks)}
        log = []
        _ph.project({"unit." + e[0]: ["subroutine s()", "end subroutine s"]}, reader_log=log, fixed_length_limit=limit,
                    docmark=marks[0], predocmark=marks[1], docmark_alt=marks[2], predocmark_alt=marks[3])
        E.reachable("read")
        E.require(len(log) == 1, "the source file is not read exactly once")
        if log:
            args = log[0][3]
            E.require(bool(log[0][1]) == e[1], "the file is read in the wrong source form")
            E.require(args.get("length_limit") == limit, "the fixed_length_limit setting does not reach the reader")
            E.require((args.get("docmark"), args.get("predocmark"), args.get("docmark_alt"), args.get("predocmark_alt")) == tuple(marks),
                      "the documentation marks of the settings do not reach the reader")

    E = sym.Engine(ctx, max_paths=200, incremental=True)
    found = E.explore(h)
    seen = set()
    for (label, m, pc), snap in zip(found, E.snapshots):
        if label in seen or not snap:
            continue
        seen.add(label)
        ctx.report(label, snap, replay_dispatch)
    if E.reached.get("read"):
        ctx.twins += 1
    else:
        ctx.inconclusive.append("vacuity: no file read")
    ctx.sample({"paths": E.paths})


# ---------------------------------------------------------------------------------------
# O4: an INCLUDEd file is read with the settings of the including file (source form, length limit, documentation marks)
# ---------------------------------------------------------------------------------------
def _run_include(fixed, limit, marks, encoding):
    import inspect
    import ford.reader as rd
    from fv import standins as S

    real = rd.FortranReader
    sig = inspect.signature(real.__init__)
    made = []

    class Recorder:
        def __init__(self, *a, **k):
            b = sig.bind(None, *a, **k)
            b.apply_defaults()
            made.append(dict(b.arguments))

        def __iter__(self):
            return iter(["integer :: from_include"])

    me = object.__new__(real)
    me.name = "/proj/src/main.f"
    me.pending = ["include 'decls.inc'", "x = 1"]
    me.inc_dirs = ["/proj/inc"]
    me.docmark, me.predocmark, me.docmark_alt, me.predocmark_alt = marks
    me.fixed, me.length_limit, me.encoding = fixed, limit, encoding
    old, oldisfile = rd.FortranReader, rd.os.path.isfile
    rd.FortranReader = Recorder
    rd.os.path.isfile = lambda p: True
    try:
        real.include(me)
    finally:
        rd.FortranReader, rd.os.path.isfile = old, oldisfile
    return made, list(me.pending)


def replay_include(w):
    made, pending = _run_include(w["fixed"], w["length_limit"], tuple(w["marks"]), w["encoding"])
    a = made[0] if made else {}
    got = {"fixed": a.get("fixed"), "length_limit": a.get("length_limit"), "marks": [a.get("docmark"), a.get("predocmark"), a.get("docmark_alt"), a.get("predocmark_alt")],
           "encoding": a.get("encoding"), "inc_dirs": a.get("inc_dirs")}
    want = {"fixed": w["fixed"], "length_limit": w["length_limit"], "marks": list(w["marks"]), "encoding": w["encoding"], "inc_dirs": ["/proj/inc"]}
    return got != want or pending[:1] != ["integer :: from_include"], {"reader of the included file created with": got, "settings of the including file": want,
                                                                        "pending statements": pending}


@obligation("C14", "O4.included-file-settings", engine="SX(CV)", timeout=300)
def include_settings(ctx):
    """FortranReader.include with symbolic settings of the including file (fixed form or not, length limit on/off, documentation marks,
    encoding): the reader of the included file gets the same ones, and its statements come before the rest of the including file"""
    import ford.reader as rd

    ctx.encode_fn(rd.FortranReader.include)
    ctx.stubs.append("the nested FortranReader is a recorder bound with the real constructor's signature; os.path.isfile answers True")
    ctx.bounds.update({"fixed": [True, False], "length_limit": [True, False], "mark sets": 2, "encodings": 2})

    def h(E):
        fixed = CV.choice(E, "fixed", [True, False])
        limit = CV.choice(E, "limit", [True, False])
        marks = CV.choice(E, "marks", [("!", ">", "*", "|"), ("^", "<", "~", "#")])
        enc = CV.choice(E, "enc", ["utf-8", "latin-1"])
        E.e.snapshot = lambda m: {"fixed": choice.value_in_model(m, fixed), "length_limit": choice.value_in_model(m, limit),
                                  "marks": list(choice.value_in_model(m, marks)), "encoding": choice.value_in_model(m, enc)}
        made, pending = _run_include(fixed, limit, marks, enc)
        E.reachable("included")
        E.require(len(made) == 1, "the included file is not read exactly once")
        a = made[0]
        E.require(choice.apply(lambda x, y: x == y, a.get("fixed"), fixed), "source form of the included file differs from the including file's")
        E.require(choice.apply(lambda x, y: x == y, a.get("length_limit"), limit), "fixed_length_limit is not passed on to the included file")
        E.require(choice.apply(lambda d, p_, da, pa, mk: (d, p_, da, pa) == tuple(mk), a.get("docmark"), a.get("predocmark"), a.get("docmark_alt"),
                               a.get("predocmark_alt"), marks), "documentation marks are not passed on to the included file")
        E.require(choice.apply(lambda x, y: x == y, a.get("encoding"), enc), "encoding is not passed on to the included file")
        E.require(a.get("inc_dirs") == ["/proj/inc"], "include directories are not passed on")
        E.require(pending[:1] == ["integer :: from_include"], "statements of the included file do not come first")

    E = sym.Engine(ctx, max_paths=500, incremental=True)
    found = E.explore(h)
    seen = set()
    for (label, m, pc), snap in zip(found, E.snapshots):
        if label in seen or not snap:
            continue
        seen.add(label)
        ctx.report(label, snap, replay_include)
    if E.reached.get("included"):
        ctx.twins += 1
    else:
        ctx.inconclusive.append("vacuity: include never executed")
    ctx.sample({"paths": E.paths})


# ---------------------------------------------------------------------------------------
# O5: composition with the parser: a fixed-form procedure and its free-form transcription are documented alike (entities, calls)
# ---------------------------------------------------------------------------------------
# (fixed-form lines, free-form lines) of one executable fragment each
FF_PAIRS = [
    (["  100    format (1x, i5, 3(f8.3, 1x))"], ["100 format (1x, i5, 3(f8.3, 1x))"]),
    (["  110 format(2(a, i3))"], ["110 format(2(a, i3))"]),
    (["      do 20 i = 1, 3", "         x = bar(y)", "   20 continue"], ["do 20 i = 1, 3", "x = bar(y)", "20 continue"]),
    (["      if (x .gt. 0) then", "  120    format (2(i3))", "      endif"], ["if (x .gt. 0) then", "120 format (2(i3))", "endif"]),
    (["      write (*, 130) x", "  130 format (3(i5))", "      call foo(x)"], ["write (*, 130) x", "130 format (3(i5))", "call foo(x)"]),
    (["      goto (10, 20) i", "   10 x = 1", "   20 call noargs"], ["goto (10, 20) i", "10 x = 1", "20 call noargs"]),
]


def _ff_observe(p):
    from fv.props import c08
    c = [x for x in p.procedures if str(x.name).lower() == "caller"][0]
    return sorted(c08._callnames(p)), sorted(str(v.name).lower() for v in c.variables)


def replay_fixed_free(w):
    import ford.sourceform as sf
    from fv.props import c08
    res = []
    for name, body in (("b.f", w["fixed"]), ("b.f90", w["free"])):
        head = ["      subroutine caller(obj, buf)", "      use procs", "      integer x, y, i"] if name == "b.f" else ["subroutine caller(obj, buf)", "use procs", "integer x, y, i"]
        tail = ["      end subroutine caller"] if name == "b.f" else ["end subroutine caller"]
        old = sf.namelist
        sf.namelist = sf.NameSelector()
        try:
            p = parserh.project_concrete({"a.f90": list(c08.MODULE), name: head + list(body) + tail}, physical=(name,), **c08.PSET)
            res.append(_ff_observe(p))
        except Exception as e:  # noqa
            res.append("raised " + repr(e)[:160])
        finally:
            sf.namelist = old
    return res[0] != res[1], {"fixed-form lines": w["fixed"], "free-form lines": w["free"], "documented from the fixed form (calls, variables)": res[0],
                              "documented from the free form": res[1]}


@obligation("C14", "O5.fixed-and-free-form-documented-alike", engine="SX(CV)", timeout=600)
def fixed_free_alike(ctx):
    """a procedure body fragment (labelled FORMAT statements at several indentations, DO/IF constructs, computed GOTO) written in fixed
    form and in free form, both read by the real converter / reader / parser: the same calls and variables are recorded"""
    import ford.sourceform as sf
    import ford.fixed2free2 as ff

    ctx.encode_fn(ff.convertToFree)
    ctx.encode_re("FORMAT_RE", sf.FortranContainer.FORMAT_RE)
    ctx.bounds.update({"fragments": len(FF_PAIRS)})
    ctx.stubs.append("one native run per fragment (the reader works on concrete text)")

    def h(E):
        i = CV.choice(E, "fragment", list(range(len(FF_PAIRS)))).concretize()
        snap = {"fixed": FF_PAIRS[i][0], "free": FF_PAIRS[i][1]}
        E.e.snapshot = lambda m: dict(snap)
        with patch.suspended():
            bad, detail = replay_fixed_free(snap)
        E.reachable("documented")
        E.require(not bad, "the fixed-form source is documented differently from its free-form transcription")

    E = sym.Engine(ctx, max_paths=100, incremental=True)
    found = E.explore(h)
    seen = set()
    for (label, m, pc), snap in zip(found, E.snapshots):
        if not snap or str(snap["fixed"]) in seen:
            continue
        seen.add(str(snap["fixed"]))
        ctx.report(label, snap, replay_fixed_free)
    if E.reached.get("documented"):
        ctx.twins += 1
    else:
        ctx.inconclusive.append("vacuity: nothing documented")
    ctx.sample({"paths": E.paths})
