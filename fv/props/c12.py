"""C12 — output is a deterministic function of the inputs (the part that is a function of symbolic data: the order in
which unordered collections are enumerated)."""
import hashlib
import os
import shutil
import subprocess
import sys

import z3

from fv import sym, choice, parserh, permset, fordrun
from fv.choice import CV
from fv.core import obligation
from fv.props import META

META["C12"] = {
    "explanation": "C12 restricted to its data-dependent half.  The sources of run-to-run variation that live inside FORD's own "
    "functions are the iteration orders of unordered collections: the `set` of source paths returned by find_all_files (hash "
    "order of Path objects: changes with PYTHONHASHSEED and with the order the file system lists directories) and the `set`s "
    "built in correlate().  The environment is stubbed as the adversary: the name `set` of ford.fortran_project / "
    "ford.sourceform is rebound to a set whose iteration order is an arbitrary permutation chosen by the solver, the REAL "
    "Project.__init__ and Project.correlate run on small symbolic multi-file projects (per file the program unit is a symbolic "
    "choice, so equally named entities in several files arise), and the ordered entity lists, the de-duplication numbering "
    "(NameSelector) and the iteration order every later consumer sees must equal those of a reference run.  A solver "
    "witness (project + permutation) is replayed with the real `python -m ford` under different PYTHONHASHSEED values; only "
    "byte-different output trees count as a violation.",
    "outside": ["number of worker processes (parallel>0): scheduling is not a function of symbolic data",
                "sets created by comprehensions / operators and sets inside third-party code (toposort, graphviz, jinja2)",
                "graph generation (ford/graphs.py) and the search index",
                f"more than {permset.MAX_ELEMS} elements per set, more than 3 files"],
    "assumptions": ["identical ordered project lists + identical identifiers after correlate() imply identical rendering (rendering "
                    "reads only that state); list-order differences that do not reach the output are filtered by the replay"],
}

PAD = "implicit none"
UNITS = [
    ("sub foo", ["subroutine foo()", PAD, PAD, PAD, "end subroutine foo"]),
    ("sub FOO", ["subroutine FOO()", PAD, PAD, PAD, "end subroutine FOO"]),
    ("fun foo", ["function foo()", PAD, PAD, PAD, "end function foo"]),
    ("sub bar", ["subroutine bar()", PAD, PAD, PAD, "end subroutine bar"]),
    ("mod foo", ["module foo", PAD, PAD, PAD, "end module foo"]),
    ("mod bar+foo", ["module bar", "contains", "subroutine foo()", "end subroutine foo", "end module bar"]),
    ("mod foo+type", ["module foo", "type foo", "integer :: c", "end type foo", "end module foo"]),
    ("prog foo", ["program foo", PAD, PAD, PAD, "end program foo"]),
]
NLINES = 5
LISTS = ("files", "modules", "submodules", "procedures", "programs", "types", "absinterfaces", "blockdata", "submodprocedures", "namelists")
SETTINGS = dict(display=["public", "private", "protected"])


NAMES = ["a.f90", "b.f90", "c.f90"]


def _files(E, n, names=None):
    names = names or NAMES
    us = [CV.choice(E, f"unit{i}", list(range(len(UNITS)))) for i in range(n)]
    files = {}
    for i, u in enumerate(us):
        files[names[i]] = [choice.apply(lambda k, j=j: UNITS[k][1][j], u) for j in range(NLINES)]
    return us, files


def _observe(p):
    """ordered project lists as (file, class, name) and the identifiers handed out so far / next, in list order"""
    flat = []
    shape = []
    for attr in LISTS:
        for e in getattr(p, attr):
            fn = getattr(e, "filename", None) or getattr(e, "path", "")
            shape.append((attr, os.path.basename(str(fn)), type(e).__name__))
            flat.append(e.name)
    for attr in LISTS:
        for e in getattr(p, attr):
            try:
                flat.append(e.ident)
            except Exception as ex:  # noqa
                flat.append("!" + type(ex).__name__)
    return (tuple(shape), choice.apply(lambda *xs: tuple(xs), *flat) if flat else ())


def _tree_digest(root):
    h = hashlib.sha256()
    n = 0
    for d, ds, fs in sorted(os.walk(root)):
        ds.sort()
        for f in sorted(fs):
            if not f.endswith((".html", ".json", ".js")) or os.sep + "js" in d or os.sep + "css" in d:
                continue
            rel = os.path.relpath(os.path.join(d, f), root)
            h.update(rel.encode() + b"\0")
            with open(os.path.join(d, f), "rb") as fh:
                h.update(fh.read())
            n += 1
    return h.hexdigest()[:16], n


def real_runs_differ(files, seeds=range(12), options=None, only=None):
    """the real `python -m ford` on the same project under several PYTHONHASHSEEDs: {digest: [seeds]}"""
    import tempfile
    d = tempfile.mkdtemp(prefix="fvc12-")
    try:
        os.makedirs(os.path.join(d, "src"))
        for rel, text in files.items():
            with open(os.path.join(d, "src", rel), "w") as f:
                f.write(text)
        opts = {"project": "replay", "src_dir": "./src", "output_dir": "./doc", "graph": "false", "parallel": "0",
                "quiet": "true", "preprocess": "false", "search": "false"}
        opts.update(options or {})
        with open(os.path.join(d, "proj.md"), "w") as f:
            f.write("---\n" + "".join(f"{k}: {v}\n" for k, v in opts.items()) + "---\n\nReplay project.\n")
        seen = {}
        for s in seeds:
            env = dict(os.environ)
            env["PYTHONPATH"] = os.environ.get("FORD_REPO", "/repo") + os.pathsep + env.get("PYTHONPATH", "")
            env["PYTHONHASHSEED"] = str(s)
            shutil.rmtree(os.path.join(d, "doc"), ignore_errors=True)
            r = subprocess.run([sys.executable, "-m", "ford", "proj.md"], cwd=d, env=env, capture_output=True, text=True, timeout=180)
            if r.returncode != 0:
                seen.setdefault("exit%d" % r.returncode, []).append(s)
                continue
            if only:   # digest of one output file
                with open(os.path.join(d, "doc", only), "rb") as fh:
                    dg = hashlib.sha256(fh.read()).hexdigest()[:16]
            else:
                dg, n = _tree_digest(os.path.join(d, "doc"))
            seen.setdefault(dg, []).append(s)
            if len(seen) > 1:
                break
        return seen
    finally:
        shutil.rmtree(d, ignore_errors=True)


def replay_file_order(w):
    files = {name: "\n".join(UNITS[k][1]) + "\n" for name, k in w["units"].items()}
    seen = real_runs_differ(files)
    return len(seen) > 1, {"project": {n: UNITS[k][0] for n, k in w["units"].items()}, "order": w.get("order"),
                           "output digests by PYTHONHASHSEED": seen}


def _run_file_order(ctx, nfiles, names=None):
    names = names or NAMES
    import ford.fortran_project as fp
    import ford.sourceform as sf

    ctx.encode_fn(fp.find_all_files)
    ctx.encode_fn(fp.Project.__init__)
    ctx.encode_fn(fp.Project._fortran_file)
    ctx.encode_fn(fp.Project.correlate)
    ctx.encode_fn(sf.NameSelector.get_name)
    ctx.encode_fn(sf.FortranBase.__lt__)
    ctx.stubs.append("`set` in ford.fortran_project: iteration order is an arbitrary permutation chosen by the solver (fv/permset.py)")
    ctx.stubs.append("FortranReader replaced by the symbolic statement lists of the files")
    ctx.bounds.update({"files": nfiles, "program_units_per_file": len(UNITS), "set_elements": permset.MAX_ELEMS})

    def h(E):
        permset.reset()
        us, files = _files(E, nfiles, names)
        ref = parserh.project(files, post=_observe, **SETTINGS)
        permset.reset()
        got = parserh.project(files, post=_observe, file_order="environment", sym_sets=(fp,), **SETTINGS)
        order = list(permset.LOG)
        E.reachable("both runs")
        if order and order[0][1] != tuple(sorted(order[0][1])):
            E.reachable("non-identity order")
        E.e.snapshot = lambda m: {"units": {names[i]: choice.value_in_model(m, u) for i, u in enumerate(us)},
                                  "order": [list(o[1]) for o in order]}
        if ref[0] != got[0]:
            E.require(False, "the order in which source files are enumerated changes the order of the project's entity lists")
            return
        E.require(choice.apply(lambda a, b: a == b, ref[1], got[1]),
                  "the order in which source files are enumerated changes names / identifiers")

    E = sym.Engine(ctx, max_paths=60000, incremental=True)
    found = E.explore(h, on_violation=lambda f: True)  # the first differing order suffices
    # candidates: prefer projects with equally named entities (they change URLs); every candidate is decided by the real runs
    cands = []
    for (label, m, pc), snap in zip(found, E.snapshots):
        if not snap or "units" not in snap:
            continue
        names = [UNITS[k][0].split()[-1].lower().split("+")[0] for k in snap["units"].values()]
        cands.append((0 if len(set(names)) < len(names) else 1, sorted(snap["units"].items()), label, snap))
    cands.sort(key=lambda c: (c[0], c[1]))
    tried = set()
    benign = 0
    for pri, key, label, snap in cands:
        k = tuple(sorted(v for _, v in key))
        if k in tried:
            continue
        tried.add(k)
        if len(tried) > 6:
            break
        ok = ctx.report(label, snap, replay_file_order)
        if ok:
            break
        # the list order differs but the rendered output does not: not a violation of C12, and not an encoding error either
        ctx.mismatches.pop()
        benign += 1
    if cands and not ctx.violations:
        ctx.inconclusive.append(f"{len(cands)} (project, enumeration order) pairs change the project's internal list order; "
                                f"{benign} of them replayed with the real ford gave identical output under 12 hash seeds: sufficient "
                                "condition not met, no violation reproduced")
    for lab in ("both runs", "non-identity order"):
        if E.reached.get(lab):
            ctx.twins += 1
        else:
            ctx.inconclusive.append(f"vacuity: '{lab}' never reached")
    ctx.sample({"paths": E.paths, "candidates": len(cands)})


@obligation("C12", "O1.file-enumeration-order.2-files", engine="SX(CV)+permutation stub", timeout=1800)
def file_order_2(ctx):
    """two files, each one of 8 program units with overlapping names: entity lists, names and identifiers after
    Project.__init__ + correlate() are the same for every order in which the set of source paths is iterated"""
    _run_file_order(ctx, 2)


@obligation("C12", "O1.file-enumeration-order.names-differing-in-case", engine="SX(CV)+permutation stub", timeout=1800)
def file_order_case(ctx):
    """two files whose names differ only in letter case (Shapes.f90 / shapes.f90): same requirement (a case-insensitive sort key would tie)"""
    _run_file_order(ctx, 2, ["Shapes.f90", "shapes.f90"])


@obligation("C12", "O1.file-enumeration-order.3-files", engine="SX(CV)+permutation stub", timeout=3000, tiers=("thorough",))
def file_order_3(ctx):
    """three files (6 enumeration orders)"""
    _run_file_order(ctx, 3)


# ---------------------------------------------------------------------------------------
# O2: iteration order of the sets built by correlate()
# ---------------------------------------------------------------------------------------
USE_LINES = ["use a", "use b", "USE A", "use ext1", "use ext2", "implicit none", "use a, only: ta, tq, tz, va, vb"]


def _use_files(x, y):
    return {"a.f90": ["module a", "type ta", "integer :: c", "end type ta", "type tq", "integer :: c", "end type tq", "type tz", "integer :: c", "end type tz",
                      "integer :: va, vb", "end module a",
                      "module b", "type, extends(ta) :: tb", "integer :: d", "end type tb", "end module b"],
            "b.f90": ["module d", x, y, "type(ta) :: v", "end module d"]}


def _uses_order(p):
    out = []
    for attr in ("modules", "submodules", "procedures", "programs"):
        for e in getattr(p, attr):
            us = getattr(e, "uses", None)
            if not us:
                continue
            for u in us:  # what the template's `for use in obj.uses` and the graph builders see
                out.append(u if isinstance(u, (str, CV)) else u.name)
            out.append("|")
    return choice.apply(lambda *xs: tuple(xs), *out) if out else ()


def _export_order(p):
    """the order in which each module exports its public entities (what dump_modules writes to modules.json with `externalize`)"""
    out = []
    for m in p.modules:
        for attr in ("pub_procs", "pub_absints", "pub_types", "pub_vars"):
            out.append("<" + attr)
            out.extend(list(getattr(m, attr, {}) or {}))
    return choice.apply(lambda *xs: tuple(str(x) for x in xs), *out) if out else ()


def _observe2(p):
    return _observe(p), _uses_order(p), _export_order(p)


def replay_uses_order(w):
    files = {name: "\n".join(lines) + "\n" for name, lines in _use_files(w["use1"], w["use2"]).items()}
    seen = real_runs_differ(files)
    return len(seen) > 1, {"uses": [w["use1"], w["use2"]], "output digests by PYTHONHASHSEED": seen}


def replay_export_order(w):
    files = {name: "\n".join(lines) + "\n" for name, lines in _use_files(w["use1"], w["use2"]).items()}
    seen = real_runs_differ(files, options={"externalize": "true"}, only="modules.json")
    return len(seen) > 1, {"uses": [w["use1"], w["use2"]], "digests of modules.json by PYTHONHASHSEED": seen}


@obligation("C12", "O2.correlate-set-order", engine="SX(CV)+permutation stub", timeout=1800)
def correlate_set_order(ctx):
    """the sets built while correlating (used modules, type dependencies) are iterated in an arbitrary order: the project's
    lists, names, identifiers and the order in which a page lists the used modules must not change"""
    import ford.fortran_project as fp
    import ford.sourceform as sf

    ctx.encode_fn(sf.FortranCodeUnit.correlate)
    ctx.encode_fn(fp.Project.correlate)
    ctx.encode_fn(fp.find_used_modules)
    ctx.stubs.append("`set` (calls, displays, comprehensions) in ford.sourceform and ford.fortran_project: iteration order is an arbitrary "
                     "permutation chosen by the solver (fv/permset.py)")
    ctx.bounds.update({"use_statements": 2, "spellings": len(USE_LINES), "set_elements": permset.MAX_ELEMS})
    kf = ctx.known("C12-uses-list-hash-order", replay_uses_order)

    def h(E):
        permset.reset()
        x = CV.choice(E, "use1", USE_LINES)
        y = CV.choice(E, "use2", USE_LINES)
        files = _use_files(x, y)
        ref = parserh.project(files, post=_observe2, **SETTINGS)
        permset.reset()
        got = parserh.project(files, post=_observe2, file_order="sorted", sym_sets=(sf, fp), **SETTINGS)
        order = list(permset.LOG)
        E.reachable("both runs")
        if any(o[1] != tuple(sorted(o[1])) for o in order):
            E.reachable("non-identity order")
        E.e.snapshot = lambda m: {"use1": choice.value_in_model(m, x), "use2": choice.value_in_model(m, y),
                                  "order": [list(o[1]) for o in order]}
        if ref[0][0] != got[0][0]:
            E.require(False, "set iteration order in correlate() changes the order of the project's entity lists")
            return
        E.require(choice.apply(lambda a, b: a == b, ref[0][1], got[0][1]), "set iteration order in correlate() changes names / identifiers")
        E.require(choice.apply(lambda a, b: a == b, ref[2], got[2]), "the order in which a module exports its public entities (modules.json) is a set's iteration order")
        if kf is None:
            E.require(choice.apply(lambda a, b: a == b, ref[1], got[1]), "the order in which a page lists the used modules is the set's iteration order")

    E = sym.Engine(ctx, max_paths=60000, incremental=True)
    found = E.explore(h, on_violation=lambda f: True)  # the first differing order suffices
    seen = set()
    for (label, m, pc), snap in zip(found, E.snapshots):
        if label in seen or not snap:
            continue
        seen.add(label)
        ctx.report(label, snap, replay_export_order if "modules.json" in label else replay_uses_order)
    for lab in ("both runs", "non-identity order"):
        if E.reached.get(lab):
            ctx.twins += 1
        else:
            ctx.inconclusive.append(f"vacuity: '{lab}' never reached")
    ctx.sample({"paths": E.paths})


# ---------------------------------------------------------------------------------------
# O2b: the library that orders the modules (toposort) works on sets of module OBJECTS, hashed by memory address: whatever order it
# meets them in, the numbering of equally named modules (dup, dup~2: their URLs) must not change
# ---------------------------------------------------------------------------------------
DUP_UNITS = [("module dup", "end module dup"), ("module Dup", "end module Dup"), ("module other", "end module other")]


def _dup_files(u1, u2):
    return {"a.f90": [u1[0], "integer :: from_a", u1[1]], "b.f90": [u2[0], "integer :: from_b", u2[1]],
            "c.f90": ["module third", "integer :: from_c", "end module third"]}


class _Toposort:
    """toposort's algorithm with every level set iterated in an arbitrary (solver-chosen) order before it is sorted"""

    @staticmethod
    def toposort(data):
        data = {k: set(v) - {k} for k, v in data.items()}
        extra = set()
        for v in data.values():
            extra |= v
        for k in extra - set(data):
            data[k] = set()
        while True:
            ordered = set(k for k, dep in data.items() if not dep)
            if not ordered:
                break
            yield ordered
            data = {k: (dep - ordered) for k, dep in data.items() if k not in ordered}
        if data:
            raise ValueError("circular dependencies")

    @classmethod
    def toposort_flatten(cls, data, sort=True):
        out = []
        for level in cls.toposort(data):
            items = list(iter(permset.PermSet(level)))
            out.extend(sorted(items) if sort else items)
        return out


def _dup_observe(p):
    return tuple((os.path.basename(str(m.filename)), str(m.ident)) for m in sorted(p.modules, key=lambda m: os.path.basename(str(m.filename))))


def replay_dup(w):
    files = {name: "\n".join(lines) + "\n" for name, lines in _dup_files(w["u1"], w["u2"]).items()}
    seen = real_runs_differ(files, seeds=range(16))
    return len(seen) > 1, {"files": _dup_files(w["u1"], w["u2"]), "output digests by PYTHONHASHSEED": seen}


@obligation("C12", "O2b.module-numbering-order", engine="SX(CV)+permutation stub", timeout=900)
def module_numbering(ctx):
    """three files with one module each, two of them equally named (symbolic letter case): with the level sets of the module ordering
    iterated in an arbitrary order, every module keeps the identifier (and so the URL) it has in the reference run"""
    import ford.fortran_project as fp
    import ford.sourceform as sf

    ctx.encode_fn(fp.Project.correlate)
    ctx.encode_fn(sf.NameSelector.get_name)
    ctx.stubs.append("toposort replaced by the same algorithm with each level set iterated in a solver-chosen order (fv/permset.py)")
    ctx.bounds.update({"modules": 3, "unit spellings": len(DUP_UNITS)})

    def h(E):
        permset.reset()
        i1 = CV.choice(E, "u1", list(range(len(DUP_UNITS)))).concretize()
        i2 = CV.choice(E, "u2", list(range(len(DUP_UNITS)))).concretize()
        files = _dup_files(DUP_UNITS[i1], DUP_UNITS[i2])
        ref = parserh.project(files, post=_dup_observe, **SETTINGS)
        permset.reset()
        got = parserh.project(files, post=_dup_observe, more_patches={(fp, "toposort"): _Toposort}, **SETTINGS)
        order = list(permset.LOG)
        E.reachable("both runs")
        if any(o[1] != tuple(sorted(o[1])) for o in order) or len(order) > 0:
            E.reachable("arbitrary order")
        E.e.snapshot = lambda m: {"u1": list(DUP_UNITS[i1]), "u2": list(DUP_UNITS[i2]), "order": [list(o[1]) for o in order]}
        E.require(ref == got, "the identifiers (URLs) of equally named modules depend on the order in which the module ordering meets them")

    E = sym.Engine(ctx, max_paths=5000, incremental=True)
    found = E.explore(h, on_violation=lambda f: True)
    seen = set()
    for (label, m, pc), snap in zip(found, E.snapshots):
        if label in seen or not snap:
            continue
        seen.add(label)
        ctx.report(label, snap, replay_dup)
    for lab in ("both runs", "arbitrary order"):
        if E.reached.get(lab):
            ctx.twins += 1
        else:
            ctx.inconclusive.append(f"vacuity: '{lab}' never reached")
    ctx.sample({"paths": E.paths})


# ---------------------------------------------------------------------------------------
# O3: graph emission order
# ---------------------------------------------------------------------------------------
GRAPH_FILES = {"a.f90": ["module m1", "type ta", "integer :: i", "end type ta", "end module m1",
                         "module m2", "use m1", "type, extends(ta) :: tb", "integer :: j", "end type tb",
                         "type, extends(ta) :: tc", "type(tb) :: c1", "type(ta) :: c2", "end type tc", "end module m2",
                         "module m3", "use m1", "use m2", "contains",
                         "subroutine sa()", "call sb()", "call sc()", "end subroutine sa",
                         "subroutine sb()", "call sc()", "end subroutine sb",
                         "subroutine sc()", "end subroutine sc", "end module m3"],
               "b.f90": ["program pp", "use m3", "use m1", "call sa()", "call sb()", "end program pp"],
               # two equally named (equally LABELLED) procedures in different files, both neighbours of m1 and of sc
               "c.f90": ["subroutine setup()", "use m1", "use m3", "call sc()", "end subroutine setup"],
               "d.f90": ["subroutine setup()", "use m1", "use m3", "call sc()", "end subroutine setup"]}
GSET = dict(proc_internals=True, graph=True, display=["public", "private", "protected"])


class _Rec:
    def __init__(self, *a, **k):
        self.calls = []

    def node(self, ident, **kw):
        self.calls.append(("node", str(ident), tuple(sorted((k, str(v)) for k, v in kw.items()))))

    def edge(self, *a, **kw):
        self.calls.append(("edge", tuple(str(x) for x in a), tuple(sorted((k, str(v)) for k, v in kw.items()))))

    def attr(self, *a, **k):
        pass


def _graphs_of(which):
    def observe(p):
        import ford.graphs as gr
        gd = gr.GraphData("", False, False)
        for lst in (p.types, p.procedures, p.submodprocedures, p.modules, p.submodules, p.programs, p.files, p.blockdata):
            for e in lst:
                gd.register(e)
        byname = {}
        for lst in (p.types, p.procedures, p.modules, p.programs, p.files):
            for e in lst:
                byname[(type(e).__name__, e.name)] = e
        out = []
        for cls, rootsel in which:
            if rootsel == "modules":
                g = getattr(gr, cls)(list(p.modules) + list(p.programs), gd, "module~~graph")
            elif rootsel == "procedures":
                g = getattr(gr, cls)(list(p.procedures) + list(p.programs), gd, "call~~graph")
            elif rootsel == "types":
                g = getattr(gr, cls)(list(p.types), gd, "type~~graph")
            elif rootsel == "files":
                g = getattr(gr, cls)(list(p.files), gd, "file~~graph")
            else:
                g = getattr(gr, cls)(byname[rootsel], gd)
            out.append((cls, tuple(g.dot.calls), tuple(str(n.ident) for n in g.hop_nodes), g.truncated))
        return tuple(out)
    return observe


GRAPH_GROUPS = {
    "module-graphs": [("UsesGraph", ("FortranModule", "m3")), ("UsedByGraph", ("FortranModule", "m1")), ("ModuleGraph", "modules")],
    "call-graphs": [("CallsGraph", ("FortranSubroutine", "sa")), ("CalledByGraph", ("FortranSubroutine", "sc")), ("CallGraph", "procedures")],
    "type-graphs": [("InheritsGraph", ("FortranType", "tc")), ("InheritedByGraph", ("FortranType", "ta")), ("TypeGraph", "types")],
    "file-graphs": [("EfferentGraph", ("FortranSourceFile", "b.f90")), ("AfferentGraph", ("FortranSourceFile", "a.f90")), ("FileGraph", "files")],
}


def replay_graph_order(w):
    # the recorded emission sequence is the content of the .gv source / embedded SVG: graphs need graphviz's `dot`, which
    # the sandbox does not have, so the replay re-runs the real graph classes natively with the set order forced
    import io, contextlib
    import ford.graphs as gr
    from fv import patch

    res = []
    for order in (None, w["order"]):
        class Forced(set):
            def __iter__(self, order=order):
                items = sorted(set.__iter__(self), key=permset._key)
                if order == "reversed":
                    items.reverse()
                return iter(items)
        import ford.sourceform as sf
        old = gr.__dict__.get("set", None)
        oldd, oldg, oldn = gr.Digraph, gr.graphviz_installed, sf.namelist
        sf.namelist = sf.NameSelector()  # module-level singleton: fresh per run, as in a fresh process
        gr.__dict__["set"] = Forced
        gr.Digraph, gr.graphviz_installed = _Rec, False
        try:
            with contextlib.redirect_stdout(io.StringIO()), contextlib.redirect_stderr(io.StringIO()):
                p = parserh.project_concrete({k: list(v) for k, v in GRAPH_FILES.items()}, **GSET)
                res.append(_graphs_of(GRAPH_GROUPS[w["group"]])(p))
        finally:
            gr.Digraph, gr.graphviz_installed = oldd, oldg
            sf.namelist = oldn
            if old is None:
                gr.__dict__.pop("set", None)
            else:
                gr.__dict__["set"] = old
    diff = [a[0] for a, b in zip(res[0], res[1]) if a != b]
    return bool(diff), {"graphs whose emission differs between ascending and reversed set order": diff}


def _graph_ob(group):
    @obligation("C12", "O3.graph-emission-order." + group, engine="SX(CV)+permutation stub", timeout=3000)
    def ob(ctx):
        import io, contextlib
        import ford.graphs as gr

        for cls, _ in GRAPH_GROUPS[group]:
            ctx.encode_fn(getattr(gr, cls).add_nodes, cls + ".add_nodes")
        ctx.encode_fn(gr.FortranGraph.__init__)
        ctx.encode_fn(gr.FortranGraph.add_to_graph)
        ctx.encode_fn(gr.GraphData.register)
        ctx.stubs.append("`set` in ford.graphs: iteration order is an arbitrary permutation chosen by the solver; graphviz.Digraph replaced "
                         "by a recorder of node()/edge() calls; graphviz_installed=False (no `dot` binary in the sandbox)")
        ctx.bounds.update({"project": "fixed 4-file project (3 modules, 3 types, 3 module procedures, 1 program, 2 equally named external procedures; every relation has a node with 2+ neighbours, two of them with equal labels)",
                           "set_elements": permset.MAX_ELEMS})
        obs = _graphs_of(GRAPH_GROUPS[group])

        def run(sym_sets):
            oldd, oldg = gr.Digraph, gr.graphviz_installed
            gr.Digraph, gr.graphviz_installed = _Rec, False
            try:
                with contextlib.redirect_stdout(io.StringIO()), contextlib.redirect_stderr(io.StringIO()):
                    return parserh.project({k: list(v) for k, v in GRAPH_FILES.items()}, post=obs, post_modules=(gr,), sym_sets=sym_sets, **GSET)
            finally:
                gr.Digraph, gr.graphviz_installed = oldd, oldg

        def h(E):
            permset.reset()
            ref = run(())
            permset.reset()
            got = run((gr,))
            order = list(permset.LOG)
            E.reachable("both runs")
            if any(o[1] != tuple(sorted(o[1])) for o in order):
                E.reachable("non-identity order")
            E.e.snapshot = lambda m: {"group": group, "order": "reversed", "solver_orders": [list(o[1]) for o in order]}
            for a, b in zip(ref, got):
                E.require(a == b, f"{a[0]}: the emitted nodes/edges depend on set iteration order")

        E = sym.Engine(ctx, max_paths=100000, incremental=True)
        found = E.explore(h, on_violation=lambda f: True)  # the first differing order suffices
        seen = set()
        for (label, m, pc), snap in zip(found, E.snapshots):
            if label in seen or not snap:
                continue
            seen.add(label)
            ctx.report(label, snap, replay_graph_order)
        for lab in ("both runs", "non-identity order"):
            if E.reached.get(lab):
                ctx.twins += 1
            else:
                ctx.inconclusive.append(f"vacuity: '{lab}' never reached")
        ctx.sample({"paths": E.paths})

    ob.__doc__ = f"{group}: the sequence of node()/edge() calls (the .gv source) of the real graph classes is the same for every iteration order of the sets in ford.graphs"


for _g in GRAPH_GROUPS:
    _graph_ob(_g)



# ---------------------------------------------------------------------------------------
# O4: what an earlier run left in the output directory (file-system stub shared with C19, see fv/props/c19.py)
# ---------------------------------------------------------------------------------------
@obligation("C12", "O4.stale-output-directory", engine="SX+file-system stub", timeout=900)
def stale_output(ctx):
    """Documentation.writeout on the in-memory file system: for every option profile the written tree is the same whether the output
    directory was absent, a plain file, or a directory holding stale pages and directories of another project"""
    from fv.props import c19
    c19.writeout_obligation(ctx, "stale")



# ---------------------------------------------------------------------------------------
# O5: the static page tree (and so the navigation of every page and the order of the search index) does not depend on the order
# in which the file system enumerates the page directory
# ---------------------------------------------------------------------------------------
def replay_page_order(w):
    from fv.props import c17
    import ford.pagetree as pt
    import tempfile
    # natively: the real get_page_tree on a real directory, with os.listdir of ford.pagetree answering in two different orders
    res = {}
    real_listdir = os.listdir
    for order in ("ascending", w["order"]):
        def listdir(p, order=order):
            names = sorted(real_listdir(p))
            if order == "descending":
                names.reverse()
            elif order == "rotated":
                names = names[len(names) // 2:] + names[:len(names) // 2]
            return names
        shim = type("os_shim", (), {"listdir": staticmethod(listdir), "path": os.path, "PathLike": os.PathLike, "walk": os.walk, "sep": os.sep})
        old = pt.os
        pt.os = shim
        try:
            bad, detail = c17.replay_tree({"choices": w["choices"]})
            res[order] = detail.get("ford_tree")
        finally:
            pt.os = old
    return res["ascending"] != res[w["order"]], {"choices": w["choices"], "page tree with ascending enumeration": res["ascending"],
                                                 "page tree with " + w["order"] + " enumeration": res[w["order"]]}


@obligation("C12", "O5.page-tree-enumeration-order", engine="SX(CV)+virtual file system", timeout=1800)
def page_tree_order(ctx):
    """the symbolic page directory of C17 (titled/untitled pages, ordered_subpage lists that name some, all or none of the entries) listed by
    the stubbed OS in ascending, descending or rotated order: get_page_tree builds the same tree (pages, order, files, hierarchy)"""
    import ford.pagetree as pt
    from fv.props import c17

    ctx.encode_fn(pt.get_page_tree)
    ctx.stubs.append("as C17 O1: in-memory page directory; os.listdir answers in the order chosen by the solver (ascending / descending / rotated)")
    ctx.bounds.update({"enumeration orders": ["ascending", "descending", "rotated"]})

    def h(E):
        ch, entries = c17._tree(E, False)
        order = CV.choice(E, "order", ["descending", "rotated"]).concretize()
        E.e.snapshot = lambda m: {"choices": [choice.value_in_model(m, x) for x in ch], "order": order}
        res = []
        for o in ("ascending", order):
            c17.LISTDIR_ORDER[0] = o
            try:
                res.append(c17._run(entries, []))
            except ValueError:
                res.append("ERROR")
            finally:
                c17.LISTDIR_ORDER[0] = "descending"
        E.reachable("both orders")
        same = (res[0] == res[1]) if not (isinstance(res[0], list) and isinstance(res[1], list)) else None
        if same is None:
            if len(res[0]) != len(res[1]):
                E.require(False, "the number of pages depends on the order in which the page directory is enumerated")
                return
            for a, b in zip(res[0], res[1]):
                E.require(choice.apply(lambda *xs: xs[:len(xs) // 2] == xs[len(xs) // 2:], *(list(_flat(a)) + list(_flat(b)))),
                          "the page tree depends on the order in which the page directory is enumerated")
        else:
            E.require(same, "get_page_tree fails or not depending on the enumeration order")

    E = sym.Engine(ctx, max_paths=50000, incremental=True)
    found = E.explore(h)
    seen = set()
    for (label, m, pc), snap in zip(found, E.snapshots):
        if label in seen or not snap:
            continue
        seen.add(label)
        ctx.report(label, snap, replay_page_order)
    if E.reached.get("both orders"):
        ctx.twins += 1
    else:
        ctx.inconclusive.append("vacuity: page tree never built")
    ctx.sample({"paths": E.paths})


def _flat(rec):
    path, title, files, hier = rec
    return [path, title, tuple(sorted(str(f) for f in files)), tuple(hier)]
