"""C08 — recorded calls are exactly the user procedures a unit invokes."""
import z3

from fv import sym, choice, parserh, rx, grammar as G, cascade
from fv.choice import CV
from fv.core import obligation, Inconclusive
from fv.props import META

META["C08"] = {
    "explanation": "C08: (a) RX — every FORMAT statement and computed GOTO of the grammar (unbounded length) is taken by the branch "
    "that skips call scanning; (b) the REAL parser + Project.correlate run on a symbolic procedure body whose executable "
    "statements are finite-choice symbolic values (CALL statements, function references nested in arguments, IF / DO WHILE / "
    "SELECT CASE / WHERE headers, type-bound calls, ASSOCIATE nesting, I/O statements, array references, intrinsics, keywords, "
    "FORMAT, computed GOTO, call-like text inside character literals, letter-case and blank variants): the recorded call set "
    "must equal the set of user procedures invoked, each once.",
    "outside": ["statement forms not in the option tables", "call-graph rendering (C13)"],
    "assumptions": ["oracle: the expected call list is part of each option (written from the Fortran text)"],
}


# ---------------------------------------------------------------------------------------
def replay_skip(w):
    """a FORMAT / computed GOTO statement inside a subroutine must record no call"""
    p = parserh.project_concrete({"a.f90": ["subroutine s()", "integer :: i", w["stmt"], "end subroutine s"]},
                                 proc_internals=True, display=["public", "private", "protected"])
    calls = [str(getattr(c, "name", c)) for c in p.procedures[0].calls]
    return bool(calls), {"stmt": w["stmt"], "recorded_calls": calls}


def _skip_ob(name, lang_fn, designated, canon):
    @obligation("C08", f"O1.skip.{name}", engine="RX", timeout=600)
    def ob(ctx):
        branches, src = cascade.extract()
        ctx.encode_text("FortranContainer.__init__ (cascade order and guards)", src, "python-source")
        L = lang_fn()
        import ford.sourceform as sf

        cx = dict(cls=sf.FortranSubroutine, incontains=False, blocklevel=0)
        s = z3.String("s")
        d = [b for b in branches if b.key == designated]
        if len(d) != 1:
            raise Inconclusive(f"branch {designated} not found")
        d = d[0]
        ctx.encode_re(designated, cascade.live_pattern(designated))
        ctx.twin(f"{name}: canonical in class", [s == z3.StringVal(canon), z3.InRe(s, L)], 30)
        for b in branches[: d.idx]:
            Lb = cascade.branch_lang(b, cx)
            if Lb is None:
                continue
            label = f"{name} ∩ earlier[{b.idx}:{b.key}] = ∅"
            r, m = ctx.solve(label, [z3.InRe(s, rx.FULL), z3.InRe(s, L), z3.InRe(s, Lb)], 60)
            if r == "sat":
                ctx.report(label, {"stmt": rx.z3str_to_py(m.eval(s, model_completion=True).as_string())}, replay_skip)
        label = f"{name} ⊆ [{d.idx}:{d.key}]"
        miss = [z3.InRe(s, rx.FULL), z3.InRe(s, L), z3.Not(z3.InRe(s, cascade.branch_lang(d, cx)))]
        r, m = ctx.solve(label, miss, 60)
        if r == "sat":
            # prefer a witness whose mis-dispatch is observable: a nested group that looks like a reference
            nested = rx.seq(rx.FULL, "(", rx.FULL, rx.WORD, "(", rx.FULL)
            r2, m2 = ctx.solve(label + " (observable witness)", miss + [z3.InRe(s, nested)], 60, want=None)
            mm = m2 if r2 == "sat" else m
            ctx.report(label, {"stmt": rx.z3str_to_py(mm.eval(s, model_completion=True).as_string())}, replay_skip)
        ctx.bounds.update({"statement_length": "unbounded"})
        ctx.sample({"class": name, "canonical": canon})

    ob.__doc__ = f"every {name} statement of the grammar reaches the branch that skips call scanning ({designated})"


_skip_ob("format", lambda: G.FORMAT_STMT, "FORMAT_RE", "100 format (i5)")
_skip_ob("computed-goto", lambda: G.COMPUTED_GOTO, "ARITH_GOTO_RE", "goto (10, 20) i")


# ---------------------------------------------------------------------------------------
MODULE = ["module procs", "type tt", "integer :: c", "contains", "procedure :: run => trun", "procedure :: getv => tget", "end type tt",
          "contains",
          "subroutine foo(a)", "end subroutine foo", "function bar(a)", "end function bar", "function baz(a)", "end function baz",
          "logical function chk(a)", "end function chk", "logical function more(a)", "end function more",
          "integer function pick(a)", "end function pick", "subroutine trun(self)", "class(tt) :: self", "end subroutine trun",
          "function tget(self)", "class(tt) :: self", "end function tget", "subroutine noargs", "end subroutine noargs",
          "end module procs"]

# (statement, [user procedures invoked])
STMTS = [
    ("continue", []),
    ("call foo(x)", ["foo"]), ("CALL FOO (X)", ["foo"]), ("call  foo( x )", ["foo"]), ("call noargs", ["noargs"]), ("call noargs()", ["noargs"]),
    ("x = bar(y)", ["bar"]), ("X = BAR (Y)", ["bar"]), ("x = bar(baz(y))", ["bar", "baz"]), ("x = bar(y) + baz(y)", ["bar", "baz"]),
    ("call foo(bar(baz(y)))", ["foo", "bar", "baz"]),
    ("if (chk(x)) call foo(bar(y))", ["chk", "foo", "bar"]), ("if (chk(x)) x = 1", ["chk"]), ("IF (CHK(X)) THEN", ["chk"]),
    ("do while (more(x))", ["more"]), ("select case (pick(x))", ["pick"]), ("where (arr > pick(x)) arr = 0", ["pick"]),
    ("x = sin(y) + abs(y)", []), ("x = max(bar(y), 2)", ["bar"]), ("x = arr(3)", []), ("arr(2) = x", []), ("x = arr(pick(y))", ["pick"]),
    ("print *, 'call foo(x)'", []), ("write(*,*) \"x = bar(y)\"", []), ("print *, bar(y)", ["bar"]), ("write(*,*) bar(y), arr(1)", ["bar"]),
    ("x = bar(y) ! comment", ["bar"]),
    ("100 format (3(i5,1x))", []), ("200 FORMAT (A, I3)", []),
    ("goto (10, 20) i", []), ("go to (10,20), i", []),
    ("call obj%run()", ["run"]), ("CALL OBJ % RUN ( )", ["run"]), ("x = obj%getv()", ["getv"]), ("x = obj%c", []),
    ("allocate(arr2(pick(x)))", ["pick"]), ("if (allocated(arr2)) deallocate(arr2)", []),
    ("write(*,'(a,i0)') 'baz(2) = ', i", []), ("x = len('abcdefgh' // 'call foo(bar(1))')", []),
    ("print *, 'Value of i:', i, 'and baz(1):', bar(y)", ["bar"]), ("print *, \"it's\", 'chk(x)', foo_text", []),
    ("x = bar(y); call foo(x)", ["bar", "foo"]),
    ("call foo(x) ; call foo(y)", ["foo"]),
    ("line(1:3) = 'abc'", []), ("word(2:2) = line(i:i)", []), ("names(2)(1:4) = word(1:4)", []), ("if (line(1:1) == 'a') call foo(x)", ["foo"]),
    ("x = buf(3)", []), ("Buf(2) = x", []), ("x = BUF(pick(y)) + Arr(1)", ["pick"]), ("call foo(buf(i))", ["foo"]),
]
# the reader splits `;`-separated statements: emulate by expanding them here
def _expand(stmts):
    out = []
    for s_, calls in stmts:
        parts = [p.strip() for p in s_.split(";")] if ";" in s_ and "'" not in s_ and '"' not in s_ else [s_]
        if "!" in s_ and "'" not in s_ and '"' not in s_:
            parts = [p.split("!")[0].strip() for p in parts]
        while len(parts) < 2:
            parts.append("continue")
        out.append((tuple(parts), calls))
    return out


def _caller(stmt_lines, pre=(), post=()):
    # `Buf`: a dummy array argument spelled in mixed case (names are case-insensitive: its elements are never calls)
    return ["subroutine caller(obj, Buf)", "use procs", "type(tt) :: obj", "integer :: BUF(10)", "integer :: x, y, i, arr(10)", "integer, allocatable :: arr2(:)",
            "character line*(80), word*8, names(4)*(16)"] + \
        list(pre) + list(stmt_lines) + list(post) + ["end subroutine caller"]


PSET = dict(proc_internals=True, display=["public", "private", "protected"])


def _callnames(p):
    c = [x for x in p.procedures if str(x.name).lower() == "caller"][0]
    return [choice.apply(lambda v: str(getattr(v, "name", v)).lower(), x) for x in c.calls]


def replay_calls(w):
    p = parserh.project_concrete({"a.f90": list(MODULE), "b.f90": _caller(w["stmts"], w.get("pre", ()), w.get("post", ()))}, **PSET)
    got = sorted(_callnames(p))
    want = sorted(set(w["expected"]))
    return got != want, {"statements": w["stmts"], "ford_calls": got, "invoked": want}


def _calls_ob(name, lo, hi):
    @obligation("C08", f"O3.calls.{name}", engine="SX(CV)", timeout=1800)
    def ob(ctx):
        import ford.sourceform as sf

        ctx.encode_fn(sf.FortranContainer._add_procedure_calls)
        ctx.encode_fn(sf.FortranContainer.__init__)
        ctx.encode_fn(sf.FortranCodeUnit._find_chain_item)
        ctx.encode_re("CALL_RE", sf.FortranContainer.CALL_RE)
        ctx.encode_re("SUBCALL_RE", sf.FortranContainer.SUBCALL_RE)
        opts = _expand(STMTS[lo:hi])
        ctx.bounds.update({"statement_options": len(opts), "statements_per_body": 2})
        ctx.stubs.append("FortranReader replaced by the symbolic statement lists (`;` splitting and comment removal are C02)")

        def h(E):
            a = CV.choice(E, "s1", opts)
            b = CV.choice(E, "s2", opts)
            lines = [a[0][0], a[0][1], b[0][0], b[0][1]]
            h.state = (a, b)
            p = parserh.project({"a.f90": list(MODULE), "b.f90": _caller(lines)}, **PSET)
            names = _callnames(p)
            E.reachable("correlated")
            want = choice.apply(lambda x, y: sorted(set(x) | set(y)), a[1], b[1])
            h.want = want
            got = choice.apply(lambda *n: sorted(n), *names) if names else []
            E.require(choice.apply(lambda g, w_: list(g) == list(w_), got, want), "recorded calls differ from the procedures invoked")

        E = sym.Engine(ctx, max_paths=100000, incremental=True)
        found = E.explore(h)
        seen = set()
        for (label, m, pc), A in list(zip(found, E.autosnaps)):
            if label in seen:
                continue
            seen.add(label)
            a, b = (choice.value_in_model(m, x) for x in A["state"])
            ctx.report(label, {"stmts": list(a[0]) + list(b[0]), "expected": choice.value_in_model(m, A["want"])}, replay_calls)
        if E.reached.get("correlated"):
            ctx.twins += 1
        else:
            ctx.inconclusive.append("vacuity: correlate never completed")
        ctx.sample({"options": [o[0][0] for o in opts[:8]], "paths": E.paths})

    ob.__doc__ = f"procedure body of two symbolic executable statements (options {lo}..{hi}): recorded calls = user procedures invoked, each once"


_calls_ob("call-and-function", 0, 13)
_calls_ob("control-headers", 11, 23)
_calls_ob("io-literals-format-goto", 22, 32)
_calls_ob("bound-alloc-multi", 30, 39)
_calls_ob("several-literals", 36, len(STMTS) - 8)
_calls_ob("array-elements-any-letter-case", len(STMTS) - 10, len(STMTS))


# ---------------------------------------------------------------------------------------
# O4: ASSOCIATE scoping of the associate-names used at the head of a call chain
# ---------------------------------------------------------------------------------------
AMOD = ["module amod", "type ta", "integer :: c", "contains", "procedure :: run => arun", "end type ta",
        "type tb", "integer :: c", "contains", "procedure :: run => brun", "end type tb", "contains",
        "subroutine arun(self)", "class(ta) :: self", "end subroutine arun",
        "subroutine brun(self)", "class(tb) :: self", "end subroutine brun", "end module amod"]
OUTER = [("associate (obj => va)", {"obj": "ta"}), ("ASSOCIATE (OBJ => VA)", {"obj": "ta"}), ("associate (o2 => va, o4 => vb)", {"o2": "ta", "o4": "tb"})]
INNER = [(("continue", "continue"), {}), (("associate (obj => vb)", "end associate"), {"obj": "tb"}),
         (("associate (o3 => vb)", "end associate"), {"o3": "tb"}), (("associate (o2 => vb)", "END ASSOCIATE"), {"o2": "tb"})]
ACALL = [("call obj%run()", "obj"), ("call o2%run()", "o2"), ("call o3%run()", "o3"), ("CALL OBJ%RUN()", "obj"), ("call o4%run()", "o4"),
         ("continue", None)]


def _assoc_prog(outer, inner_open, c1, inner_close, c2):
    return ["subroutine caller(va, vb)", "use amod", "type(ta) :: va", "type(tb) :: vb", outer, inner_open, c1, inner_close, c2,
            "end associate", "end subroutine caller"]


def assoc_rule(outer, inner, n1, n2):
    """types whose `run` binding is invoked: inside the inner block the inner association hides the outer one"""
    out = set()
    if n1 is not None:
        t = {**outer, **inner}.get(n1)
        if t:
            out.add(t)
    if n2 is not None:
        t = outer.get(n2)
        if t:
            out.add(t)
    return sorted(out)


def _assoc_observe(p):
    c = [x for x in p.procedures if str(x.name).lower() == "caller"][0]
    return [choice.apply(lambda v: (str(getattr(getattr(v, "parent", None), "name", "?")).lower() if not isinstance(v, str) else "unresolved:" + v), x)
            for x in c.calls]


def replay_assoc(w):
    p = parserh.project_concrete({"a.f90": list(AMOD), "b.f90": _assoc_prog(*w["slots"])}, **PSET)
    got = sorted(_assoc_observe(p))
    return got != w["expected"], {"program": _assoc_prog(*w["slots"]), "ford_calls_bindings_of": got, "lexical_scoping": w["expected"]}


@obligation("C08", "O4.associate-scoping", engine="SX(CV)", timeout=1800)
def assoc(ctx):
    """calls through associate-names: the innermost enclosing ASSOCIATE that defines the name decides which entity is called,
    and the association ends with its END ASSOCIATE"""
    import ford.sourceform as sf

    ctx.encode_fn(sf.Associations.__getitem__)
    ctx.encode_fn(sf.Associations.__contains__)
    ctx.encode_fn(sf.Associations.add_batch)
    ctx.encode_fn(sf.Associations.remove_last_batch)
    ctx.encode_fn(sf.FortranContainer._add_procedure_calls)

    kf = ctx.known("C08-dedup-by-last-name", replay_assoc)

    def h(E):
        o = CV.choice(E, "outer", OUTER)
        i = CV.choice(E, "inner", INNER)
        c1 = CV.choice(E, "c1", ACALL)
        c2 = CV.choice(E, "c2", ACALL)
        h.state = (o, i, c1, c2)
        # only references to names that are associated at that point (anything else is not valid Fortran here)
        E.assume(choice.apply(lambda om, im, n1, n2: (n1 is None or n1 in {**om, **im}) and (n2 is None or n2 in om), o[1], i[1], c1[1], c2[1]))
        if kf:
            # known finding: two calls whose chains end in the same binding name but denote bindings of different types
            E.assume(choice.apply(lambda om, im, n1, n2: len(assoc_rule(om, im, n1, n2)) <= 1, o[1], i[1], c1[1], c2[1]))
        p = parserh.project({"a.f90": list(AMOD), "b.f90": _assoc_prog(o[0], i[0][0], c1[0], i[0][1], c2[0])}, **PSET)
        got = _assoc_observe(p)
        E.reachable("correlated")
        want = choice.apply(assoc_rule, o[1], i[1], c1[1], c2[1])
        h.want = want
        gl = choice.apply(lambda *n: sorted(n), *got) if got else []
        E.require(choice.apply(lambda g, w_: list(g) == list(w_), gl, want), "call through an associate-name resolved against the wrong association")

    E = sym.Engine(ctx, max_paths=50000, incremental=True)
    found = E.explore(h)
    seen = set()
    for (label, m, pc), A in list(zip(found, E.autosnaps)):
        if label in seen:
            continue
        seen.add(label)
        o, i, c1, c2 = (choice.value_in_model(m, x) for x in A["state"])
        ctx.report(label, {"slots": [o[0], i[0][0], c1[0], i[0][1], c2[0]], "expected": choice.value_in_model(m, A["want"])}, replay_assoc)
    if E.reached.get("correlated"):
        ctx.twins += 1
    else:
        ctx.inconclusive.append("vacuity: correlate never completed")
    ctx.bounds.update({"outer": len(OUTER), "inner": len(INNER), "calls": len(ACALL)})
    ctx.sample({"paths": E.paths})


# ---------------------------------------------------------------------------------------
# O5: the same through the REAL reader: `;`-separated statements, trailing comments and literals holding `;`, `!`, doubled
# quotes or call-like text on one PHYSICAL line
# ---------------------------------------------------------------------------------------
PHYS = [
    ("continue", []),
    ("x = bar(y); call foo(x)", ["bar", "foo"]),
    ("call foo(x) ; call noargs", ["foo", "noargs"]),
    ("print *, 'can''t recover; call foo(1) by hand'", []),
    ("print *, 'that''s all'; call noargs", ["noargs"]),
    ("print *, \"say \"\"hi\"\"; x = bar(1)\"", []),
    ("print *, \"it's\"; x = baz(y)", ["baz"]),
    ("x = len('a;b') ; x = bar(y) ! then call foo(x)", ["bar"]),
    ("call foo(x) ! ; call noargs", ["foo"]),
    ("print *, '!'; call noargs ! 'x'; x = bar(1)", ["noargs"]),
    ("print *, 'a' // \"b;\" // 'c''' ; call foo(y)", ["foo"]),
    ("x = bar( &", ["bar", "baz"]),   # continued over the next line (see _phys_lines)
    ("call &", ["foo"]),              # the blank before `&` is the only separator: continued by `&foo(x); ...`
    ("if (chk(x)) call   &", ["chk", "foo"]),
]
CONT_TAIL = "        baz(y)); call noargs ! done"
CONT_TAIL_CALL = "&foo(x); call noargs ! done"


def _phys_lines(a, b):
    """two physical lines (b may be the head of a continuation whose tail is fixed)"""
    tail = choice.apply(lambda t: (CONT_TAIL_CALL if "call" in t else CONT_TAIL) if t.endswith("&") else "continue", b)
    return [a, b, tail]


def _phys_expected(ea, eb, b):
    extra = ["noargs"] if b.endswith("&") else []
    return sorted(set(ea) | set(eb) | set(extra))


def replay_phys(w):
    import ford.sourceform as sf
    old = sf.namelist
    sf.namelist = sf.NameSelector()
    try:
        p = parserh.project_concrete({"a.f90": list(MODULE), "b.f90": _caller(w["lines"])}, physical=("b.f90",), **PSET)
        got = sorted(_callnames(p))
    finally:
        sf.namelist = old
    want = sorted(set(w["expected"]))
    return got != want, {"physical lines": w["lines"], "ford_calls": got, "invoked": want}


@obligation("C08", "O5.calls-through-the-reader", engine="SX(CV)", timeout=1800)
def calls_phys(ctx):
    """caller body given as PHYSICAL lines and read by the real FortranReader: `;` outside literals separates statements,
    `!` outside literals starts a comment, literals (doubled quotes, both kinds) hide everything: recorded calls = invoked"""
    import ford.sourceform as sf
    import ford.reader as rd
    import ford.utils as fu

    ctx.encode_fn(rd.FortranReader.__next__)
    ctx.encode_fn(fu.quote_split)
    ctx.encode_fn(sf.FortranContainer._add_procedure_calls)
    ctx.bounds.update({"physical_line_options": len(PHYS), "lines_per_body": 2})
    ctx.stubs.append("the stream of the caller's file is the list of symbolic physical lines; the other file is a statement list")

    def h(E):
        a = CV.choice(E, "l1", [x for x in PHYS if not x[0].endswith("&")])
        b = CV.choice(E, "l2", PHYS)
        lines = _phys_lines(a[0], b[0])
        want = choice.apply(_phys_expected, a[1], b[1], b[0])
        E.e.snapshot = lambda m: {"lines": _caller([choice.value_in_model(m, x) for x in lines]), "expected": choice.value_in_model(m, want)}
        p = parserh.project({"a.f90": list(MODULE), "b.f90": _caller(lines)}, physical=("b.f90",), **PSET)
        names = _callnames(p)
        E.reachable("correlated")
        got = choice.apply(lambda *n: sorted(n), *names) if names else []
        E.require(choice.apply(lambda g, w_: list(g) == list(w_), got, want), "recorded calls differ from the procedures invoked")

    E = sym.Engine(ctx, max_paths=100000, incremental=True)
    found = E.explore(h)
    seen = set()
    for (label, m, pc), snap in zip(found, E.snapshots):
        if label in seen or not snap:
            continue
        seen.add(label)
        ctx.report(label, {"lines": snap["lines"][5:-1], "expected": snap["expected"]}, replay_phys)
    if E.reached.get("correlated"):
        ctx.twins += 1
    else:
        ctx.inconclusive.append("vacuity: correlate never completed")
    ctx.sample({"paths": E.paths})


# ---------------------------------------------------------------------------------------
# O6: references to the standard intrinsic procedures are never recorded.  The reference list is the Fortran 2018 standard's
# (ISO/IEC 1539-1:2018, table 16.1), written down here independently of FORD's own table in ford/intrinsics.py
# ---------------------------------------------------------------------------------------
F2018_FUNCTIONS = """abs achar acos acosh adjustl adjustr aimag aint all allocated anint any asin asinh associated atan atan2 atanh
bessel_j0 bessel_j1 bessel_jn bessel_y0 bessel_y1 bessel_yn bge bgt ble blt bit_size btest ceiling char cmplx command_argument_count
conjg cos cosh coshape count cshift dble digits dim dot_product dprod dshiftl dshiftr eoshift epsilon erf erfc erfc_scaled
exp exponent extends_type_of failed_images findloc floor fraction gamma get_team huge hypot iachar iall iand iany ibclr ibits ibset ichar ieor
image_index image_status index int ior iparity ishft ishftc is_contiguous is_iostat_end is_iostat_eor kind lbound lcobound leadz len len_trim
lge lgt lle llt log log_gamma log10 logical maskl maskr matmul max maxexponent maxloc maxval merge merge_bits min minexponent minloc minval
mod modulo nearest new_line nint norm2 not null num_images out_of_range pack parity popcnt poppar precision present product radix
range rank real reduce repeat reshape rrspacing same_type_as scale scan selected_char_kind selected_int_kind selected_real_kind
set_exponent shape shifta shiftl shiftr sign sin sinh size spacing spread sqrt stopped_images storage_size sum tan tanh team_number this_image
tiny trailz transfer transpose trim ubound ucobound unpack verify""".split()
F2018_SUBROUTINES = """atomic_add atomic_and atomic_cas atomic_define atomic_fetch_add atomic_fetch_and atomic_fetch_or atomic_fetch_xor
atomic_or atomic_ref atomic_xor co_broadcast co_max co_min co_reduce co_sum cpu_time date_and_time event_query execute_command_line
get_command get_command_argument get_environment_variable move_alloc mvbits random_init random_number random_seed system_clock""".split()
INTRINSIC_REFS = [(n, "x = {}(y)") for n in F2018_FUNCTIONS] + [(n, "call {}(y)") for n in F2018_SUBROUTINES]
SPELL = [("lower", str.lower), ("upper", str.upper), ("capitalised", str.capitalize)]


def _intrinsic_stmt(ref, spell):
    return ref[1].format(dict(SPELL)[spell](ref[0]))


def replay_intrinsic(w):
    bad = []
    for nm in w["names"]:
        ref = [r for r in INTRINSIC_REFS if r[0] == nm][0]
        stmt = _intrinsic_stmt(ref, w["spelling"])
        p = parserh.project_concrete({"a.f90": list(MODULE), "b.f90": _caller([stmt, "call foo(x)"])}, **PSET)
        got = sorted(_callnames(p))
        if got != ["foo"]:
            bad.append((stmt, got))
    return bool(bad), {"statements_and_recorded_calls": bad, "invoked_user_procedures": ["foo"]}


@obligation("C08", "O6.standard-intrinsics-never-recorded", engine="SX(CV)", timeout=1800)
def intrinsics_never_recorded(ctx):
    """a reference to any Fortran 2018 standard intrinsic function (`x = NAME(y)`) or subroutine (`call NAME(y)`), in three letter cases,
    next to a call of a user procedure: exactly the user procedure is recorded"""
    import ford.sourceform as sf
    import ford.intrinsics as fi

    ctx.encode_fn(sf.FortranContainer._add_procedure_calls)
    ctx.encode_text("INTRINSICS", repr(sorted(fi.INTRINSICS)))
    ctx.bounds.update({"intrinsic functions": len(F2018_FUNCTIONS), "intrinsic subroutines": len(F2018_SUBROUTINES), "letter cases": len(SPELL)})
    ctx.stubs.append("FortranReader replaced by the symbolic statement list")
    kf = ctx.known("C08-f2018-intrinsics-recorded", replay_intrinsic)
    # only the listed names that still fail are left out of the query: a listed name that is repaired is checked again
    skip = set()
    if kf:
        from fv import patch as _patch
        with _patch.suspended():
            skip = {nm for nm in kf["witness"]["names"] if replay_intrinsic({"names": [nm], "spelling": "lower"})[0]}

    def h(E):
        ref = CV.choice(E, "ref", INTRINSIC_REFS)
        sp = CV.choice(E, "spelling", [s_[0] for s_ in SPELL])
        h.state = (ref, sp)
        if skip:
            E.assume(choice.apply(lambda r: r[0] not in skip, ref))
        stmt = choice.apply(_intrinsic_stmt, ref, sp)
        p = parserh.project({"a.f90": list(MODULE), "b.f90": _caller([stmt, "call foo(x)"])}, **PSET)
        names = _callnames(p)
        E.reachable("correlated")
        got = choice.apply(lambda *n: sorted(n), *names) if names else []
        E.require(choice.apply(lambda g: list(g) == ["foo"], got), "a reference to a standard intrinsic procedure is recorded as a call")

    E = sym.Engine(ctx, max_paths=100000, incremental=True)
    found = E.explore(h)
    seen = set()
    for (label, m, pc), A in list(zip(found, E.autosnaps)):
        ref, sp = (choice.value_in_model(m, x) for x in A["state"])
        if (label, ref[0]) in seen:
            continue
        seen.add((label, ref[0]))
        ctx.report(label, {"names": [ref[0]], "spelling": sp}, replay_intrinsic)
    if E.reached.get("correlated"):
        ctx.twins += 1
    else:
        ctx.inconclusive.append("vacuity: correlate never completed")
    ctx.sample({"paths": E.paths, "excluded by the known finding": sorted(skip)})


# ---------------------------------------------------------------------------------------
# O7: the same in FIXED form: a statement continued in column 6, with comment or blank lines in between, records the same calls
# ---------------------------------------------------------------------------------------
FX_FIRST = [("      if (x .gt. 0 .and.", "     &    y .gt. 0) call noargs", ["noargs"]),
            ("      if (chk(x) .and.", "     1    more(y)) call foo(x)", ["chk", "more", "foo"]),
            ("      x = bar(y) +", "     +    baz(y)", ["bar", "baz"]),
            ("      call", "     &  noargs", ["noargs"]),
            ("      call foo(", "     $  bar(y))", ["foo", "bar"])]
FX_BETWEEN = [None, "c        a comment line", "C", "*     starred comment", "!     banged comment", "", "      "]


def _fx_lines(first, between):
    mid = [between] if between is not None else []
    return ["      subroutine caller(obj, buf)", "      use procs", "      integer x, y", first[0]] + mid + [first[1], "      call trun(obj)", "      end subroutine caller"]


def replay_fixed_calls(w):
    import ford.sourceform as sf
    old = sf.namelist
    sf.namelist = sf.NameSelector()
    try:
        p = parserh.project_concrete({"a.f90": list(MODULE), "b.f": list(w["lines"])}, physical=("b.f",), **PSET)
        got = sorted(_callnames(p))
    except Exception as e:  # noqa
        return True, {"fixed-form lines": w["lines"], "ford": "raised " + repr(e)[:200]}
    finally:
        sf.namelist = old
    want = sorted(set(w["expected"]))
    return got != want, {"fixed-form lines": w["lines"], "ford_calls": got, "invoked": want}


@obligation("C08", "O7.calls-in-fixed-form", engine="SX(CV)", timeout=900)
def calls_fixed(ctx):
    """fixed-form caller with one statement continued in column 6 (five marker characters) and a symbolic comment / blank line between the
    two physical lines, read by the real converter and reader: recorded calls = procedures invoked"""
    import ford.fixed2free2 as ff
    import ford.reader as rd
    import ford.sourceform as sf

    ctx.encode_fn(ff.convertToFree)
    ctx.encode_fn(ff.FortranLine.continueLine)
    ctx.encode_fn(rd.FortranReader.__next__)
    ctx.encode_fn(sf.FortranContainer._add_procedure_calls)
    ctx.bounds.update({"continued statements": len(FX_FIRST), "lines in between": len(FX_BETWEEN)})

    def h(E):
        fi = CV.choice(E, "first", list(range(len(FX_FIRST)))).concretize()
        bi = CV.choice(E, "between", list(range(len(FX_BETWEEN)))).concretize()   # the number of physical lines differs
        lines = _fx_lines(FX_FIRST[fi], FX_BETWEEN[bi])
        snap = {"lines": lines, "expected": sorted(FX_FIRST[fi][2] + ["trun"])}
        E.e.snapshot = lambda m: dict(snap)
        from fv import patch as _p
        with _p.suspended():
            bad, detail = replay_fixed_calls(snap)
        E.reachable("read")
        E.require(not bad, "recorded calls of a continued fixed-form statement differ from the procedures invoked")

    E = sym.Engine(ctx, max_paths=500, incremental=True)
    found = E.explore(h)
    seen = set()
    for (label, m, pc), snap in zip(found, E.snapshots):
        if not snap or str(snap["lines"]) in seen:
            continue
        seen.add(str(snap["lines"]))
        ctx.report(label, snap, replay_fixed_calls)
        if len(seen) >= 4:
            break
    if E.reached.get("read"):
        ctx.twins += 1
    else:
        ctx.inconclusive.append("vacuity: nothing read")
    ctx.sample({"paths": E.paths})


# ---------------------------------------------------------------------------------------
# O8: an ASSOCIATE name bound to a function result: the function is invoked once (by the ASSOCIATE statement), however often the name is
# used or subscripted inside the construct
# ---------------------------------------------------------------------------------------
AS_OPEN = [("associate (v => bar(y))", ["bar"]), ("ASSOCIATE (V => BAZ(Y))", ["baz"]), ("associate (v => bar(baz(y)))", ["bar", "baz"]),
           ("associate (v => arr)", [])]
AS_USE = [("x = v(1)", []), ("x = v(1) + pick(v(2))", ["pick"]), ("call foo(v(3))", ["foo"]), ("x = V(2) + v(1)", []), ("continue", []),
          ("x = bar(v(1))", ["bar"])]


def replay_assoc_fn(w):
    return replay_calls({"stmts": w["stmts"], "expected": w["expected"]})


@obligation("C08", "O8.associate-name-bound-to-function-result", engine="SX(CV)", timeout=900)
def assoc_function(ctx):
    """ASSOCIATE construct whose selector is a symbolic function reference (or an array), with two symbolic statements that use / subscript
    the associate name: recorded calls = the selector's functions and the procedures invoked in the body, each once"""
    import ford.sourceform as sf

    ctx.encode_fn(sf.FortranContainer._add_procedure_calls)
    ctx.encode_text("Associations", __import__("inspect").getsource(sf.Associations), "python-source")
    ctx.bounds.update({"selectors": len(AS_OPEN), "body statements": len(AS_USE)})

    def h(E):
        o = CV.choice(E, "open", AS_OPEN)
        a = CV.choice(E, "s1", AS_USE)
        b = CV.choice(E, "s2", AS_USE)
        lines = [o[0], a[0], b[0], "end associate"]
        h.state = (o, a, b)
        p = parserh.project({"a.f90": list(MODULE), "b.f90": _caller(lines)}, **PSET)
        names = _callnames(p)
        E.reachable("correlated")
        want = choice.apply(lambda x, y, z: sorted(set(x) | set(y) | set(z)), o[1], a[1], b[1])
        h.want = want
        got = choice.apply(lambda *n: sorted(n), *names) if names else []
        E.require(choice.apply(lambda g, w_: list(g) == list(w_), got, want), "recorded calls differ from the procedures invoked (each once)")

    E = sym.Engine(ctx, max_paths=20000, incremental=True)
    found = E.explore(h)
    seen = set()
    for (label, m, pc), A in list(zip(found, E.autosnaps)):
        if label in seen:
            continue
        seen.add(label)
        o, a, b = (choice.value_in_model(m, x) for x in A["state"])
        ctx.report(label, {"stmts": [o[0], a[0], b[0], "end associate"], "expected": choice.value_in_model(m, A["want"])}, replay_assoc_fn)
    if E.reached.get("correlated"):
        ctx.twins += 1
    else:
        ctx.inconclusive.append("vacuity: correlate never completed")
    ctx.sample({"paths": E.paths})


# ---------------------------------------------------------------------------------------
# O9: inside a FUNCTION: a recursive reference to the function is a call, a parenthesised reference to its result variable is not
# ---------------------------------------------------------------------------------------
FN_HEADS = [("recursive integer function fact(n) result(r)", "fact", "r", ["integer :: n"]),
            ("integer recursive function fact(n) result(r)", "fact", "r", ["integer :: n"]),
            ("recursive function fact(n) result(r)", "fact", "r", ["integer :: n, r"]),
            ("character(len=4) function fact(n) result(r)", "fact", "r", ["integer :: n"]),
            ("RECURSIVE INTEGER FUNCTION FACT(N) RESULT(R)", "fact", "r", ["integer :: n"]),
            ("integer function fact(n)", "fact", "fact", ["integer :: n"])]
FN_BODY = [("{r} = n * fact(n - 1)", True, True), ("{r}(1:1) = 'x'", False, False), ("if (n > 1) {r} = max(fact(n - 1), bar(n))", True, True),
           ("{r} = bar(n)", False, True), ("{r} = n", False, False)]


def _fn_program(head, body):
    h_, fname, rname, decls = head
    return ["module fm", "contains", "function bar(a)", "integer :: a, bar", "end function bar", h_] + list(decls) + [body.replace("{r}", rname), "end function", "end module fm"]


def _fn_expected(head, body):
    text, selfref, _ = body
    rname = head[2]
    out = set()
    # a function without RESULT clause cannot reference itself recursively: `fact(...)` there denotes the result variable
    if selfref and rname != head[1]:
        out.add("fact")
    if "bar(" in text:
        out.add("bar")
    return sorted(out)


def _fn_observe(p):
    f = [x for x in p.procedures if str(x.name).lower() == "fact"][0]
    return sorted(str(getattr(c, "name", c)).lower() for c in f.calls)


def replay_fn_calls(w):
    head, body = FN_HEADS[w["head"]], FN_BODY[w["body"]]
    p = parserh.project_concrete({"a.f90": _fn_program(head, body[0])}, **PSET)
    got = _fn_observe(p)
    want = _fn_expected(head, body)
    return got != want, {"program": _fn_program(head, body[0]), "ford_calls": got, "invoked": want}


@obligation("C08", "O9.calls-inside-functions", engine="SX(CV)", timeout=600)
def calls_in_functions(ctx):
    """a function whose heading is symbolic (type in the prefix or in the body, RESULT clause or not, letter case) with a symbolic body
    statement (recursive self reference, substring of the result variable, other calls): recorded calls = procedures invoked"""
    import ford.sourceform as sf

    ctx.encode_fn(sf.FortranFunction._initialize)
    ctx.encode_fn(sf.FortranContainer._add_procedure_calls)
    ctx.encode_fn(sf.FortranCodeUnit._find_chain_item)
    ctx.bounds.update({"headings": len(FN_HEADS), "body statements": len(FN_BODY)})

    def h(E):
        hi = CV.choice(E, "head", list(range(len(FN_HEADS)))).concretize()
        bi = CV.choice(E, "body", list(range(len(FN_BODY)))).concretize()
        # a function named like its result cannot be referenced recursively (and `fact(1:1)` needs a character result)
        if FN_HEADS[hi][2] == FN_HEADS[hi][1] and FN_BODY[bi][1]:
            E.assume(False)
            return
        if "(1:1)" in FN_BODY[bi][0] and not FN_HEADS[hi][0].lower().startswith("character"):
            E.assume(False)
            return
        snap = {"head": hi, "body": bi}
        E.e.snapshot = lambda m: dict(snap)
        got = parserh.project({"a.f90": _fn_program(FN_HEADS[hi], FN_BODY[bi][0])}, post=_fn_observe, **PSET)
        E.reachable("correlated")
        E.require(list(got) == _fn_expected(FN_HEADS[hi], FN_BODY[bi]), "recorded calls of a function differ from the procedures it invokes")

    E = sym.Engine(ctx, max_paths=500, incremental=True)
    found = E.explore(h)
    seen = set()
    for (label, m, pc), snap in zip(found, E.snapshots):
        if not snap or (snap["head"], snap["body"]) in seen:
            continue
        seen.add((snap["head"], snap["body"]))
        ctx.report(label, snap, replay_fn_calls)
        if len(seen) >= 4:
            break
    if E.reached.get("correlated"):
        ctx.twins += 1
    else:
        ctx.inconclusive.append("vacuity: correlate never completed")
    ctx.sample({"paths": E.paths})
