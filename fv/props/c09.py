"""C09 — every internal link resolves (kernel: link conditions imply page-creation conditions)."""
import z3

from fv import jx, fordrun
from fv.core import obligation
from fv.props import META

META["C09"] = {
    "explanation": "Kernel of C09: for every statically known internal URL written by the Jinja templates (list pages, "
    "search/index page, project.<list>[k] single-page fall-backs) the conjunction of the enclosing template conditions "
    "implies the condition under which Documentation.__init__/writeout create that page, for ALL project shapes "
    "(sizes are unbounded integers) and option flags.  Conditions are regenerated from the template files and from "
    "ford/output.py on every run.",
    "outside": ["fragment identifiers", "SVG graph links", "search index URLs", "relurl/relative_url (BeautifulSoup, pathlib.resolve)",
                "links produced by get_url of entities (C10/C09-O2)", "user supplied html_template_dir"],
    "assumptions": ["template names assigned with {% set %} and conditions JX cannot interpret are left unconstrained "
                    "(over-approximates link emission; every model is replayed by a real FORD run)"],
}

SHAPE_LISTS = ["files", "extra_files", "modules", "submodules", "procedures", "types", "programs", "blockdata",
               "absinterfaces", "namelists"]


def gen_project(w):
    """smallest project with (approximately) the sizes of the witness"""
    n = {k: int(w.get("n_" + k, 0) or 0) for k in SHAPE_LISTS}
    files = {}
    for i in range(n["programs"]):
        files[f"prog{i}.f90"] = f"program p{i}\n!! prog\nend program p{i}\n"
    body = ""
    for i in range(n["types"]):
        body += f"type :: t{i}\n!! a type\ninteger :: c\nend type t{i}\n"
    for i in range(n["absinterfaces"]):
        body += f"abstract interface\nsubroutine ai{i}()\nend subroutine ai{i}\nend interface\n"
    nl = ""
    for i in range(n["namelists"]):
        nl += f"integer :: v{i}\nnamelist /nl{i}/ v{i}\n"
    nmods = n["modules"]
    host_needed = bool(body or nl)
    for i in range(nmods):
        files[f"mod{i}.f90"] = f"module m{i}\n!! mod\n" + (body if i == 0 else "") + "contains\n" + (
            f"subroutine nlhost()\n{nl}end subroutine nlhost\n" if (i == 0 and nl) else "") + f"end module m{i}\n"
    for i in range(n["submodules"]):
        files[f"smod{i}.f90"] = f"submodule (m0) sm{i}\nend submodule sm{i}\n"
    nproc = n["procedures"]
    if nmods == 0 and host_needed and nproc == 0 and n["programs"] > 0:
        files["prog0.f90"] = f"program p0\n{body}{nl}end program p0\n"
    for i in range(nproc):
        extra = (body + nl) if (i == 0 and nmods == 0 and host_needed) else ""
        files[f"proc{i}.f90"] = f"subroutine s{i}()\n!! proc\n{extra}end subroutine s{i}\n"
    for i in range(n["blockdata"]):
        files[f"bd{i}.f90"] = f"block data bd{i}\ninteger :: x{i}\ncommon /c{i}/ x{i}\nend block data bd{i}\n"
    k = 0
    while len(files) < max(1, n["files"]):
        files[f"empty{k}.f90"] = "! nothing here\n"
        k += 1
    return files


def replay_links(w):
    """Build the project, run the real FORD, report broken internal .html links."""
    opts = {"incl_src": str(bool(w.get("b_incl_src", True))).lower(), "search": str(bool(w.get("b_search", True))).lower()}
    d, out, rc, log = fordrun.run_ford(gen_project(w), opts)
    try:
        if rc != 0:
            return False, f"ford run failed rc={rc}: {log[-800:]}"
        bad = fordrun.broken_links(out)
        want = w.get("target")
        hit = [b for b in bad if (want is None or str(want) in b[1])]
        return bool(hit), {"broken": hit[:10], "all_broken": len(bad), "files": sorted(gen_project(w))}
    finally:
        fordrun.cleanup(d)


def _model_to_w(m, shape, site):
    w = {}
    for k, v in shape.V.items():
        val = m.eval(v, model_completion=True)
        w[k] = (val.as_long() if z3.is_int_value(val) else z3.is_true(val))
    w["template"] = site["template"]
    w["line"] = site["line"]
    w["target"] = site["target"] if isinstance(site["target"], str) else None
    return w


@obligation("C09", "O1.link-implies-page", engine="JX", timeout=900)
def link_implies_page(ctx):
    """every statically known internal link in the templates is emitted only when its target page is created"""
    sh = jx.Shape()
    sites = jx.template_sites(sh, ctx)
    pages = jx.page_conditions(sh, ctx)
    facts = jx.main_facts(sh, ctx)
    ctx.bounds.update({"sizes": "unbounded non-negative integers", "flags": "all combinations"})
    ctx.assumptions.append("the project contains at least one program unit (an all-comment project makes FORD divide by zero "
                           "in lines_description; outside C09)")
    ctx.stubs.append("Jinja names assigned by {% set %} and untranslatable conditions: unconstrained booleans")
    if len(sites) < 10 or len(pages) < 8:
        ctx.inconclusive.append(f"extraction found only {len(sites)} link sites / {len(pages)} page conditions")
    for k, v in pages.items():
        ctx.sample({"page": k, "created_when": str(v)})
    kf = ctx.known("C09-index-files-list", replay_links)
    for st in sites:
        conds = st["conds"]
        if st["kind"] == "list":
            page = pages.get(st["target"], z3.BoolVal(False))
        elif st["kind"] == "top":
            page = pages.get("TOP:" + st["target"], z3.BoolVal(False))
        else:
            name, idx = st["target"]
            page = sh.size(name) >= idx + 1
        base = sh.facts() + facts + conds + [
            sh.size("programs") + sh.size("modules") + sh.size("procedures") + sh.size("blockdata") + sh.size("submodules") >= 1]
        label = f"{st['template']}:{st['line']} -> {st['target']}"
        excl = []
        if kf and st["template"] == "index.html" and st["target"] == "files.html":
            excl = [z3.Not(z3.And(sh.flag("incl_src"), sh.size("files") + sh.size("extra_files") <= 1))]
        ctx.twin(label + " reachable", base, 30)
        r, m = ctx.solve(label, base + excl + [z3.Not(page)], 60)
        if r == "sat":
            ctx.report(label, _model_to_w(m, sh, st), replay_links)


# ---------------------------------------------------------------------------------------
# O2: an entity whose URL is a page of its own is among the entities Documentation creates pages for
# ---------------------------------------------------------------------------------------
import ast as _ast
import inspect as _inspect
import textwrap as _textwrap

from fv import sym as _sym, choice as _choice, parserh as _parserh
from fv.choice import CV as _CV


def page_lists():
    """names of the project lists Documentation.__init__ creates entity pages from (read from its AST)"""
    import ford.output as out

    tree = _ast.parse(_textwrap.dedent(_inspect.getsource(out.Documentation.__init__)))
    names = []
    for n in _ast.walk(tree):
        if isinstance(n, _ast.Tuple) and len(n.elts) == 2 and isinstance(n.elts[0], _ast.Attribute) \
                and isinstance(n.elts[0].value, _ast.Name) and n.elts[0].value.id == "project" and isinstance(n.elts[1], _ast.Name):
            names.append(n.elts[0].attr)
    return names


NL = "namelist /cfg/ a"
HOSTS = ["module-procedure", "external-subroutine", "external-function", "program", "program-internal"]
TYPE_HOSTS = ["module", "program", "external-subroutine"]


def _page_files(nl_host, ty_host):
    def at(h_, stmt):
        return _choice.apply(lambda x: stmt if x == h_ else "continue", nl_host)

    def ty(h_):
        return [_choice.apply(lambda x: "type tt" if x == h_ else "integer :: dummy_a", ty_host), "integer :: c",
                _choice.apply(lambda x: "contains" if x == h_ else "integer :: dummy_c", ty_host),
                _choice.apply(lambda x: "procedure, nopass :: bp => mproc" if x == h_ else "integer :: dummy_d", ty_host),
                _choice.apply(lambda x: "end type tt" if x == h_ else "integer :: dummy_b", ty_host)]
    return {
        "m.f90": ["module mm"] + ty("module") + ["contains", "subroutine mproc()", "integer :: a", at("module-procedure", NL), "end subroutine mproc",
                  "end module mm"],
        "e.f90": ["subroutine esub()"] + ty("external-subroutine") + ["integer :: a", at("external-subroutine", NL), "end subroutine esub",
                  "function efun()", "integer :: a, efun", at("external-function", NL), "end function efun"],
        "p.f90": ["program pp"] + ty("program") + ["integer :: a", at("program", NL), "contains", "subroutine pint()", "integer :: a",
                  at("program-internal", NL), "end subroutine pint", "end program pp"],
    }


def _pages_observe(p, lists):
    """[(class, name, url, listed, pages)] of every entity that has a URL: `listed` says whether it is in one of the page lists, `pages`
    are the URLs of the entities in those lists (an anchor URL must point into one of them)"""
    have = []
    for l in lists:
        v = getattr(p, l, None)
        if v is not None:
            have.extend(list(v))
    missing = []

    def walk(e, seen):
        if any(e is s_ for s_ in seen):
            return
        seen.append(e)
        u = e.get_url() if hasattr(e, "get_url") else None
        if u is not None and not isinstance(e, type(p.files[0])):
            missing.append((type(e).__name__, getattr(e, "name", "?"), u, any(e is h_ for h_ in have), pages))
        for l in ("modules", "submodules", "programs", "blockdata", "subroutines", "functions", "types", "interfaces", "absinterfaces",
                  "namelists", "modprocedures", "variables", "boundprocs", "args"):
            for x in getattr(e, l, []) or []:
                if hasattr(x, "get_url"):
                    walk(x, seen)
    pages = [h_.get_url() for h_ in have]
    seen = []
    for f in p.files:
        walk(f, seen)
    return missing


def _anchor_ok(u, *pages):
    """an anchor URL is `<URL of a created page>#<fragment>`"""
    u = str(u)
    if "#" not in u:
        return True
    page, frag = u.split("#", 1)
    return bool(page) and bool(frag) and page in [str(x) for x in pages]


def replay_pages(w):
    import io, contextlib
    lists = page_lists()
    with contextlib.redirect_stdout(io.StringIO()), contextlib.redirect_stderr(io.StringIO()):
        p = _parserh.project_concrete(_page_files(w["nl_host"], w["ty_host"]), proc_internals=True, display=["public", "private", "protected"])
    obs = _pages_observe(p, lists)
    bad = [(c, n, u) for c, n, u, ok, pages in obs if "#" not in u and not ok]
    bad2 = [(c, n, u) for c, n, u, ok, pages in obs if not _anchor_ok(u, *pages)]
    return bool(bad or bad2), {"files": _page_files(w["nl_host"], w["ty_host"]), "entities_with_a_page_url_but_no_page": bad,
                               "entities_whose_anchor_url_points_into_no_created_page": bad2}


@obligation("C09", "O2.page-url-implies-page", engine="SX(CV)", timeout=900)
def page_url_implies_page(ctx):
    """symbolic project (a namelist and a derived type placed in every kind of host scope): every entity whose get_url() is a page of its
    own is in one of the project lists from which Documentation creates pages, and every anchor URL (components, bound procedures, entities shown
    on their host's page) is `<URL of such a page>#<fragment>`"""
    import io, contextlib
    import ford.output as out
    import ford.sourceform as sf
    import ford.fortran_project as fp

    lists = page_lists()
    ctx.encode_fn(out.Documentation.__init__)
    ctx.encode_fn(fp.Project._fortran_file)
    ctx.encode_fn(fp.Project.correlate)
    ctx.encode_fn(sf.FortranBase.get_url)
    if len(lists) < 8:
        ctx.inconclusive.append(f"only {len(lists)} page lists recovered from Documentation.__init__")
    ctx.bounds.update({"namelist hosts": HOSTS, "type hosts": TYPE_HOSTS, "page lists": lists})

    def h(E):
        nh = _CV.choice(E, "nl_host", HOSTS)
        th = _CV.choice(E, "ty_host", TYPE_HOSTS)
        E.e.snapshot = lambda m: {"nl_host": _choice.value_in_model(m, nh), "ty_host": _choice.value_in_model(m, th)}
        with contextlib.redirect_stdout(io.StringIO()), contextlib.redirect_stderr(io.StringIO()):
            obs = _parserh.project(_page_files(nh, th), post=lambda p: _pages_observe(p, lists), proc_internals=True,
                                   display=["public", "private", "protected"])
        E.reachable("observed")
        for cls, name, url, ok, pages in obs:
            own_page = _choice.apply(lambda u: "#" not in str(u), url)
            E.require(_choice.apply(lambda o, k: (not o) or k, own_page, ok), f"{cls} has a page URL but no page is created for it")
            E.require(_choice.apply(_anchor_ok, url, *pages), f"{cls} has an anchor URL that points into no created page")

    E = _sym.Engine(ctx, max_paths=5000, incremental=True)
    found = E.explore(h)
    seen = set()
    for (label, m, pc), snap in zip(found, E.snapshots):
        if label in seen:
            continue
        seen.add(label)
        ctx.report(label, snap, replay_pages)
    if E.reached.get("observed"):
        ctx.twins += 1
    else:
        ctx.inconclusive.append("vacuity: nothing observed")
    ctx.sample({"paths": E.paths})


# ---------------------------------------------------------------------------------------
# O3: links carried by graph nodes (the SVG <a xlink:href>) resolve exactly like the entity's own URL
# ---------------------------------------------------------------------------------------
from urllib.parse import unquote as _unquote  # noqa: E402

BOUND = [("procedure :: area => area_impl", "area"), ("procedure :: Area => area_impl", "area"), ("PROCEDURE :: AREA => AREA_IMPL", "area"),
         ("procedure :: area_2 => area_impl", "area_2")]
INNER = [("accumulate", "call accumulate()"), ("Accumulate", "call accumulate()"), ("acc_2", "call acc_2()")]
CALLS9 = [("x = s%area()", ), ("x = S%AREA()", ), ("x = s%area_2()", )]
G9SET = dict(proc_internals=True, graph=True)  # default display: the private implementation is hidden, so the binding itself is the node


def _g9_files(bound, inner):
    nm = bound[1] if not isinstance(bound, CV) else choice.apply(lambda b: b[1], bound)
    call = choice.apply(lambda n: f"x = s%{n}()", nm) if isinstance(nm, CV) else f"x = s%{nm}()"
    return {"a.f90": ["module shapes", "type shape_t", "real :: r", "contains", bound[0], "end type shape_t",
                      "interface operator(+)", "module procedure addp", "end interface", "private :: area_impl", "contains",
                      "function area_impl(self)", "class(shape_t) :: self", "real :: area_impl", "end function area_impl",
                      "function addp(a, b)", "type(shape_t), intent(in) :: a, b", "type(shape_t) :: addp", "end function addp",
                      "subroutine total_area(s)", "type(shape_t) :: s", "real :: x", call, inner[1], "contains",
                      choice.apply(lambda i: f"subroutine {i}()", inner[0]) if isinstance(inner[0], CV) else f"subroutine {inner[0]}()",
                      "end subroutine", "end subroutine total_area", "end module shapes"],
            "b.f90": ["program main", "use shapes", "type(shape_t) :: s", "call total_area(s)", "end program main"]}


def _g9_observe(p):
    """(graph node URL, entity URL) for every node of a project entity; pages and ids that exist"""
    import ford.graphs as gr
    gd = gr.GraphData("../", False, False)
    for lst in (p.types, p.procedures, p.submodprocedures, p.modules, p.submodules, p.programs, p.files, p.blockdata):
        for e in lst:
            gd.register(e)
    nodes = []
    for coll in (gd.modules, gd.submodules, gd.programs, gd.procedures, gd.types, gd.sourcefiles, gd.blockdata,
                 getattr(gd, "internal_procedures", {}), getattr(gd, "bound_procedures", {})):
        for obj, n in (coll.items() if hasattr(coll, "items") else []):
            if getattr(n, "fromstr", True):
                continue
            nodes.append((type(obj).__name__, obj.name, n.attribs.get("URL"), obj.get_url(), getattr(obj, "visible", True)))
    return nodes


def link_resolves_like(url, own):
    """does `../<url>` name the same page and the same element id as the entity's own URL `own`?  The file part is
    percent-decoded by the server / file system, the fragment matches an id literally or after percent-decoding (HTML 7.4.6.3)"""
    if url is None or own is None:
        return url is None or own is None
    if not url.startswith("../"):
        return False
    url = url[3:]
    path, _, frag = url.partition("#")
    opath, _, ofrag = own.partition("#")
    if _unquote(path) != _unquote(opath):
        return False
    return frag == ofrag or _unquote(frag) == ofrag


def replay_g9(w):
    import ford.sourceform as sf
    old = sf.namelist
    sf.namelist = sf.NameSelector()
    try:
        p = parserh.project_concrete(_g9_files(tuple(w["bound"]), tuple(w["inner"])), **G9SET)
        nodes = _g9_observe(p)
    finally:
        sf.namelist = old
    bad = [(c, str(n), u, o) for c, n, u, o, vis in nodes if vis and not link_resolves_like(u, o)]
    return bool(bad), {"bound": w["bound"], "inner": w["inner"], "graph links that do not resolve (class, name, node URL, entity URL)": bad[:6]}


from fv import sym, choice, parserh  # noqa: E402
from fv.choice import CV  # noqa: E402


@obligation("C09", "O3.graph-node-links", engine="SX(CV)", timeout=900)
def graph_node_links(ctx):
    """every graph node of a project entity (modules, types, procedures, programs, files, internal and type-bound procedures whose
    URL is page#anchor) links to the page and element id the entity's own URL names, for symbolic binding / procedure names"""
    import ford.graphs as gr
    import ford.sourceform as sf

    ctx.encode_fn(gr.BaseNode.__init__)
    ctx.encode_fn(gr.GraphData.register)
    ctx.encode_fn(gr.GraphData.get_node)
    ctx.encode_fn(sf.FortranBase.get_url)
    ctx.bounds.update({"binding spellings": len(BOUND), "internal procedure names": len(INNER)})
    ctx.stubs.append("no graph is laid out (graphviz is not run): only the node attributes are inspected")

    def h(E):
        b = CV.choice(E, "bound", BOUND)
        i = CV.choice(E, "inner", INNER)
        E.e.snapshot = lambda m: {"bound": list(choice.value_in_model(m, b)), "inner": list(choice.value_in_model(m, i))}
        nodes = parserh.project(_g9_files(b, i), post=_g9_observe, post_modules=(gr,), **G9SET)
        E.reachable("nodes")
        kinds = set()
        for c, n, u, o, vis in nodes:
            if not vis:
                continue
            kinds.add(c)
            E.require(choice.apply(link_resolves_like, u, o), f"graph node of a {c} links somewhere else than the entity's own URL")
        if "FortranBoundProcedure" in kinds and any(k in kinds for k in ("FortranSubroutine", "FortranFunction")):
            E.reachable("bound and internal procedure nodes")

    E = sym.Engine(ctx, max_paths=5000, incremental=True)
    found = E.explore(h)
    seen = set()
    for (label, m, pc), snap in zip(found, E.snapshots):
        if label in seen or not snap:
            continue
        seen.add(label)
        ctx.report(label, snap, replay_g9)
    for lab in ("nodes", "bound and internal procedure nodes"):
        if E.reached.get(lab):
            ctx.twins += 1
        else:
            ctx.inconclusive.append(f"vacuity: '{lab}' never reached")
    ctx.sample({"paths": E.paths})


# ---------------------------------------------------------------------------------------
# O4: the "Read more" link that FortranBase.markdown() appends to a summary points at the entity's own page: a summary may
# only be printed for an entity that has one, i.e. a visible entity
# ---------------------------------------------------------------------------------------
def _docstring_macro_sites():
    """[(condition term over Bool full_docstring / Bool visible, line)] for every summary print inside macro `docstring`"""
    import os
    import ford.output as out
    from jinja2 import nodes

    path = os.path.join(os.path.dirname(out.__file__), "templates", "macros.html")
    src = open(path).read()
    tree = out.env.parse(src)
    full, vis = z3.Bool("full_docstring"), z3.Bool("entity_visible")
    unknown = []

    def truth(e, ent):
        if isinstance(e, nodes.Name):
            if e.name == "full_docstring":
                return full
            unknown.append(z3.Bool(f"unknown_{len(unknown)}"))
            return unknown[-1]
        if isinstance(e, nodes.Getattr) and isinstance(e.node, nodes.Name) and e.node.name == ent and e.attr == "visible":
            return vis
        if isinstance(e, nodes.Not):
            return z3.Not(truth(e.node, ent))
        if isinstance(e, nodes.And):
            return z3.And(truth(e.left, ent), truth(e.right, ent))
        if isinstance(e, nodes.Or):
            return z3.Or(truth(e.left, ent), truth(e.right, ent))
        unknown.append(z3.Bool(f"unknown_{len(unknown)}"))  # unconstrained: the summary may be printed
        return unknown[-1]

    sites = []

    def prints_summary(n, ent):
        for f in n.find_all(nodes.Filter):
            if f.name == "meta" and f.args and isinstance(f.args[0], nodes.Const) and f.args[0].value == "summary" \
                    and isinstance(f.node, nodes.Name) and f.node.name == ent:
                return True
        return False

    def summary_conditions(n, ent):
        """conditions (lists of z3 terms, from inline `a if c else b` expressions) under which node n prints the entity's summary"""
        def is_summary(f):
            return isinstance(f, nodes.Filter) and f.name == "meta" and f.args and isinstance(f.args[0], nodes.Const) \
                and f.args[0].value == "summary" and isinstance(f.node, nodes.Name) and f.node.name == ent
        out = []

        def rec(e, cs):
            if is_summary(e):
                out.append(list(cs))
                return
            if isinstance(e, nodes.CondExpr):
                c = truth(e.test, ent)
                rec(e.expr1, cs + [c])
                if e.expr2 is not None:
                    rec(e.expr2, cs + [z3.Not(c)])
                return
            for ch in e.iter_child_nodes():
                rec(ch, cs)
        rec(n, [])
        return out

    def walk(body, conds, ent):
        for n in body:
            if isinstance(n, nodes.If):
                c = truth(n.test, ent)
                walk(n.body, conds + [c], ent)
                neg = [z3.Not(c)]
                for el in n.elif_:
                    ce = truth(el.test, ent)
                    walk(el.body, conds + neg + [ce], ent)
                    neg.append(z3.Not(ce))
                walk(n.else_, conds + neg, ent)
            elif isinstance(n, nodes.Output):
                for extra in summary_conditions(n, ent):
                    cs = conds + extra
                    sites.append((z3.And(*cs) if cs else z3.BoolVal(True), n.lineno))
            else:
                for fld in ("body", "else_"):
                    v = getattr(n, fld, None)
                    if isinstance(v, list):
                        walk(v, conds, ent)

    macros = [m for m in tree.find_all(nodes.Macro) if m.name == "docstring"]
    for m in macros:
        ent = m.args[0].name
        walk(m.body, [], ent)
    return src, sites, vis, full, len(macros)


G9B = {"a.f90": ["module shapes", "private", "public :: circle", "type circle", "real :: r", "contains", "procedure :: area => circle_area",
                 "end type circle", "contains", "function circle_area(self)", "!! First paragraph of the summary.", "!!",
                 "!! Second paragraph: the full text is longer than the summary.", "class(circle) :: self", "real :: circle_area",
                 "end function circle_area", "end module shapes"]}


def replay_summary_link(w):
    files = {k: "\n".join(v) + "\n" for k, v in G9B.items()}
    d, outdir, rc, log = fordrun.run_ford(files, {"search": "false"})
    try:
        broken = fordrun.broken_links(outdir) if rc == 0 else [("ford failed", log[-300:])]
    finally:
        import shutil
        shutil.rmtree(d, ignore_errors=True)
    return bool(broken), {"project": "module with default private, public type with a binding to a private, documented (two paragraphs) procedure",
                          "broken links": broken[:5]}


@obligation("C09", "O4.summary-link-implies-page", engine="JX", timeout=300)
def summary_link(ctx):
    """macro `docstring`: every branch that prints an entity's summary (which ends in a "Read more" link to the entity's page) is
    guarded by a condition that implies `entity.visible` (hidden entities have no page)"""
    import ford.sourceform as sf

    src, sites, vis, full, nm = _docstring_macro_sites()
    ctx.encode_text("templates/macros.html", src, "jinja-template")
    ctx.encode_fn(sf.FortranBase.markdown)
    ctx.bounds.update({"macros": "docstring", "summary print sites": len(sites), "operands": "every truthiness"})
    if nm != 1 or not sites:
        ctx.inconclusive.append(f"macro `docstring` / its summary print site not found ({nm} macros, {len(sites)} sites)")
        return
    if "Read more" not in __import__("inspect").getsource(sf.FortranBase.markdown):
        ctx.inconclusive.append("FortranBase.markdown no longer appends a 'Read more' link: obligation needs review")
        return
    for cond, line in sites:
        ctx.twin(f"macros.html:{line} summary can be printed", [cond])
        r, m = ctx.solve(f"macros.html:{line}: summary printed ⇒ entity.visible", [cond, z3.Not(vis)])
        if r == "sat":
            ctx.report(f"macros.html:{line}: a hidden entity's summary (with its 'Read more' link) is printed",
                       {"full_docstring": z3.is_true(m.eval(full, model_completion=True)), "entity.visible": False}, replay_summary_link)
    ctx.sample({"sites": [l for _, l in sites]})


# ---------------------------------------------------------------------------------------
# O5: an entity printed by a template becomes `<a href='ABSOLUTE output path'>` (FortranBase.__str__); only the `relurl` filter
# makes it relative.  Every reachable print site of an entity-valued expression must pass through it.
# ---------------------------------------------------------------------------------------
ENTITY_ATTRS = {"bindings", "uses", "ancestry", "calls", "extends", "proto", "ancestor", "procedure", "retvar", "prototype"}
NON_LINK_FILTERS = {"length", "count", "first", "last", "meta", "striptags", "lower", "upper"}
O5_PROJECT = {"a.f90": """module shapes
  type circle
    real :: r
  contains
    procedure :: area => circle_area
    procedure :: grow, shrink
    generic :: resize => grow, shrink
  end type circle
  type, extends(circle) :: disc
  end type disc
  abstract interface
    function maker(x)
      import circle
      real :: x
      type(circle) :: maker
    end function maker
  end interface
  interface
    function extmaker(x)
      import circle
      real :: x
      type(circle) :: extmaker
    end function extmaker
  end interface
contains
  function circle_area(self)
    !! doc
    class(circle) :: self
    real :: circle_area
  end function circle_area
  subroutine grow(self)
    class(circle) :: self
  end subroutine grow
  subroutine shrink(self)
    class(circle) :: self
    call grow(self)
  end subroutine shrink
end module shapes
program main
  use shapes
  type(disc) :: d
  call d%resize()
end program main
"""}


def _raw_entity_sites():
    import glob
    import os
    import ford.output as out
    from jinja2 import nodes

    def strip(e):
        rel = False
        while isinstance(e, nodes.Filter):
            if e.name == "relurl" or (e.name == "map" and e.args and isinstance(e.args[0], nodes.Const) and e.args[0].value == "relurl"):
                rel = True
            if e.name in NON_LINK_FILTERS:
                return None, rel
            e = e.node
        return e, rel

    def cond(e, names):
        """template condition -> z3 Bool over fresh propositional atoms (one per distinct sub-expression text)"""
        if isinstance(e, nodes.Not):
            return z3.Not(cond(e.node, names))
        if isinstance(e, nodes.And):
            return z3.And(cond(e.left, names), cond(e.right, names))
        if isinstance(e, nodes.Or):
            return z3.Or(cond(e.left, names), cond(e.right, names))
        if isinstance(e, nodes.Const):
            return z3.BoolVal(bool(e.value))
        key = repr(e)
        return names.setdefault(key, z3.Bool(f"c{len(names)}"))

    tdir = os.path.join(os.path.dirname(out.__file__), "templates")
    sites, texts = [], {}
    for path in sorted(glob.glob(os.path.join(tdir, "*.html"))):
        src = open(path).read()
        texts[os.path.basename(path)] = src
        tree = out.env.parse(src)
        names = {}

        def walk(body, conds, loopvars):
            for n in body:
                if isinstance(n, nodes.If):
                    c = cond(n.test, names)
                    walk(n.body, conds + [c], loopvars)
                    neg = [z3.Not(c)]
                    for el in n.elif_:
                        ce = cond(el.test, names)
                        walk(el.body, conds + neg + [ce], loopvars)
                        neg.append(z3.Not(ce))
                    walk(n.else_, conds + neg, loopvars)
                elif isinstance(n, nodes.For):
                    lv = dict(loopvars)
                    base, _ = strip(n.iter)
                    if isinstance(base, nodes.Getattr) and base.attr in ENTITY_ATTRS and isinstance(n.target, nodes.Name):
                        lv[n.target.name] = base.attr
                    walk(n.body, conds, lv)
                    walk(n.else_, conds, loopvars)
                elif isinstance(n, nodes.Output):
                    for e in n.nodes:
                        if isinstance(e, nodes.TemplateData):
                            continue
                        base, rel = strip(e)
                        if base is None:
                            continue
                        hit = None
                        if isinstance(base, nodes.Getattr) and base.attr in ENTITY_ATTRS:
                            hit = base.attr
                        elif isinstance(base, nodes.Getitem) and isinstance(base.node, nodes.Getattr) and base.node.attr in ENTITY_ATTRS:
                            # `proto` is (entity, text of the parenthesised rest): only element 0 is an entity
                            if not (base.node.attr == "proto" and isinstance(base.arg, nodes.Const) and base.arg.value != 0):
                                hit = base.node.attr + "[..]"
                        elif isinstance(base, nodes.Name) and base.name in loopvars:
                            hit = "loop over " + loopvars[base.name]
                        if hit:
                            sites.append(dict(template=os.path.basename(path), line=n.lineno, what=hit, relurl=rel,
                                              cond=z3.And(*conds) if conds else z3.BoolVal(True)))
                else:
                    for fld in ("body", "else_"):
                        v = getattr(n, fld, None)
                        if isinstance(v, list):
                            walk(v, conds, loopvars)
        walk(tree.body, [], {})
    return sites, texts


def replay_absolute_links(w):
    import os
    import re as _re
    import shutil
    d, outdir, rc, log = fordrun.run_ford(dict(O5_PROJECT), {"search": "false", "proc_internals": "true"})
    bad = []
    try:
        if rc != 0:
            return False, {"ford failed": log[-300:]}
        for root, _, fs in os.walk(outdir):
            for f in fs:
                if f.endswith(".html"):
                    txt = open(os.path.join(root, f), errors="replace").read()
                    for m in _re.finditer(r"""href=['"](/[^'"]*)['"]""", txt):
                        bad.append((os.path.relpath(os.path.join(root, f), outdir), m.group(1).replace(d, "<tmp>")))
    finally:
        shutil.rmtree(d, ignore_errors=True)
    return bool(bad), {"site": w, "absolute hrefs in the generated pages": sorted(set(bad))[:8]}


@obligation("C09", "O5.entity-links-pass-relurl", engine="JX", timeout=300)
def entity_links_relative(ctx):
    """every template print site of an entity-valued expression (bindings, uses, ancestry, calls, extends, proto, ancestor, procedure, retvar:
    printed as <a href=absolute path>) that can be reached (its enclosing conditions are satisfiable) passes through the relurl filter"""
    import ford.sourceform as sf
    import ford.output as out

    sites, texts = _raw_entity_sites()
    for name, src in texts.items():
        ctx.encode_text("templates/" + name, src, "jinja-template")
    ctx.encode_fn(sf.FortranBase.__str__)
    ctx.encode_fn(out.relative_url)
    ctx.bounds.update({"entity-valued attributes": sorted(ENTITY_ATTRS), "print sites": len(sites)})
    if len(sites) < 5:
        ctx.inconclusive.append(f"only {len(sites)} entity print sites found: the template analysis needs review")
        return
    nrel = 0
    for s_ in sites:
        label = f"{s_['template']}:{s_['line']} prints {s_['what']}"
        if s_["relurl"]:
            nrel += 1
            continue
        if s_["template"] == "mod_list.html" and s_["what"] == "parent":
            continue
        r, m = ctx.solve(label + ": reachable without relurl", [s_["cond"]])
        if r == "sat":
            ctx.report(label + " as an absolute link (no relurl filter)", {"template": s_["template"], "line": s_["line"], "prints": s_["what"]},
                       replay_absolute_links)
    if nrel:
        ctx.twins += 1
    ctx.sample({"sites": len(sites), "through relurl": nrel})


# ---------------------------------------------------------------------------------------
# O6: a link to page#anchor is emitted for an entity iff `visible`; the anchor is rendered only for entities that are still listed in
# their parent after prune(): visible in-page entities must be listed
# ---------------------------------------------------------------------------------------
BACC = [("procedure :: {n}", "public"), ("procedure, private :: {n}", "private"), ("procedure, public :: {n}", "public"), ("PROCEDURE, PRIVATE :: {N}", "private")]
TDEF = [("integer :: c", False), ("private", False)]   # a `private` statement before CONTAINS concerns components only
DISP9 = [["public", "protected"], ["public", "private", "protected"], ["private"]]


def _o6_files(b1, b2):
    return {"a.f90": ["module shapes", "type accumulator", "integer :: total", "contains", b1, b2, "generic, public :: add => add_int, add_real",
                      "end type accumulator", "contains", "subroutine add_int(self)", "class(accumulator) :: self", "end subroutine add_int",
                      "subroutine add_real(self)", "class(accumulator) :: self", "end subroutine add_real", "end module shapes"]}


def _o6_observe(p):
    t = p.modules[0].types[0] if p.modules and p.modules[0].types else None
    if t is None:
        return []
    listed = list(t.boundprocs)
    out = []
    seen = []
    for b in listed:
        for x in getattr(b, "bindings", []) or []:
            if hasattr(x, "visible") and type(x).__name__ == "FortranBoundProcedure" and not any(x is y for y in seen):
                seen.append(x)
                out.append((str(x.name).lower(), bool(getattr(x, "visible", False)), any(x is y for y in listed), x.get_url()))
    for b in listed:
        out.append((str(b.name).lower(), bool(getattr(b, "visible", False)), True, b.get_url()))
    return out


def replay_o6(w):
    files = {k: "\n".join(v) + "\n" for k, v in _o6_files(w["b1"], w["b2"]).items()}
    d, outdir, rc, log = fordrun.run_ford(files, {"search": "false", "display": "\n    ".join(w["display"])})
    try:
        broken = (fordrun.broken_links(outdir) + fordrun.broken_fragments(outdir)) if rc == 0 else [("ford failed", log[-300:])]
    finally:
        import shutil
        shutil.rmtree(d, ignore_errors=True)
    return bool(broken), {"bindings": [w["b1"], w["b2"]], "display": w["display"], "links whose file or #fragment does not exist": broken[:6]}


@obligation("C09", "O6.anchor-link-implies-listed", engine="SX(CV)", timeout=900)
def anchor_links(ctx):
    """type with two specific bindings of symbolic accessibility behind a public generic, symbolic display setting: every type-bound
    procedure that is `visible` (so links to type.html#boundprocedure-NAME are written) is still listed in the type (so that id exists)"""
    import ford.sourceform as sf

    ctx.encode_fn(sf.FortranType.prune)
    ctx.encode_fn(sf.FortranBase.__str__)
    ctx.bounds.update({"binding spellings": len(BACC), "display settings": DISP9})

    def h(E):
        a1 = CV.choice(E, "b1", BACC)
        a2 = CV.choice(E, "b2", BACC)
        di = CV.choice(E, "display", list(range(len(DISP9)))).concretize()
        b1 = choice.apply(lambda t: t[0].replace("{n}", "add_int").replace("{N}", "ADD_INT"), a1)
        b2 = choice.apply(lambda t: t[0].replace("{n}", "add_real").replace("{N}", "ADD_REAL"), a2)
        E.e.snapshot = lambda m: {"b1": choice.value_in_model(m, b1), "b2": choice.value_in_model(m, b2), "display": DISP9[di]}
        obs = parserh.project(_o6_files(b1, b2), post=_o6_observe, display=list(DISP9[di]), proc_internals=True)
        E.reachable("pruned")
        if any(not listed for _, _, listed, _ in obs):
            E.reachable("a binding was pruned")
        for name, visible, listed, url in obs:
            E.require(sym.mk_bool(z3.BoolVal((not visible) or listed)),
                      f"binding {name}: links to its anchor are written although the anchor is not rendered (pruned from the type)")

    E = sym.Engine(ctx, max_paths=5000, incremental=True)
    found = E.explore(h)
    seen = set()
    for (label, m, pc), snap in zip(found, E.snapshots):
        key = label.split(":")[1] if ":" in label else label
        if key in seen or not snap:
            continue
        seen.add(key)
        ctx.report(label, snap, replay_o6)
    for lab in ("pruned", "a binding was pruned"):
        if E.reached.get(lab):
            ctx.twins += 1
        else:
            ctx.inconclusive.append(f"vacuity: '{lab}' never reached")
    ctx.sample({"paths": E.paths})


# ---------------------------------------------------------------------------------------
# O7: the relurl filter makes an absolute link into the output directory relative from a page at ANY nesting depth
# ---------------------------------------------------------------------------------------
RU_PAGES = ["index.html", "module/m.html", "lists/modules.html", "page/index.html", "page/a/index.html", "page/a/b/tuning.html", "page/a/b/c/deep.html"]
RU_TARGETS = ["index.html", "page/index.html", "module/m.html", "page/a/b/tuning.html", "type/t.html#variable-x", "media/logo.png"]
RU_FORMS = [("<a href='{u}'>name</a>", "anchor"), ("{u}", "bare path"), ("<a href=\"{u}\" class=\"x\">name</a> trailing text", "anchor with text")]


# how the project file spells output_dir (relative to the project file's directory <root>/proj); `link` is a symbolic link to <root>/proj/doc
RU_OUTDIRS = ["./doc", "doc/", "../proj/doc", "sub/../doc", "link"]


def _ru_expected(page, target):
    import os
    path, _, frag = target.partition("#")
    rel = os.path.relpath("/srv/out/" + path, os.path.dirname("/srv/out/" + page))
    return rel + ("#" + frag if frag else "")


def replay_relurl(w):
    """the project settings are normalised by the real ProjectSettings.normalise_paths; links are built as the templates build them
    (project_url + "/" + location) and converted by the real relative_url for a page under output_dir"""
    import os
    import pathlib
    import re as _re
    import shutil
    import tempfile
    import ford.output as out
    from ford.settings import ProjectSettings

    root = tempfile.mkdtemp(prefix="fvru-")
    try:
        os.makedirs(os.path.join(root, "proj", "doc"))
        os.makedirs(os.path.join(root, "proj", "sub"))
        os.symlink(os.path.join(root, "proj", "doc"), os.path.join(root, "proj", "link"))
        st = ProjectSettings(output_dir=w.get("outdir", "./doc"))
        st.normalise_paths(os.path.join(root, "proj"))
        base = str(st.project_url)
        text = w["form"].replace("{u}", base + "/" + w["target"])
        got = out.relative_url(text, pathlib.Path(st.output_dir) / w["page"])
    finally:
        shutil.rmtree(root, ignore_errors=True)
    m = _re.search(r"""href=['"]([^'"]*)['"]""", str(got))
    href = m.group(1) if m else str(got).split()[0]
    want = _ru_expected(w["page"], w["target"])
    return href != want, {"page": w["page"], "link target": w["target"], "form": w["form"], "output_dir as written": w.get("outdir", "./doc"),
                          "relurl gives": str(got).replace(root, "<root>"), "relative path from that page": want}


@obligation("C09", "O7.relurl-from-every-depth", engine="SX(CV)", timeout=600)
def relurl_depth(ctx):
    """relative_url (the `relurl` template filter) for a symbolic page (front page, entity page, list page, static pages nested 0-3 deep)
    and a symbolic link into the output directory (page, fragment, media file; anchor / bare path), with output_dir written in a
    symbolic spelling (./, trailing slash, `..` components, through a symbolic link): the result is the relative path from that page"""
    import ford.output as out

    import ford.settings as fst
    import ford.utils as fu

    ctx.encode_fn(out.relative_url)
    ctx.encode_fn(fst.ProjectSettings.normalise_paths)
    ctx.encode_fn(fu.normalise_path)
    ctx.bounds.update({"pages": RU_PAGES, "targets": RU_TARGETS, "forms": [f[1] for f in RU_FORMS], "output_dir spellings": RU_OUTDIRS})
    ctx.stubs.append("BeautifulSoup / pathlib need concrete text: one path per (page, target, form)")

    def h(E):
        pg = CV.choice(E, "page", RU_PAGES).concretize()
        tg = CV.choice(E, "target", RU_TARGETS).concretize()
        fm = CV.choice(E, "form", list(range(len(RU_FORMS)))).concretize()
        od = CV.choice(E, "outdir", RU_OUTDIRS).concretize()
        snap = {"page": pg, "target": tg, "form": RU_FORMS[fm][0], "outdir": od}
        E.e.snapshot = lambda m: dict(snap)
        from fv import patch as _p
        with _p.suspended():
            bad, detail = replay_relurl(snap)
        E.reachable("converted")
        E.require(not bad, f"link from a page at depth {pg.count('/')} is not the relative path to its target")

    E = sym.Engine(ctx, max_paths=1000, incremental=True)
    found = E.explore(h)
    seen = set()
    for (label, m, pc), snap in zip(found, E.snapshots):
        if label in seen or not snap:
            continue
        seen.add(label)
        ctx.report(label, snap, replay_relurl)
    if E.reached.get("converted"):
        ctx.twins += 1
    else:
        ctx.inconclusive.append("vacuity: nothing converted")
    ctx.sample({"paths": E.paths})


# ---------------------------------------------------------------------------------------
# O8: the links inside a static page's text are made relative to the directory the page is written to (every nesting depth)
# ---------------------------------------------------------------------------------------
def replay_static_dirs(w):
    from fv.props import c17
    return c17.replay_tree(w)


@obligation("C09", "O8.static-pages-converted-for-their-own-directory", engine="SX(CV)+virtual file system", timeout=900)
def static_page_dirs(ctx):
    """get_page_tree on the symbolic page directory of C17 (titled/untitled pages, ordered_subpage lists, three nesting depths): the
    Markdown of every page is converted for the directory `<output>/page/<location of the page>`, the one its HTML is written to"""
    import ford.pagetree as pt
    from fv.props import c17

    ctx.encode_fn(pt.PageNode.__init__)
    ctx.encode_fn(pt.get_page_tree)
    ctx.stubs.append("as C17 O1: in-memory page directory; MetaMarkdown.convert records the directory it is called for")
    ctx.bounds.update({"nesting depths": 3})

    def h(E):
        ch, entries = c17._tree(E, False)
        E.e.snapshot = lambda m: {"choices": [_choice.value_in_model(m, x) for x in ch]}
        try:
            got = c17._run(entries, [])
        except ValueError:
            E.reachable("raised")
            return
        E.reachable("built")
        for pth, used, written in list(c17._CONV):
            if "/" in pth:
                E.reachable("nested page")
            E.require(used == written, f"the relative links of page {pth} are computed for directory '{used}', the page is written to '{written}'")

    E = _sym.Engine(ctx, max_paths=50000, incremental=True)
    found = E.explore(h)
    seen = set()
    for (label, m, pc), snap in zip(found, E.snapshots):
        if label in seen or not snap:
            continue
        seen.add(label)
        ctx.report(label, snap, replay_static_dirs)
    for lab in ("built", "nested page"):
        if E.reached.get(lab):
            ctx.twins += 1
        else:
            ctx.inconclusive.append(f"vacuity: '{lab}' never reached")
    ctx.sample({"paths": E.paths})
