"""C06 — USE association imports exactly the accessible names."""
import z3

from fv import sym, choice, parserh, patch
from fv.choice import CV
from fv.core import obligation
from fv.props import META

META["C06"] = {
    "explanation": "Kernel of C06: the real USE_RE + FortranModule.get_used_entities run on symbolic USE statements (finite choice "
    "of forms: plain, ONLY lists, renames with and without ONLY, intrinsic/:: prefixes, letter-case and blank variants, empty "
    "ONLY) against a module with public procedures, types, abstract interfaces and variables: the returned name->entity "
    "tables equal the standard's USE association rule (F2008 11.2.2).  Re-export through chains of modules is checked on "
    "symbolic multi-module projects run through the real parser and Project.correlate.",
    "outside": ["permutations of the source-file order (toposort is trusted)", "USE forms not in the option tables",
                "submodule host association (C07)"],
    "assumptions": ["names are unique across entity kinds inside one module (Fortran requires it)"],
}


class Ent:
    def __init__(self, name):
        self.name = name

    def __repr__(self):
        return f"<{self.name}>"


PUB = {"pub_procs": ["area", "operator(+)"], "pub_types": ["circle"], "pub_absints": ["iface"], "pub_vars": ["r0", "pi"]}

# (statement, mode, [(local, remote), ...])
USES = [
    ("use shapes", "all", []),
    ("USE SHAPES", "all", []),
    ("use :: shapes", "all", []),
    ("use, non_intrinsic :: shapes", "all", []),
    ("use shapes, only: circle", "only", [("circle", "circle")]),
    ("USE SHAPES, ONLY: CIRCLE", "only", [("circle", "circle")]),
    ("use shapes,only:circle,area", "only", [("circle", "circle"), ("area", "area")]),
    ("use shapes, only : circle , r0 , iface", "only", [("circle", "circle"), ("r0", "r0"), ("iface", "iface")]),
    ("use shapes, only: disc => circle", "only", [("disc", "circle")]),
    ("use shapes, only: Disc => Circle, disc_area => Area", "only", [("disc", "circle"), ("disc_area", "area")]),
    ("use shapes, only: disc=>circle, pi", "only", [("disc", "circle"), ("pi", "pi")]),
    ("USE SHAPES, ONLY: R => R0", "only", [("r", "r0")]),
    ("use shapes, only: operator(+)", "only", [("operator(+)", "operator(+)")]),
    ("use shapes, only:", "only", []),
    ("use shapes, only: nothere", "only", []),
    ("use shapes, only: secret", "only", []),
    ("use shapes, disc => circle", "all", [("disc", "circle")]),
    ("use shapes, Disc => Circle, rr => r0", "all", [("disc", "circle"), ("rr", "r0")]),
    ("use :: shapes, only: circle, disc => circle", "only", [("circle", "circle"), ("disc", "circle")]),
]


def _module():
    import ford.sourceform as sf

    m = object.__new__(sf.FortranModule)
    ents = {}
    for tab, names in PUB.items():
        d = {n: Ent(n) for n in names}
        ents.update(d)
        setattr(m, tab, d)
    return m, ents


def rule(mode, pairs, ents):
    """F2008 11.2.2: local name -> entity"""
    if mode == "only":
        return {l: r for l, r in pairs if r in ents}
    out = {n: n for n in ents}
    for l, r in pairs:
        if r in ents:
            out.pop(r, None)
    for l, r in pairs:
        if r in ents:
            out[l] = r
    return out


def _got(m, stmt):
    import ford.sourceform as sf

    mt = sf.FortranContainer.USE_RE.match(stmt)
    if not mt:
        return "NO-MATCH"
    name, rest = mt.groups()
    tabs = m.get_used_entities(rest)
    return name, tabs


def replay_use(w):
    m, ents = _module()
    g = _got(m, w["stmt"])
    want = rule(w["mode"], [tuple(p) for p in w["pairs"]], ents)
    if g == "NO-MATCH":
        return True, {"stmt": w["stmt"], "ford": "USE_RE does not match", "standard": want}
    name, tabs = g
    got = {}
    for t in tabs:
        for k, v in t.items():
            got[k.lower()] = v.name
    bad = name.lower() != "shapes" or got != want
    return bad, {"stmt": w["stmt"], "module_name": name, "ford": got, "standard": want}


@obligation("C06", "O2.get-used-entities", engine="SX(CV)", timeout=900)
def get_used(ctx):
    """USE_RE + get_used_entities on every USE form of the table: imported local names and their entities = the standard's rule"""
    import ford.sourceform as sf

    ctx.encode_fn(sf.FortranModule.get_used_entities)
    ctx.encode_re("USE_RE", sf.FortranContainer.USE_RE)
    ctx.encode_re("ONLY_RE", sf.FortranModule.ONLY_RE)
    ctx.encode_re("RENAME_RE", sf.FortranModule.RENAME_RE)
    ctx.bounds.update({"use_forms": len(USES), "public_entities": PUB})
    kf = ctx.known("C06-rename-without-only", replay_use)
    kf2 = ctx.known("C06-two-local-names", replay_use)

    def h(E):
        m, ents = _module()
        u = CV.choice(E, "use", USES)
        h.u = u
        if kf:
            E.assume(choice.apply(lambda mode, pairs: not (mode == "all" and pairs), u[1], u[2]))
        if kf2:
            E.assume(choice.apply(lambda pairs: len({r for _, r in pairs}) == len(pairs), u[2]))
        g = choice.apply(lambda s: _got_match(s), u[0])
        mt = sf.FortranContainer.USE_RE.match(u[0])
        if not mt:
            E.reachable("nomatch")
            E.require(False, "USE statement not recognised")
            return
        name, rest = mt.groups()
        E.require(choice.apply(lambda n: n.lower() == "shapes", name), "module name group wrong")
        tabs = m.get_used_entities(rest)
        E.reachable("used")
        got = {}
        for t in tabs:
            for k in list(t.keys()):
                got[k] = t[k]
        want = choice.apply(lambda mode, pairs: rule(mode, pairs, ents), u[1], u[2])
        keys = sorted(got.keys(), key=lambda k: str(k))
        gotnames = choice.apply(lambda *kv: {str(k).lower(): v.name for k, v in zip(kv[:len(keys)], kv[len(keys):])},
                                *keys, *[got[k] for k in keys]) if keys else {}
        E.require(choice.apply(lambda a, b: a == b, gotnames, want), "imported names differ from the standard's USE association rule")

    def _got_match(s):
        return bool(sf.FortranContainer.USE_RE.match(s))

    with patch.patched(sf):
        E = sym.Engine(ctx, max_paths=5000, incremental=True)
        found = E.explore(h)
        seen = set()
        for label, m_, pc in found:
            if label in seen:
                continue
            seen.add(label)
            st, mode, pairs = choice.value_in_model(m_, h.u)
            ctx.report(label, {"stmt": st, "mode": mode, "pairs": [list(p) for p in pairs]}, replay_use)
        if E.reached.get("used"):
            ctx.twins += 1
        else:
            ctx.inconclusive.append("vacuity: get_used_entities never completed")
    ctx.sample({"forms": [u[0] for u in USES[:6]], "paths": E.paths})


# ---------------------------------------------------------------------------------------
# O3: re-export through a chain of modules (whole parser + Project.correlate on a symbolic project)
# ---------------------------------------------------------------------------------------
NOOP = "implicit none"
DA = [(NOOP, False), ("private", True), ("PRIVATE", True)]
PA = [(NOOP, []), ("public :: ta", ["ta"]), ("PUBLIC TA, TB", ["ta", "tb"])]
UB = [("use a", "all", []), ("use a, only: ta", "only", [("ta", "ta")]), ("use a, only: tb", "only", [("tb", "tb")]),
      ("use a, only: tx => ta", "only", [("tx", "ta")]), ("USE A, ONLY: TX => TA, TB", "only", [("tx", "ta"), ("tb", "tb")]),
      ("use a, tx => ta", "all", [("tx", "ta")])]
DB = [(NOOP, False), ("private", True)]
PB = [(NOOP, []), ("public :: ta", ["ta"]), ("public :: tx", ["tx"]), ("PUBLIC :: TB", ["tb"])]
UC = [("use b", "all", []), ("use b, only: ta", "only", [("ta", "ta")]), ("use b, only: ty => tx", "only", [("ty", "tx")])]
REFS = [("type(ta) :: v", "ta"), ("type(TA) :: v", "ta"), ("type(tb) :: v", "tb"), ("type(tx) :: v", "tx"), ("type(ty) :: v", "ty")]


def _assoc(mode, pairs, exported):
    """local name -> original entity name, given what the used module exports ({name: entity})"""
    if mode == "only":
        return {l: exported[r] for l, r in pairs if r in exported}
    out = dict(exported)
    for l, r in pairs:
        out.pop(r, None)
    for l, r in pairs:
        if r in exported:
            out[l] = exported[r]
    return out


def chain_rule(da, pa, ub_mode, ub_pairs, db, pb, uc_mode, uc_pairs, ref):
    exp_a = {n: n for n in ("ta", "tb") if (not da or n in pa)}
    in_b = _assoc(ub_mode, ub_pairs, exp_a)
    exp_b = {n: e for n, e in in_b.items() if (not db or n in pb)}
    in_c = _assoc(uc_mode, uc_pairs, exp_b)
    return in_c.get(ref)


def _chain_files(da, pa, ub, db, pb, uc, ref):
    return {
        "a.f90": ["module a", da, pa, "type ta", "integer :: c", "end type ta", "type tb", "integer :: c", "end type tb", "end module a"],
        "b.f90": ["module b", ub, db, pb, "end module b"],
        "c.f90": ["subroutine c()", uc, ref, "end subroutine c"],
    }


CSET = dict(proc_internals=True, display=["public", "private", "protected"])


def _chain_observe(p):
    c = [x for x in p.procedures][0]
    vs = list(c.variables)
    if len(vs) != 1:
        return "MISSING"
    x = vs[0].proto[0]
    return choice.apply(lambda v: None if isinstance(v, str) else str(v.name).lower(), x)


def replay_chain(w):
    p = parserh.project_concrete(_chain_files(*w["slots"]), **CSET)
    got = _chain_observe(p)
    return got != w["expected"], {"files": _chain_files(*w["slots"]), "ford_links_type": got, "standard": w["expected"]}


@obligation("C06", "O3.re-export-chain", engine="SX(CV)", timeout=3000)
def reexport(ctx):
    """a -> b -> c: what c obtains from `use b` = what b re-exports of what it obtained from a (default public/private,
    explicit public lists, ONLY and renames at both hops)"""
    import ford.sourceform as sf
    import ford.fortran_project as fp

    ctx.encode_fn(sf.FortranCodeUnit.correlate)
    ctx.encode_fn(sf.FortranModule.get_used_entities)
    ctx.encode_fn(sf.FortranModule._cleanup)
    ctx.encode_fn(sf.FortranCodeUnit.process_attribs)
    ctx.encode_fn(fp.Project.correlate)
    ctx.stubs.append("FortranReader replaced by the symbolic statement lists of three files")
    quick = not ctx.thorough
    ctx.bounds.update({"slots": {"a default": len(DA), "a public list": len(PA), "b use": len(UB), "b default": len(DB), "b public list": len(PB),
                                 "c use": len(UC), "reference": len(REFS)}})

    def h(E):
        da = CV.choice(E, "da", DA[:2] if quick else DA)
        pa = CV.choice(E, "pa", PA[:2] if quick else PA)
        ub = CV.choice(E, "ub", [UB[0], UB[1], UB[3], UB[5]] if quick else UB)
        db = CV.choice(E, "db", DB)
        pb = CV.choice(E, "pb", PB[:3] if quick else PB)
        uc = CV.choice(E, "uc", UC[:2] if quick else UC)
        ref = CV.choice(E, "ref", [REFS[0], REFS[1], REFS[3]] if quick else REFS)
        h.state = (da, pa, ub, db, pb, uc, ref)
        p = parserh.project(_chain_files(da[0], pa[0], ub[0], db[0], pb[0], uc[0], ref[0]), **CSET)
        got = _chain_observe(p)
        E.reachable("correlated")
        want = choice.apply(chain_rule, da[1], pa[1], ub[1], ub[2], db[1], pb[1], uc[1], uc[2], ref[1])
        h.want = want
        E.require(choice.apply(lambda g, w_: g == w_, got, want), "type reached through the re-exporting module differs from the standard's rule")

    E = sym.Engine(ctx, max_paths=100000, incremental=True)
    found = E.explore(h)
    seen = set()
    for (label, m, pc), A in list(zip(found, E.autosnaps)):
        if label in seen:
            continue
        seen.add(label)
        ctx.report(label, {"slots": [choice.value_in_model(m, x)[0] for x in A["state"]], "expected": choice.value_in_model(m, A["want"])}, replay_chain)
    if E.reached.get("correlated"):
        ctx.twins += 1
    else:
        ctx.inconclusive.append("vacuity: correlate never completed")
    ctx.sample({"paths": E.paths})


# ---------------------------------------------------------------------------------------
# O4: which module a USE statement designates when the project defines a module whose name FORD also knows as an
# intrinsic / "extra" module (mpi, omp_lib, iso_c_binding, ...): without module nature INTRINSIC the project's own
# (non-intrinsic) module is accessed (F2008 11.2.2 para 2)
# ---------------------------------------------------------------------------------------
MODNAMES = ["geometry", "mpi", "MPI", "omp_lib", "iso_c_binding", "ieee_arithmetic", "openacc", "mpi_f08", "iso_fortran_env"]
USE_FORMS = [("use {n}", None), ("USE {N}", None), ("use {n}, only: circle", None), ("use, non_intrinsic :: {n}", None),
             ("use :: {n}", None), ("use {n}, only: disc => circle", "disc"), ("use, non_intrinsic :: {n}, only: disc => circle", "disc")]


def _o4_files(name, use, ref):
    return {"a.f90": ["module " + name if isinstance(name, str) else choice.apply(lambda n: "module " + n, name),
                      "type circle", "integer :: c", "end type circle", "contains", "subroutine area()", "end subroutine area",
                      "end module"],
            "b.f90": ["module client", use, ref, "contains", "subroutine go()", "call area()", "end subroutine go", "end module client"]}


def _o4_observe(p):
    cl = [m for m in p.modules if str(m.name).lower() == "client"][0]
    v = cl.variables[0]
    pr = v.proto[0]
    go = cl.subroutines[0]
    callee = go.calls[0] if go.calls else None
    def own(x):
        if x is None or isinstance(x, (str, CV)):
            return None
        par = getattr(x, "parent", None)
        return (os.path.basename(str(getattr(x, "filename", "") or getattr(par, "filename", ""))), str(x.name).lower())
    used = [u for u in (cl.uses or [])]
    return own(pr), own(callee), [type(u).__name__ for u in used]


import os  # noqa: E402


def replay_o4(w):
    import ford.sourceform as sf
    old = sf.namelist
    sf.namelist = sf.NameSelector()
    try:
        p = parserh.project_concrete(_o4_files(w["module"], w["use"], w["ref"]), **CSET)
        t, c, kinds = _o4_observe(p)
    finally:
        sf.namelist = old
    want_c = None if "only" in w["use"].lower() else ("a.f90", "area")
    bad = t != ("a.f90", "circle") or c != want_c or kinds != ["FortranModule"]
    return bad, {"project module": w["module"], "use": w["use"], "reference": w["ref"], "type resolved to": t, "call resolved to": c,
                 "used module objects": kinds, "expected": "the project's own module (a.f90)"}


@obligation("C06", "O4.project-module-named-like-intrinsic", engine="SX(CV)", timeout=1800)
def local_named_like_intrinsic(ctx):
    """the project defines a module whose name is symbolic over {ordinary, mpi, omp_lib, iso_c_binding, ...} (letter case too); a
    client USEs it in several forms: the USE binds to the project's module and imports its public type and procedure"""
    import ford.fortran_project as fp
    import ford.sourceform as sf

    ctx.encode_fn(fp.find_used_modules)
    ctx.encode_fn(fp.Project.correlate)
    ctx.encode_fn(sf.FortranCodeUnit.correlate)
    ctx.bounds.update({"module names": MODNAMES, "use forms": len(USE_FORMS)})
    ctx.stubs.append("FortranReader replaced by the symbolic statement lists of two files")

    def h(E):
        n = CV.choice(E, "modname", MODNAMES)
        u = CV.choice(E, "useform", USE_FORMS)
        use = choice.apply(lambda f, nm: f[0].replace("{n}", nm).replace("{N}", nm.upper()), u, n)
        ref = choice.apply(lambda f: "type(%s) :: v" % (f[1] or "circle"), u)
        E.e.snapshot = lambda m: {"module": choice.value_in_model(m, n), "use": choice.value_in_model(m, use), "ref": choice.value_in_model(m, ref)}
        got = parserh.project(_o4_files(n, use, ref), post=_o4_observe, **CSET)
        E.reachable("correlated")
        t, c, kinds = got
        E.require(choice.apply(lambda x: x == ("a.f90", "circle"), t) if isinstance(t, CV) else t == ("a.f90", "circle"),
                  "type imported from the project's own module is not resolved to it")
        want_c = choice.apply(lambda f: None if "only" in f[0] else ("a.f90", "area"), u)   # an ONLY list without `area` does not import it
        E.require(choice.apply(lambda x, w_: x == w_, c, want_c), "procedure imported from the project's own module is not resolved to it")
        E.require(kinds == ["FortranModule"], "the USE statement is not bound to the project's module")

    E = sym.Engine(ctx, max_paths=20000, incremental=True)
    found = E.explore(h)
    seen = set()
    for (label, m, pc), snap in zip(found, E.snapshots):
        if label in seen or not snap:
            continue
        seen.add(label)
        ctx.report(label, snap, replay_o4)
    if E.reached.get("correlated"):
        ctx.twins += 1
    else:
        ctx.inconclusive.append("vacuity: correlate never completed")
    ctx.sample({"paths": E.paths})


# ---------------------------------------------------------------------------------------
# O5: a USE statement inside an interface body that is nested in a procedure: the names the used module RE-EXPORTS must be
# importable there too (the used module has to be correlated first although nothing else in the scope's module uses it)
# ---------------------------------------------------------------------------------------
IB_USE = [("use b_mod", "ctype"), ("use b_mod, only: ctype", "ctype"), ("use b_mod, only: local_t => ctype", "local_t"),
          ("USE B_MOD, ONLY: LOCAL_T => CTYPE", "local_t"), ("use b_mod, only: btype", "btype")]
IB_WHERE = ["interface-in-module-procedure", "interface-in-internal-procedure", "interface-in-module"]


def _ib_files(use, name, where):
    body = ["interface", "subroutine worker()", use, choice.apply(lambda n: f"type({n}) :: x", name) if isinstance(name, CV) else f"type({name}) :: x",
            "end subroutine worker", "end interface"]
    if where == "interface-in-module":
        a = ["module a_mod"] + body + ["end module a_mod"]
    elif where == "interface-in-module-procedure":
        a = ["module a_mod", "contains", "subroutine driver()"] + body + ["end subroutine driver", "end module a_mod"]
    else:
        a = ["module a_mod", "contains", "subroutine driver()", "contains", "subroutine inner()"] + body + \
            ["end subroutine inner", "end subroutine driver", "end module a_mod"]
    return {"a.f90": a,   # read first: only the dependency order makes a_mod correlate after b_mod
            "b.f90": ["module b_mod", "use c_mod", "type btype", "integer :: b", "end type btype", "end module b_mod"],
            "c.f90": ["module c_mod", "type ctype", "integer :: c", "end type ctype", "end module c_mod"]}


def _ib_observe(p):
    a = [m for m in p.modules if str(m.name).lower() == "a_mod"][0]
    scope = a
    for s_ in list(getattr(a, "subroutines", [])):
        scope = s_
        for t_ in list(getattr(s_, "subroutines", [])):
            scope = t_
    ifs = list(scope.interfaces)
    if len(ifs) != 1:
        return "MISSING"
    w = ifs[0].procedure if hasattr(ifs[0], "procedure") else ifs[0].subroutines[0]
    vs = list(w.variables)
    if len(vs) != 1:
        return "MISSING"
    x = vs[0].proto[0]
    return choice.apply(lambda v: None if isinstance(v, str) else (str(getattr(v.parent, "name", "")).lower(), str(v.name).lower()), x)


def replay_ib(w):
    import ford.sourceform as sf
    old = sf.namelist
    sf.namelist = sf.NameSelector()
    try:
        p = parserh.project_concrete(_ib_files(w["use"], w["name"], w["where"]), **CSET)
        got = _ib_observe(p)
    finally:
        sf.namelist = old
    want = ["b_mod", "btype"] if w["name"] == "btype" else ["c_mod", "ctype"]
    return (list(got) if isinstance(got, tuple) else got) != want, {"where": w["where"], "use": w["use"], "type name": w["name"],
                                                                     "ford_links_type": got, "standard": want}


def _ib_ob(where):
    @obligation("C06", "O5.use-in-interface-body." + where, engine="SX(CV)", timeout=900)
    def ob(ctx):
        import ford.fortran_project as fp
        import ford.sourceform as sf

        ctx.encode_fn(fp.Project.correlate)
        ctx.encode_fn(sf.FortranCodeUnit.correlate)
        ctx.bounds.update({"use forms": len(IB_USE), "position": where})

        def h(E):
            u = CV.choice(E, "use", IB_USE)
            E.e.snapshot = lambda m: {"use": choice.value_in_model(m, u)[0], "name": choice.value_in_model(m, u)[1], "where": where}
            got = parserh.project(_ib_files(u[0], u[1], where), post=_ib_observe, **CSET)
            E.reachable("correlated")
            E.require(choice.apply(lambda g, n: g == (("b_mod", "btype") if n == "btype" else ("c_mod", "ctype")), got, u[1]),
                      "a name re-exported by the used module is not imported into the interface body")

        E = sym.Engine(ctx, max_paths=5000, incremental=True)
        found = E.explore(h)
        seen = set()
        for (label, m, pc), snap in zip(found, E.snapshots):
            if label in seen or not snap:
                continue
            seen.add(label)
            ctx.report(label, snap, replay_ib)
        if E.reached.get("correlated"):
            ctx.twins += 1
        else:
            ctx.inconclusive.append("vacuity: correlate never completed")
        ctx.sample({"paths": E.paths})

    ob.__doc__ = f"USE of a re-exporting module inside an interface body ({where}); the only USE of that module anywhere in the file: own and re-exported names are imported"


for _w in IB_WHERE:
    _ib_ob(_w)


# ---------------------------------------------------------------------------------------
# O6: specific procedures declared by interface BODIES inside a generic interface block have their own accessibility
# (the module default unless named in an access statement); the generic name has its own
# ---------------------------------------------------------------------------------------
G_DEF = [("implicit none", "public"), ("private", "private"), ("PRIVATE", "private")]
G_ACC = [("implicit none", {}), ("private :: gen", {"gen": "private"}), ("public :: gen", {"gen": "public"}), ("PUBLIC :: GEN, spec_i", {"gen": "public", "spec_i": "public"}),
         ("private :: spec_r", {"spec_r": "private"})]


def _g_files(d0, acc):
    return {"a.f90": ["module lib", d0, acc, "interface gen", "subroutine spec_i(i)", "integer :: i", "end subroutine spec_i",
                      "subroutine spec_r(r)", "real :: r", "end subroutine spec_r", "end interface gen",
                      "contains", "subroutine own()", "end subroutine own", "end module lib"],
            "b.f90": ["module client", "use lib", "contains", "subroutine go()", "call spec_i(1)", "call spec_r(1.0)", "call gen(1)", "call own()",
                      "end subroutine go", "end module client"]}


def g_rule(default, explicit):
    acc = {n: explicit.get(n, default) for n in ("gen", "spec_i", "spec_r", "own")}
    return sorted(n for n, a in acc.items() if a == "public")


def _g_observe(p):
    cl = [m for m in p.modules if str(m.name).lower() == "client"][0]
    go = cl.subroutines[0]
    return sorted(str(getattr(c, "name", None)).lower() for c in go.calls if not isinstance(c, str))


def replay_g(w):
    import ford.sourceform as sf
    old = sf.namelist
    sf.namelist = sf.NameSelector()
    try:
        p = parserh.project_concrete(_g_files(w["default"], w["access"]), **CSET)
        got = _g_observe(p)
    finally:
        sf.namelist = old
    return got != w["expected"], {"default statement": w["default"], "access statement": w["access"], "calls resolved through `use lib`": got,
                                  "public names of lib (Fortran)": w["expected"]}


@obligation("C06", "O6.generic-interface-bodies", engine="SX(CV)", timeout=900)
def generic_bodies(ctx):
    """module with a generic interface made of interface bodies, symbolic default accessibility and access statement (on the generic
    name, on a specific): `use lib` imports exactly the public ones of {gen, spec_i, spec_r, own}"""
    import ford.sourceform as sf

    ctx.encode_fn(sf.FortranModule._cleanup)
    ctx.encode_fn(sf.FortranCodeUnit.process_attribs)
    ctx.encode_text("FortranProcedure.permission", __import__("inspect").getsource(sf.FortranProcedure), "python-source")
    ctx.bounds.update({"default statements": len(G_DEF), "access statements": len(G_ACC)})

    kf = ctx.known("C06-access-statement-on-generic-specific", replay_g)

    def h(E):
        d0 = CV.choice(E, "d0", G_DEF)
        ac = CV.choice(E, "acc", G_ACC)
        if kf:
            # known finding: an access statement naming a specific procedure declared by an interface body of a generic interface
            E.assume(choice.apply(lambda a: not any(k.startswith("spec_") for k in a), ac[1]))
        want = choice.apply(g_rule, d0[1], ac[1])
        E.e.snapshot = lambda m: {"default": choice.value_in_model(m, d0)[0], "access": choice.value_in_model(m, ac)[0],
                                  "expected": choice.value_in_model(m, want)}
        got = parserh.project(_g_files(d0[0], ac[0]), post=_g_observe, **CSET)
        E.reachable("correlated")
        E.require(choice.apply(lambda w_: list(got) == list(w_), want), "names imported from the module differ from its public names")

    E = sym.Engine(ctx, max_paths=5000, incremental=True)
    found = E.explore(h)
    seen = set()
    for (label, m, pc), snap in zip(found, E.snapshots):
        if label in seen or not snap:
            continue
        seen.add(label)
        ctx.report(label, snap, replay_g)
    if E.reached.get("correlated"):
        ctx.twins += 1
    else:
        ctx.inconclusive.append("vacuity: correlate never completed")
    ctx.sample({"paths": E.paths})


# ---------------------------------------------------------------------------------------
# O7: several USE statements for one module in one scope are cumulative (F2008 11.2.2): local names given by a rename in ANY of them are
# accessible; entities not renamed anywhere keep their own name when one of the statements has no ONLY
# ---------------------------------------------------------------------------------------
USE_A = [("use shapes", "all"), ("USE SHAPES", "all"), ("use shapes, only: make", "only"), ("implicit none", None)]
USE_B = [("use shapes, only: ring => circle", ["ring"]), ("use shapes, ring => circle", ["ring"]), ("use shapes, only: unit => radius, ring => circle", ["ring", "unit"]),
         ("implicit none", [])]


def _cum_files(ua, ub):
    return {"a.f90": ["module shapes", "type circle", "integer :: c", "end type circle", "real :: radius", "contains", "subroutine make()",
                      "end subroutine make", "end module shapes"],
            "b.f90": ["module client", ua, ub, "type(ring) :: v", "contains", "subroutine go()", "call make()", "end subroutine go", "end module client"]}


def cum_rule(a_mode, b_locals):
    ring = "ring" in b_locals                                # the rename makes `circle` accessible as `ring`, whatever the other statement says
    make = a_mode in ("all", "only") or False                # `make` by its own name: plain USE, or named in the ONLY list
    if a_mode is None and b_locals and True:
        make = False
    return ring, make


def _cum_observe(p):
    cl = [m for m in p.modules if str(m.name).lower() == "client"][0]
    v = cl.variables[0].proto[0]
    go = cl.subroutines[0]
    return (not isinstance(v, str) and v is not None), any(not isinstance(c, str) for c in go.calls)


def replay_cum(w):
    import ford.sourceform as sf
    old = sf.namelist
    sf.namelist = sf.NameSelector()
    try:
        p = parserh.project_concrete(_cum_files(w["use_a"], w["use_b"]), **CSET)
        got = list(_cum_observe(p))
    finally:
        sf.namelist = old
    return got != list(w["expected"]), {"use statements": [w["use_a"], w["use_b"]], "type(ring) resolved / call make resolved": got,
                                        "standard": list(w["expected"])}


@obligation("C06", "O7.cumulative-use-statements", engine="SX(CV)", timeout=900)
def cumulative(ctx):
    """two symbolic USE statements for the same module in one scope (plain / ONLY, then ONLY-with-rename / rename): the local name given by
    the rename resolves, and `make` resolves when the first statement makes it accessible"""
    import ford.sourceform as sf

    ctx.encode_fn(sf.FortranCodeUnit.correlate)
    ctx.encode_fn(sf.FortranModule.get_used_entities)
    ctx.bounds.update({"first statements": len(USE_A), "second statements": len(USE_B)})

    def h(E):
        a = CV.choice(E, "use_a", USE_A)
        b = CV.choice(E, "use_b", USE_B)
        # `make`: named in / covered by the first statement, or the second statement has no ONLY option (then every public entity is accessible)
        want = choice.apply(lambda am, bt, bl: (("ring" in bl), am is not None or (bt.startswith("use") and "only" not in bt)), a[1], b[0], b[1])
        E.e.snapshot = lambda m: {"use_a": choice.value_in_model(m, a)[0], "use_b": choice.value_in_model(m, b)[0],
                                  "expected": list(choice.value_in_model(m, want))}
        got = parserh.project(_cum_files(a[0], b[0]), post=_cum_observe, **CSET)
        E.reachable("correlated")
        E.require(choice.apply(lambda w_: bool(got[0]) == w_[0], want), "the local name given by a rename in the second USE statement is not accessible")
        E.require(choice.apply(lambda w_: bool(got[1]) == w_[1], want), "`make` accessibility differs from what the first USE statement gives")

    E = sym.Engine(ctx, max_paths=5000, incremental=True)
    found = E.explore(h)
    seen = set()
    for (label, m, pc), snap in zip(found, E.snapshots):
        if label in seen or not snap:
            continue
        seen.add(label)
        ctx.report(label, snap, replay_cum)
    if E.reached.get("correlated"):
        ctx.twins += 1
    else:
        ctx.inconclusive.append("vacuity: correlate never completed")
    ctx.sample({"paths": E.paths})


# ---------------------------------------------------------------------------------------
# O8: the members of a NAMELIST group are looked up like any other name: through use association, under their LOCAL names
# ---------------------------------------------------------------------------------------
NL_USE_A = [("use mod_a, only: x", {"x": ("mod_a", "x")}), ("use mod_a", {"x": ("mod_a", "x"), "tol": ("mod_a", "tol")}),
            ("use mod_a, only: ax => x", {"ax": ("mod_a", "x")}), ("USE MOD_A, ONLY: AX => X, tol", {"ax": ("mod_a", "x"), "tol": ("mod_a", "tol")}),
            ("use mod_c", {"ctol": ("mod_a", "tol")})]
NL_USE_B = [("use mod_b, only: bx => x", {"bx": ("mod_b", "x")}), ("use mod_b, bx => x", {"bx": ("mod_b", "x"), "y": ("mod_b", "y"), "tag": ("mod_b", "tag"), "label": ("mod_b", "label")}), ("use mod_b, only: y", {"y": ("mod_b", "y")}),
            # an entity declared with its character length after the name is exported under its NAME
            ("use mod_b, only: tag, lbl => label", {"tag": ("mod_b", "tag"), "lbl": ("mod_b", "label")})]
NL_NAMES = ["x", "ax", "bx", "tol", "ctol", "loc", "X", "Bx", "y", "nowhere", "tag", "lbl"]


def _nl_files(ua, ub, n1, n2):
    return {"a.f90": ["module mod_a", "integer :: x, tol", "end module mod_a"],
            "b.f90": ["module mod_b", "real :: x, y", "character :: tag*(8), label(2)*(4)", "end module mod_b"],
            "c.f90": ["module mod_c", "use mod_a, only: ctol => tol", "end module mod_c"],
            "p.f90": ["program main", ua, ub, "integer :: loc", "namelist /settings/ " + n1 + ", " + n2, "end program main"]}


def nl_rule(ma, mb, name):
    vis = {**ma, **mb, "loc": ("main", "loc")}
    return vis.get(name.lower())


def _nl_observe(p):
    nl = list(p.programs[0].namelists)
    if len(nl) != 1:
        return "MISSING"
    return [v if isinstance(v, (str, CV)) else ("->", str(getattr(v.parent, "name", "?")).lower(), str(v.name).lower()) for v in nl[0].variables]


def _nl_norm(v):
    return (v[1], v[2]) if isinstance(v, (tuple, list)) and len(v) == 3 and v[0] == "->" else None


def replay_nl(w):
    import ford.sourceform as sf
    old = sf.namelist
    sf.namelist = sf.NameSelector()
    try:
        p = parserh.project_concrete(_nl_files(*w["slots"]), **CSET)
        obs = _nl_observe(p)
    finally:
        sf.namelist = old
    got = [list(_nl_norm(v)) if _nl_norm(v) else None for v in obs] if obs != "MISSING" else obs
    return got != w["expected"], {"program": _nl_files(*w["slots"])["p.f90"], "namelist members resolved to": got, "use association": w["expected"]}


@obligation("C06", "O8.namelist-members-follow-use-association", engine="SX(CV)", timeout=900)
def namelist_members(ctx):
    """program with two symbolic USE statements (whole module, ONLY, renames, a re-exporting module) and a NAMELIST naming two symbolic
    names: each member resolves to the variable its LOCAL name is associated with (or stays unresolved)"""
    import ford.sourceform as sf

    ctx.encode_fn(sf.FortranNamelist.correlate)
    ctx.encode_fn(sf.FortranCodeUnit.correlate)
    ctx.encode_fn(sf.FortranModule.get_used_entities)
    ctx.bounds.update({"first statements": len(NL_USE_A), "second statements": len(NL_USE_B), "member names": len(NL_NAMES)})

    def h(E):
        a = CV.choice(E, "use_a", NL_USE_A)
        b = CV.choice(E, "use_b", NL_USE_B)
        n1 = CV.choice(E, "n1", NL_NAMES)
        n2 = CV.choice(E, "n2", ["loc", "bx", "tag", "y"])   # the second member: a smaller table (cost)
        E.assume(choice.apply(lambda p_, q_: p_.lower() != q_.lower(), n1, n2))
        h.state = (a, b, n1, n2)
        want = [choice.apply(nl_rule, a[1], b[1], n1), choice.apply(nl_rule, a[1], b[1], n2)]
        h.want = want
        obs = parserh.project(_nl_files(a[0], b[0], n1, n2), post=_nl_observe, **CSET)
        E.reachable("correlated")
        if obs == "MISSING" or len(obs) != 2:
            E.require(False, "the namelist group or one of its members is not reported")
            return
        for g, w_ in zip(obs, want):
            E.require(choice.apply(lambda g_, x: _nl_norm(g_) == x, g, w_), "namelist member resolved against use association")

    E = sym.Engine(ctx, max_paths=20000, incremental=True)
    found = E.explore(h)
    seen = set()
    for (label, m, pc), A in list(zip(found, E.autosnaps)):
        if label in seen:
            continue
        seen.add(label)
        a, b, n1, n2 = (choice.value_in_model(m, x) for x in A["state"])
        exp = [(lambda r: list(r) if r else None)(choice.value_in_model(m, x)) for x in A["want"]]
        ctx.report(label, {"slots": [a[0], b[0], n1, n2], "expected": exp}, replay_nl)
    if E.reached.get("correlated"):
        ctx.twins += 1
    else:
        ctx.inconclusive.append("vacuity: correlate never completed")
    ctx.sample({"paths": E.paths})
