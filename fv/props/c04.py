"""C04 — accessibility of every entity follows Fortran's PUBLIC/PRIVATE rules (kernel + parser level)."""
import z3

from fv import sym, choice, parserh
from fv.choice import CV
from fv.core import obligation
from fv.props import META

META["C04"] = {
    "explanation": "C04 at parser level: the REAL parser (FortranSourceFile -> FortranModule/FortranType/... with process_attribs, "
    "line_to_variables, constructors) is executed symbolically on a symbolic program: a module (or derived type) whose "
    "default-access statement (absent / early / late, several spellings), declaration attribute (none/public/private/"
    "protected, several spellings, letter cases and blank placements) and access statement naming the entity (absent / "
    "before / after the declaration) are finite-choice symbolic values.  For every combination the accessibility FORD "
    "records must equal Fortran's rule (F2008 5.3.2): explicit attribute or access statement, else the scope's default, "
    "wherever the statements stand.  The solver decides each path's assertion over all remaining choices.",
    "outside": ["spellings not in the option tables", "accessibility of entities reached through USE (C06)",
                "rendering of the permission in HTML"],
    "assumptions": ["the reader delivers the statements as listed (reader stubbed; C02 covers the reader)",
                    "a scope has at most one bare access statement and an entity is given the access attribute at most once (F2008 C563, C517)"],
}

NOOP = "implicit none"
D_OPTS = [(NOOP, None), ("private", "private"), ("public", "public"), ("PRIVATE", "private"), ("Public", "public")]


def _slot(E, name, options):
    cv = CV.choice(E, name, options)
    return cv[0], cv[1]


def _acc_stmts(name, allow_protected):
    o = [(NOOP, None), (f"public :: {name}", "public"), (f"private :: {name}", "private"), (f"PRIVATE {name.upper()}", "private"),
         (f"public {name}", "public"), (f"Private::{name}", "private")]
    if allow_protected:
        o.append((f"protected :: {name}", "protected"))
    if "(" in name:
        # generic specs may be written with a blank before the parenthesis, in the access statement too
        blank = name.replace("(", " (")
        o += [(f"public :: {blank}", "public"), (f"private :: {blank}", "private"), (f"PRIVATE {blank.upper()}", "private")]
    return o


KINDS = {
    # kind: (pre-lines, header options [(text, attr)], post-lines, where to find it, access name, protected allowed)
    "variable": ([], [("integer :: x", None), ("integer, public :: x", "public"), ("integer, private :: x", "private"),
                      ("integer, protected :: x", "protected"), ("INTEGER,PRIVATE::X", "private"),
                      ("real, dimension(3), private :: x", "private"), ("integer , Private :: x", "private"),
                      ("real(8), allocatable, public :: x(:)", "public"), ("integer x", None),
                      # entity-level array / coarray / character-length specs are not part of the name
                      ("character :: x*8", None), ("character :: x*8 = 'unset'", None), ("real :: x(3)", None), ("real :: x[*]", None),
                      ("character, private :: x*4", "private")], [], "variables", "x", True),
    "parameter": ([], [("integer, parameter :: x = 1", None), ("integer, parameter, private :: x = 1", "private"),
                       ("integer, private, parameter :: x = 1", "private"), ("INTEGER, PARAMETER, PUBLIC :: X = 1", "public"),
                       # an array constructor with a type-spec holds a `::` of its own
                       ("integer, parameter, private :: x(3) = [integer :: 2, 3, 5]", "private"),
                       ("character(len=2), public, parameter :: x(2) = [character(len=2) :: 'a', 'bc']", "public")],
                  [], "variables", "x", False),
    "type": ([], [("type x", None), ("type :: x", None), ("type, public :: x", "public"), ("type, private :: x", "private"),
                  ("TYPE,PRIVATE::X", "private"), ("type, abstract, private :: x", "private"),
                  ("type, private, extends(base) :: x", "private")], ["integer :: c", "end type x"], "types", "x", False),
    "generic-interface": ([], [("interface x", None), ("INTERFACE X", None)], ["module procedure xp", "end interface x"],
                          "interfaces", "x", False),
    "operator-interface": ([], [("interface operator(+)", None), ("interface operator (+)", None)],
                           ["module procedure xp", "end interface"], "interfaces", "operator(+)", False),
    "assignment-interface": ([], [("interface assignment(=)", None), ("interface assignment (=)", None), ("INTERFACE ASSIGNMENT(=)", None)],
                             ["module procedure xp", "end interface"], "interfaces", "assignment(=)", False),
    "abstract-interface": (["abstract interface"], [("subroutine x()", None), ("SUBROUTINE X( )", None)],
                           ["end subroutine x", "end interface"], "absinterfaces", "x", False),
}
PROC_KINDS = {
    "subroutine": ([("subroutine x", None), ("subroutine x()", None), ("pure subroutine x(a)", None)], ["end subroutine x"], "subroutines"),
    "function": ([("function x()", None), ("integer function x(a)", None), ("pure elemental real(8) function x(a) result(r)", None)],
                 ["end function x"], "functions"),
}


def expected(d0, a0, attr, a1, d1):
    explicit = a0 or attr or a1
    if explicit:
        return explicit
    return d0 or d1 or "public"


def _get(f, where):
    m = f.modules[0]
    lst = getattr(m, where)
    return lst[0] if len(lst) == 1 else None


def replay_access(w):
    f = parserh.parse_concrete(list(w["program"]))
    ent = _get(f, w["where"])
    got = getattr(ent, "permission", None) if ent is not None else "<entity missing>"
    return got != w["expected"], {"program": w["program"], "ford": got, "fortran_rule": w["expected"]}


def _module_ob(kind):
    @obligation("C04", f"O4.module-scope.{kind}", engine="SX(CV)", timeout=1800)
    def ob(ctx):
        import ford.sourceform as sf

        ctx.encode_fn(sf.FortranContainer.__init__)
        ctx.encode_fn(sf.FortranCodeUnit.process_attribs)
        ctx.encode_fn(sf.line_to_variables)
        ctx.encode_fn(sf.FortranType._initialize)
        ctx.stubs.append("FortranReader replaced by the list of symbolic statements")
        proc = kind in PROC_KINDS

        def h(E):
            if proc:
                hdr_opts, post, where = PROC_KINDS[kind]
                pre, accname, prot = [], "x", False
            else:
                pre, hdr_opts, post, where, accname, prot = KINDS[kind]
            d0t, d0 = _slot(E, "d0", D_OPTS)
            a0t, a0 = _slot(E, "a0", _acc_stmts(accname, prot))
            ht, attr = _slot(E, "decl", hdr_opts)
            a1t, a1 = _slot(E, "a1", _acc_stmts(accname, prot))
            d1t, d1 = _slot(E, "d1", D_OPTS)
            # at most one bare default statement; the access attribute is given at most once
            nd = choice.apply(lambda x, y: (x is not None) + (y is not None), d0, d1)
            na = choice.apply(lambda x, y, z: (x is not None) + (y is not None) + (z is not None), a0, attr, a1)
            E.assume(choice.apply(lambda n, k: n <= 1 and k <= 1, nd, na))
            if h.excl[0]:
                # known finding: a bare default statement AFTER the declaration of an entity without explicit access
                E.assume(choice.apply(lambda l, k: not (l is not None and k == 0), d1, na))
            if h.excl[1]:
                # known finding: the generic spec is spelled with a blank before the parenthesis in the interface statement
                # and without it in the access statement, or the other way round (the same spelling on both sides works)
                E.assume(choice.apply(lambda t, s0, s1, x, y: not ((x and (" (" in t) != (" (" in s0)) or (y and (" (" in t) != (" (" in s1))),
                                      ht, a0t, a1t, a0, a1))
            if proc:
                prog = ["module m", d0t, a0t, a1t, d1t, "contains", ht] + post + ["end module m"]
            else:
                prog = ["module m", d0t, a0t] + pre + [ht] + post + [a1t, d1t, "contains", "subroutine xp()", "end subroutine xp",
                                                                   "end module m"]
            h.state = (prog, where)
            f = parserh.parse(list(prog))
            ent = _get(f, where)
            E.reachable("parsed")
            want = choice.apply(expected, d0, a0, attr, a1, d1)
            h.want = want
            if ent is None:
                E.require(False, "declared entity missing from its list")
                return
            ok = choice.apply(lambda g, w_: g == w_, ent.permission, want)
            # known finding: bare access statement after the declaration
            if not E.require(ok, "recorded accessibility differs from Fortran's rule"):
                pass

        kf_late = ctx.known("C04-late-default", replay_access)
        kf_opblank = ctx.known("C04-operator-blank", replay_access) if kind in ("operator-interface", "assignment-interface") else None
        h.excl = (bool(kf_late), bool(kf_opblank))
        E = sym.Engine(ctx, max_paths=20000, incremental=True)
        found = E.explore(h)
        seen = set()
        for (label, m, pc), A in list(zip(found, E.autosnaps)):
            prog, where = A["state"]
            cprog = choice.value_in_model(m, prog)
            key = (label, tuple(cprog))
            if label in seen:
                continue
            seen.add(label)
            ctx.report(label, {"program": cprog, "where": where, "expected": choice.value_in_model(m, A["want"])}, replay_access)
        if E.reached.get("parsed"):
            ctx.twins += 1
        else:
            ctx.inconclusive.append("vacuity: parser never completed")
        ctx.bounds.update({"choices": "default stmt (5) x access stmt before (6-7) x declaration spellings x access stmt after x default stmt after"})
        ctx.sample({"kind": kind, "paths": E.paths})

    ob.__doc__ = f"module scope, entity kind {kind}: recorded accessibility = explicit attribute/statement, else the module default, wherever the statements stand"


for _k in list(KINDS) + list(PROC_KINDS):
    _module_ob(_k)


# ---------------------------------------------------------------------------------------
# derived-type scope: components and bindings have separate defaults
# ---------------------------------------------------------------------------------------
T_HEAD = [("type t", None), ("type :: t", None), ("type, public :: t", "public"), ("type, private :: t", "private"),
          ("TYPE,PRIVATE::T", "private")]
T_NOOP = "sequence"
TD_OPTS = [(T_NOOP, None), ("private", "private"), ("PRIVATE", "private")]
COMP = [("integer :: c", None), ("integer, public :: c", "public"), ("integer, private :: c", "private"),
        ("INTEGER,PRIVATE::C", "private"), ("real, pointer, public :: c(:)", "public"), ("type(t), pointer :: c", None)]
BIND = [
    ("procedure :: b", None, 1), ("procedure b", None, 1), ("procedure, public :: b", "public", 1),
    ("procedure, private :: b", "private", 1), ("PROCEDURE, PRIVATE :: B => impl", "private", 1),
    ("procedure :: b, b2", None, 2), ("procedure, private :: b, b2", "private", 2), ("procedure, public :: b, b2 => impl", "public", 2),
    ("generic :: b => b2, b3", None, 1), ("generic, private :: b => b2", "private", 1), ("GENERIC, PUBLIC :: B => B2, B3", "public", 1),
    ("procedure(iface), deferred, private :: b", "private", 1), ("procedure, nopass, public :: b", "public", 1),
]


def replay_type_access(w):
    f = parserh.parse_concrete(list(w["program"]))
    t = f.modules[0].types[0]
    got = {"type": t.permission, "component": [v.permission for v in t.variables], "bindings": [b.permission for b in t.boundprocs]}
    return got != w["expected"], {"program": w["program"], "ford": got, "fortran_rule": w["expected"]}


def _type_scope_ob(name, vary):
    @obligation("C04", "O4.type-scope." + name, engine="SX(CV)", timeout=1800)
    def ob(ctx):
        import ford.sourceform as sf

        ctx.encode_fn(sf.FortranContainer.__init__)
        ctx.encode_fn(sf.FortranType._initialize)
        ctx.encode_fn(sf.FortranBoundProcedure._initialize)
        ctx.encode_fn(sf.line_to_variables)
        ctx.stubs.append("FortranReader replaced by the list of symbolic statements")

        def pick(E, nm, opts):
            # a slot is symbolic when it is in `vary` (or in the thorough tier), else its first two options
            if nm in vary or ctx.thorough:
                return CV.choice(E, nm, opts)
            return CV.choice(E, nm, opts[:2])

        def h(E):
            d0 = pick(E, "d0", D_OPTS)
            hd = pick(E, "thead", T_HEAD)
            td = pick(E, "td", TD_OPTS)
            c = pick(E, "comp", COMP)
            bd = pick(E, "bd", TD_OPTS)
            b = pick(E, "bind", BIND)
            prog = ["module m", d0[0], hd[0], td[0], c[0], "contains", bd[0], b[0], "end type t", "end module m"]
            h.prog = prog
            f = parserh.parse(list(prog))
            t = f.modules[0].types[0]
            E.reachable("parsed")
            want_t = choice.apply(lambda a, d: a or d or "public", hd[1], d0[1])
            want_c = choice.apply(lambda a, d: a or d or "public", c[1], td[1])
            want_b = choice.apply(lambda a, d: a or d or "public", b[1], bd[1])
            nb = b[2]
            h.want = {"type": want_t, "component": [want_c], "bindings": choice.apply(lambda w_, n: [w_] * n, want_b, nb)}
            E.require(choice.apply(lambda g, w_: g == w_, t.permission, want_t), "type accessibility differs from Fortran's rule")
            E.require(choice.apply(lambda n: n == 1, len(t.variables)), "component missing")
            for v in t.variables:
                E.require(choice.apply(lambda g, w_: g == w_, v.permission, want_c), "component accessibility differs from Fortran's rule")
            E.require(choice.apply(lambda n, k: n == k, len(t.boundprocs), nb), "number of bindings differs from the declaration")
            for bp in t.boundprocs:
                E.require(choice.apply(lambda g, w_: g == w_, bp.permission, want_b), "binding accessibility differs from Fortran's rule")

        E = sym.Engine(ctx, max_paths=20000, incremental=True)
        found = E.explore(h)
        seen = set()
        for (label, m, pc), A in list(zip(found, E.autosnaps)):
            if label in seen:
                continue
            seen.add(label)
            ctx.report(label, {"program": choice.value_in_model(m, A["prog"]),
                               "expected": {k: choice.value_in_model(m, v) for k, v in A["want"].items()}}, replay_type_access)
        if E.reached.get("parsed"):
            ctx.twins += 1
        else:
            ctx.inconclusive.append("vacuity: parser never completed")
        ctx.bounds.update({"fully symbolic slots": sorted(vary) if not ctx.thorough else "all",
                           "option counts": {"module default": len(D_OPTS), "type header": len(T_HEAD), "component default": len(TD_OPTS),
                                             "component": len(COMP), "binding default": len(TD_OPTS), "binding": len(BIND)}})
        ctx.sample({"paths": E.paths})

    ob.__doc__ = ("derived type: own accessibility, component default (PRIVATE before CONTAINS) and binding default (PRIVATE after "
                  "CONTAINS) are tracked separately and overridden by attributes; varying " + ", ".join(sorted(vary)))


_type_scope_ob("type-own", {"d0", "thead"})
_type_scope_ob("components", {"td", "comp", "thead"})
_type_scope_ob("bindings", {"bd", "bind", "thead"})


# ---------------------------------------------------------------------------------------
# submodule scope: entities of a submodule are private unless given an explicit access
# ---------------------------------------------------------------------------------------
SUB_HEAD = ["submodule (parent) sub", "SUBMODULE (PARENT) SUB", "submodule(parent:mid) sub"]


def replay_submodule(w):
    f = parserh.parse_concrete(list(w["program"]))
    sm = f.submodules[0]
    got = {"variable": [v.permission for v in sm.variables], "type": [t.permission for t in sm.types],
           "subroutine": [s_.permission for s_ in sm.subroutines]}
    return got != w["expected"], {"program": w["program"], "ford": got, "fortran_rule": w["expected"]}


@obligation("C04", "O4.submodule-scope", engine="SX(CV)", timeout=900)
def submodule_scope(ctx):
    """entities declared in a submodule are private by default; an explicit attribute overrides"""
    import ford.sourceform as sf

    ctx.encode_fn(sf.FortranContainer.__init__)
    ctx.encode_fn(sf.FortranSubmodule._initialize)

    def h(E):
        hd = CV.choice(E, "head", SUB_HEAD)
        vt, vattr = _slot(E, "var", KINDS["variable"][1][:6])
        tt, tattr = _slot(E, "type", [("type t", None), ("type, public :: t", "public"), ("type, private :: t", "private")])
        prog = [hd, vt, tt, "integer :: c", "end type t", "contains", "subroutine s()", "end subroutine s", "end submodule sub"]
        E.e.snapshot = lambda m: {"program": choice.value_in_model(m, prog), "expected": choice.value_in_model(m, h.want)}
        h.want = choice.apply(lambda a, b: {"variable": [a or "private"], "type": [b or "private"], "subroutine": ["private"]}, vattr, tattr)
        f = parserh.parse(list(prog))
        sm = f.submodules[0]
        E.reachable("parsed")
        E.require(choice.apply(lambda n: n == 1, len(sm.variables)), "variable missing")
        E.require(choice.apply(lambda g, w_: g == w_["variable"][0], sm.variables[0].permission, h.want), "submodule variable accessibility")
        E.require(choice.apply(lambda g, w_: g == w_["type"][0], sm.types[0].permission, h.want), "submodule type accessibility")
        E.require(choice.apply(lambda g: g == "private", sm.subroutines[0].permission), "submodule procedure accessibility")

    E = sym.Engine(ctx, max_paths=5000, incremental=True)
    found = E.explore(h)
    seen = set()
    for (label, m, pc), snap in zip(found, E.snapshots):
        if label in seen:
            continue
        seen.add(label)
        ctx.report(label, snap, replay_submodule)
    if E.reached.get("parsed"):
        ctx.twins += 1
    else:
        ctx.inconclusive.append("vacuity: parser never completed")
    ctx.sample({"heads": SUB_HEAD})
