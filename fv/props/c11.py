"""C11 — [[...]] references link to the entity the documented rules select (kernel: convert_link/find_child/Project.find)."""
import pathlib

import z3

from fv import sym, choice, patch, parserh, standins as S, rx
from fv.choice import CV
from fv.core import obligation
from fv.props import META

META["C11"] = {
    "explanation": "Kernel of C11: (a) RX — LINK_RE accepts exactly the documented reference syntax [[name(kind):item(kind)]]; (b) the real "
    "FordLinkProcessor.convert_link (with the real find_child / Project.find on a really parsed and correlated project) runs with "
    "a symbolic reference text (finite choice of spellings: bare name, every qualifier synonym, child part with/without "
    "qualifier, missing targets) in each documentation context (module, type, component, bound procedure, procedure, "
    "argument, project file): the link target must be the entity the documented lookup selects — the context's own "
    "contents, then its parent's, then the whole project — and a missing target yields an element without href.",
    "outside": ["URL relativisation from each page (relpath)", "code-span priority inside python-markdown", "external projects"],
    "assumptions": ["oracle: fv/props/c11.py::select (from docs/user_guide/writing_documentation.rst)"],
}

PROG = {
    "a.f90": ["module mod_a", "integer :: count", "abstract interface", "function area_fn(r)", "real :: r, area_fn", "end function area_fn",
              "end interface", "type stack", "integer :: items", "integer :: count", "contains",
              "procedure :: push", "final :: wipe", "end type stack", "contains",
              "subroutine push(self)", "class(stack) :: self", "end subroutine push",
              "subroutine wipe(self)", "type(stack) :: self", "end subroutine wipe",
              "subroutine work(n)", "integer :: n", "contains", "function scale(x)", "real :: x, scale", "end function scale",
              "end subroutine work", "end module mod_a"],
    "b.f90": ["module mod_b", "type circle", "real :: r", "end type circle", "interface circle", "module procedure new_circle", "end interface circle",
              "contains", "function scale(x)", "real :: x, scale", "end function scale",
              "function new_circle()", "type(circle) :: new_circle", "end function new_circle", "end module mod_b"],
}
PSET = dict(proc_internals=True, display=["public", "private", "protected"])

# abstract description of what the program declares: entity path -> (kind, {child kind: [names]})
TREE = {
    "mod_a": ("module", {"variable": ["count"], "type": ["stack"], "subroutine": ["push", "wipe", "work"], "absinterface": ["area_fn"]}),
    "mod_a/area_fn": ("absinterface", {}),
    "mod_a/stack": ("type", {"variable": ["items", "count"], "bound": ["push"], "final": ["wipe@finalproc"]}),
    "mod_a/stack/wipe@finalproc": ("final", {}), "mod_a/wipe": ("subroutine", {"variable": ["self"]}),
    "mod_a/push": ("subroutine", {"variable": ["self"]}),
    "mod_a/work": ("subroutine", {"variable": ["n"], "function": ["scale"]}),
    "mod_a/work/scale": ("function", {"variable": ["x"]}),
    # a type and its overridden constructor (generic interface) share the name `circle`: the case the user guide gives for qualifiers.
    # Unqualified lookups find types before interfaces (the order of FortranBase.children).
    "mod_b": ("module", {"function": ["scale", "new_circle"], "type": ["circle"], "interface": ["circle@interface"]}),
    "mod_b/scale": ("function", {"variable": ["x"]}),
    "mod_b/circle": ("type", {"variable": ["r"]}), "mod_b/circle/r": ("variable", {}),
    "mod_b/circle@interface": ("interface", {}), "mod_b/new_circle": ("function", {}),
    "mod_a/stack/items": ("variable", {}), "mod_a/stack/count": ("variable", {}), "mod_a/stack/push": ("bound", {}),
    "mod_a/count": ("variable", {}), "mod_a/work/n": ("variable", {}),
}
PROJECT_LEVEL = {  # what Project.find searches: kind -> {name: path}
    "module": {"mod_a": "mod_a", "mod_b": "mod_b"},
    "type": {"stack": "mod_a/stack", "circle": "mod_b/circle"},
    "procedure": {"push": "mod_a/push", "wipe": "mod_a/wipe", "work": "mod_a/work", "scale": "mod_b/scale", "new_circle": "mod_b/new_circle",
                  "circle": "mod_b/circle@interface"},
    "absinterface": {"area_fn": "mod_a/area_fn"},
}
KIND_SYN = {"procedure": "procedure", "proc": "procedure", "subroutine": "procedure", "function": "procedure", "type": "type", "module": "module",
            "interface": "absinterface", "absinterface": "absinterface"}
CHILD_OK = {"variable": ("variable",), "function": ("function",), "subroutine": ("subroutine",), "type": ("type",), "bound": ("bound",),
            "absinterface": ("absinterface",), "interface": ("interface",)}

CONTEXTS = ["mod_a", "mod_a/stack", "mod_a/stack/items", "mod_a/stack/push", "mod_a/work", "mod_a/work/n", None]

# (reference text, name, kind, child, child kind)
LINKS = [
    ("[[count]]", "count", None, None, None), ("[[count(variable)]]", "count", "variable", None, None),
    ("[[items]]", "items", None, None, None), ("[[items(variable)]]", "items", "variable", None, None),
    ("[[scale]]", "scale", None, None, None), ("[[scale(function)]]", "scale", "function", None, None),
    ("[[scale(proc)]]", "scale", "proc", None, None), ("[[scale(procedure)]]", "scale", "procedure", None, None),
    ("[[stack]]", "stack", None, None, None), ("[[stack(type)]]", "stack", "type", None, None),
    ("[[stack:items]]", "stack", None, "items", None), ("[[stack(type):count(variable)]]", "stack", "type", "count", "variable"),
    ("[[mod_b]]", "mod_b", None, None, None), ("[[mod_b(module):scale]]", "mod_b", "module", "scale", None),
    ("[[mod_b:scale(function)]]", "mod_b", None, "scale", "function"), ("[[work]]", "work", None, None, None),
    ("[[push]]", "push", None, None, None), ("[[nowhere]]", "nowhere", None, None, None), ("[[stack:nowhere]]", "stack", None, "nowhere", None),
    ("[[area_fn]]", "area_fn", None, None, None), ("[[area_fn(interface)]]", "area_fn", "interface", None, None),
    ("[[area_fn(absinterface)]]", "area_fn", "absinterface", None, None), ("[[AREA_FN(Interface)]]", "area_fn", "interface", None, None),
    ("[[mod_a:area_fn(absinterface)]]", "mod_a", None, "area_fn", "absinterface"),
    ("[[mod_b:circle]]", "mod_b", None, "circle", None), ("[[mod_b:circle(interface)]]", "mod_b", None, "circle", "interface"),
    ("[[mod_b:circle(type)]]", "mod_b", None, "circle", "type"), ("[[MOD_B(module):Circle(Interface)]]", "mod_b", "module", "circle", "interface"),
    ("[[circle]]", "circle", None, None, None), ("[[circle(type)]]", "circle", "type", None, None), ("[[circle(proc)]]", "circle", "proc", None, None),
    ("[[circle:r]]", "circle", None, "r", None), ("[[mod_b:new_circle(function)]]", "mod_b", None, "new_circle", "function"),
    # a final procedure is an item of its type (anchor on the type's page); the subroutine it names is a procedure of the module
    ("[[stack:wipe]]", "stack", None, "wipe", None), ("[[stack:wipe(final)]]", "stack", None, "wipe", "final"),
    ("[[stack(type):wipe(final)]]", "stack", "type", "wipe", "final"), ("[[wipe]]", "wipe", None, None, None),
    ("[[mod_a:wipe]]", "mod_a", None, "wipe", None),
    # `procedure` / `proc` name procedures of the project, also from the documentation of a type that has a binding of that name
    ("[[push(procedure)]]", "push", "procedure", None, None), ("[[push(proc)]]", "push", "proc", None, None),
    ("[[push(subroutine)]]", "push", "subroutine", None, None), ("[[wipe(procedure)]]", "wipe", "procedure", None, None),
]


def _children(path, kind=None):
    """[(name, child path)] in the order the documentation lists contents; kind filter when qualified"""
    if path is None:
        return []
    if path == "mod_a/stack/push":
        # the contents of a type-bound procedure are the procedures it is bound to
        return [("push", "mod_a/push")] if kind in (None, "subroutine", "proc", "procedure", "bound") else []
    out = []
    for k, names in TREE[path][1].items():
        if kind is None or k in CHILD_OK.get(kind, (kind,)) or (kind in ("proc", "procedure") and k in ("function", "subroutine")):
            for n in names:
                out.append((n.split("@")[0], f"{path}/{n}"))
    return out


def _can_hold(path, kind):
    """can an entity of this kind have children of `kind` at all (else the lookup is skipped)?"""
    holder = TREE[path][0]
    allowed = {"module": {"variable", "type", "subroutine", "function", "interface", "absinterface"},
               "type": {"variable", "bound", "final", "constructor"},
               "subroutine": {"variable", "type", "subroutine", "function", "interface", "absinterface"},
               "function": {"variable", "type", "subroutine", "function", "interface", "absinterface"},
               "variable": set(), "bound": {"bound", "subroutine", "function"}}
    return kind in allowed[holder]


def select(ctx_path, name, kind, child, child_kind):
    """path of the entity the documented rules select, or None"""
    item = None
    if ctx_path is not None:
        for scope in (ctx_path, ctx_path.rsplit("/", 1)[0] if "/" in ctx_path else None):
            if scope is None or item is not None:
                continue
            if kind is not None and (kind not in ("variable", "type", "function", "subroutine", "bound", "absinterface", "interface")
                                     or not _can_hold(scope, kind)):
                continue
            for n, p in _children(scope, kind):
                if n == name:
                    item = p
                    break
        if item is not None and child:
            hits = [p for n, p in _children(item, child_kind) if n == child]
            item = hits[0] if hits else None
            if item is not None:
                return item
    if item is None:
        k = KIND_SYN.get(kind) if kind else None
        if kind is not None and k is None:
            return "ERROR"
        cands = [PROJECT_LEVEL[k]] if k else [PROJECT_LEVEL["module"], PROJECT_LEVEL["type"], PROJECT_LEVEL["procedure"], PROJECT_LEVEL["absinterface"]]
        for tab in cands:
            if name in tab:
                item = tab[name]
                break
        if item is not None and child:
            hits = [p for n, p in _children(item, child_kind) if n == child]
            if hits:
                return hits[0]
            # documented fall-back: link to the parent's page with a warning
            return item
    return item


def _entity(project, path):
    parts = path.split("/")
    ent = [m for m in project.modules if m.name == parts[0]][0]
    for p_ in parts[1:]:
        nxt = None
        lists = ("types", "subroutines", "functions", "variables", "boundprocs", "finalprocs", "args", "absinterfaces", "interfaces")
        if "@" in p_:
            p_, only = p_.split("@")
            lists = (only + "s",)
        for l in lists:
            for c in getattr(ent, l, []) or []:
                if getattr(c, "name", None) == p_:
                    nxt = c
                    break
            if nxt is not None:
                break
        ent = nxt
    return ent


def _run_link(project, ctx_ent, text):
    import ford._markdown as mk

    md = S.Rec(current_context=ctx_ent, base_url=pathlib.Path("/base"), current_path=pathlib.Path("/base/page"))
    proc = object.__new__(mk.FordLinkProcessor)
    proc.project, proc.md = project, md
    m = mk.FordLinkProcessor.LINK_RE.match(text)
    if not m:
        return "NO-MATCH"
    try:
        el = proc.convert_link(m)
    except ValueError:
        return "ERROR"
    return el.attrib.get("href")


def _expected_href(project, path):
    import os
    if path is None:
        return None
    if path == "ERROR":
        return "ERROR"
    return os.path.relpath(pathlib.Path("/base") / _entity(project, path).get_url(), pathlib.Path("/base/page"))


def replay_link(w):
    import io, contextlib
    with contextlib.redirect_stdout(io.StringIO()), contextlib.redirect_stderr(io.StringIO()):
        p = parserh.project_concrete({k: list(v) for k, v in PROG.items()}, **PSET)
        ctx_ent = _entity(p, w["context"]) if w["context"] else None
        got = _run_link(p, ctx_ent, w["link"])
        want = _expected_href(p, select(w["context"], w["name"], w["kind"], w["child"], w["child_kind"]))
    return got != want, {"context": w["context"], "link": w["link"], "ford_href": got, "documented_rule_href": want}


@obligation("C11", "O2.lookup-order", engine="SX(CV)", timeout=1800)
def lookup(ctx):
    """convert_link in every documentation context x every reference spelling of the table: own contents, then the parent's,
    then the project; qualifiers honoured; missing targets give no href"""
    import io, contextlib
    import ford._markdown as mk
    import ford.sourceform as sf
    import ford.fortran_project as fp

    ctx.encode_fn(mk.FordLinkProcessor.convert_link)
    ctx.encode_fn(sf.FortranBase.find_child)
    ctx.encode_fn(fp.Project.find)
    ctx.encode_re("LINK_RE", mk.FordLinkProcessor.LINK_RE)
    ctx.bounds.update({"contexts": CONTEXTS, "references": len(LINKS)})
    with contextlib.redirect_stdout(io.StringIO()), contextlib.redirect_stderr(io.StringIO()):
        project = parserh.project_concrete({k: list(v) for k, v in PROG.items()}, **PSET)
    done = 0
    for cpath in CONTEXTS:
        ctx_ent = _entity(project, cpath) if cpath else None
        exp = [(t, _expected_href(project, select(cpath, n, k, c, ck))) for (t, n, k, c, ck) in LINKS]

        def h(E, ctx_ent=ctx_ent, exp=exp):
            link = CV.choice(E, "link", [(t, e) for t, e in exp])
            h.link = link
            with contextlib.redirect_stdout(io.StringIO()), contextlib.redirect_stderr(io.StringIO()):
                got = _run_link(project, ctx_ent, link[0])
            E.reachable("converted")
            E.require(choice.apply(lambda g, w_: g == w_, got, link[1]), "reference resolved to a different target than the documented lookup selects")

        with patch.patched(mk, sf, fp):
            E = sym.Engine(ctx, max_paths=5000, incremental=True)
            found = E.explore(h)
            seen = set()
            for (label, m, pc), A in list(zip(found, E.autosnaps)):
                t, e = choice.value_in_model(m, A["link"])
                if t in seen:
                    continue
                seen.add(t)
                row = [r for r in LINKS if r[0] == t][0]
                ctx.report(label, {"context": cpath, "link": t, "name": row[1], "kind": row[2], "child": row[3], "child_kind": row[4]}, replay_link)
                if len(seen) >= 3:
                    break
            if E.reached.get("converted"):
                done += 1
    if done == len(CONTEXTS):
        ctx.twins += 1
    else:
        ctx.inconclusive.append(f"vacuity: convert_link completed in {done}/{len(CONTEXTS)} contexts only")
    ctx.sample({"contexts": CONTEXTS, "links": [l[0] for l in LINKS[:8]]})


@obligation("C11", "O1.link-syntax", engine="RX", timeout=300)
def syntax(ctx):
    """LINK_RE = the documented reference syntax [[name(kind):item(kind)]] (both inclusions, unbounded)"""
    import ford._markdown as mk

    pat = mk.FordLinkProcessor.LINK_RE
    ctx.encode_re("LINK_RE", pat)
    word = rx.plus(rx.WORD)
    name = rx.seq(word, rx.opt(".", word))
    q = rx.opt("(", word, ")")
    spec = rx.seq("[[", name, q, rx.opt(":", word, q), "]]")
    L = rx.lang(pat, "fullmatch")
    s = z3.String("s")
    ctx.twin("some documented reference", [z3.InRe(s, spec)], 30)
    for label, cs in (("documented syntax ⊆ LINK_RE", [z3.InRe(s, spec), z3.Not(z3.InRe(s, L))]),
                      ("LINK_RE ⊆ documented syntax", [z3.InRe(s, L), z3.Not(z3.InRe(s, spec))])):
        r, m = ctx.solve(label, [z3.InRe(s, rx.FULL)] + cs, 60)
        if r == "sat":
            ctx.report(label, {"text": rx.z3str_to_py(m.eval(s, model_completion=True).as_string())}, replay_syntax)
    ctx.bounds.update({"length": "unbounded", "alphabet": "ASCII"})
    ctx.sample({"pattern": pat.pattern})


def replay_syntax(w):
    import re
    import ford._markdown as mk

    doc = re.compile(r"\[\[\w+(\.\w+)?(\(\w+\))?(:\w+(\(\w+\))?)?\]\]", re.ASCII)
    a = bool(mk.FordLinkProcessor.LINK_RE.fullmatch(w["text"]))
    b = bool(doc.fullmatch(w["text"]))
    return a != b, {"text": w["text"], "LINK_RE": a, "documented": b}


# ---------------------------------------------------------------------------------------
# O3: references written in the PROJECT FILE: the front page lives at the root of project_url, whatever that option is
# ---------------------------------------------------------------------------------------
PROJECT_URLS = ["", "https://example.com/docs", "http://host.org/a/b/", "/srv/www/docs"]
PF_LINKS = [("[[mod_a]]", "mod_a"), ("[[mod_b:scale]]", "mod_b/scale"), ("[[stack(type)]]", "mod_a/stack"), ("[[MOD_A(module):work]]", "mod_a/work")]


def _run_main(project_url, link_text):
    """the real ford.parse_arguments + ford.main on a pre-parsed project; the HTML writer is replaced by a recorder"""
    import io, contextlib, re as _re, tempfile, shutil as _sh
    import ford
    import ford.fortran_project as fp
    import ford.output as fout
    from ford.settings import ProjectSettings

    d = tempfile.mkdtemp(prefix="fvc11-")
    captured = {}

    class Capture:
        def __init__(self, data, proj_docs, project, pagetree):
            captured["docs"] = proj_docs

        def writeout(self):
            pass

    old = (fp.Project, fout.Documentation)
    try:
        with contextlib.redirect_stdout(io.StringIO()), contextlib.redirect_stderr(io.StringIO()):
            project = parserh.project_concrete({k: list(v) for k, v in PROG.items()}, correlate=False, **PSET)  # main() correlates
            fp.Project = lambda st: project
            fout.Documentation = Capture
            data = ProjectSettings(src_dir=["./src"], output_dir="./doc", project_url=project_url, preprocess=False, graph=False, search=False)
            proj_docs, data = "See " + link_text + " for details.", data
            res = ford.parse_arguments({}, proj_docs, data, pathlib.Path(d))
            data, proj_docs = res if isinstance(res[0], ProjectSettings) else res[::-1]
            ford.main(data, proj_docs)
        m = _re.search(r"""href=["']([^"']*)["']""", captured.get("docs", ""))
        return (m.group(1) if m else None), project
    finally:
        fp.Project, fout.Documentation = old
        _sh.rmtree(d, ignore_errors=True)


def replay_pf_link(w):
    import ford.sourceform as sf
    old = sf.namelist
    sf.namelist = sf.NameSelector()
    try:
        href, project = _run_main(w["project_url"], w["link"])
        want = _entity(project, w["path"]).get_url()
    finally:
        sf.namelist = old
    return href != want, {"project_url": w["project_url"], "reference in the project file": w["link"], "href on the front page": href,
                          "page of the entity relative to the front page": want}


@obligation("C11", "O3.project-file-references", engine="SX(CV)", timeout=900)
def project_file_links(ctx):
    """a [[...]] reference in the project file (symbolic spelling) under a symbolic project_url option (empty, http(s), absolute path): the
    href on the front page is the entity's page relative to the documentation root (the front page is index.html at that root)"""
    import ford

    ctx.encode_fn(ford.main)
    ctx.encode_fn(ford.parse_arguments)
    ctx.bounds.update({"project_url values": PROJECT_URLS, "references": [l for l, _ in PF_LINKS]})
    ctx.stubs.append("Project(...) returns the pre-parsed catalogue project; Documentation is a recorder of the converted project-file text")

    def h(E):
        u = CV.choice(E, "project_url", PROJECT_URLS).concretize()   # python-markdown needs concrete text: one path per combination
        l = CV.choice(E, "link", list(range(len(PF_LINKS)))).concretize()
        text, path = PF_LINKS[l]
        E.e.snapshot = lambda m: {"project_url": u, "link": text, "path": path}
        import ford.sourceform as sf
        from fv import patch as _patch
        with _patch.suspended():
            old = sf.namelist
            sf.namelist = sf.NameSelector()
            try:
                href, project = _run_main(u, text)
                want = _entity(project, path).get_url()
            finally:
                sf.namelist = old
        E.reachable("converted")
        E.require(href == want, "reference in the project file does not lead to the entity's page from the front page")

    E = sym.Engine(ctx, max_paths=500, incremental=True)
    found = E.explore(h)
    seen = set()
    for (label, m, pc), snap in zip(found, E.snapshots):
        if label in seen or not snap:
            continue
        seen.add(label)
        ctx.report(label, snap, replay_pf_link)
    if E.reached.get("converted"):
        ctx.twins += 1
    else:
        ctx.inconclusive.append("vacuity: nothing converted")
    ctx.sample({"paths": E.paths})


# ---------------------------------------------------------------------------------------
# O4: references inside code stay verbatim (inline code spans, fenced and indented code blocks); outside they become links
# ---------------------------------------------------------------------------------------
CODE_FORMS = [("See [[mod_a]] now.", True, "plain text"), ("Use `call [[work]](2)` here.", False, "inline code span"),
              ("Use ``[[mod_a]]`` here.", False, "double-backtick code span"), ("Text\n\n    x = [[mod_a]]\n\nmore", False, "indented code block"),
              ("Text\n\n```\ncall [[work]]\n```\n\nmore", False, "fenced code block"), ("A `code` and [[mod_b]] outside.", True, "link next to a code span"),
              ("`a` [[mod_a]] `b`", True, "link between two code spans")]


def _convert_doc(text):
    import io, contextlib
    import ford.sourceform as sf
    from ford._markdown import MetaMarkdown
    old = sf.namelist
    sf.namelist = sf.NameSelector()
    try:
        with contextlib.redirect_stdout(io.StringIO()), contextlib.redirect_stderr(io.StringIO()):
            project = parserh.project_concrete({k: list(v) for k, v in PROG.items()}, **PSET)
            md = MetaMarkdown(".", base_url=pathlib.Path("/base"), project=project)
            return md.reset().convert(text, path=pathlib.Path("/base/page"))
    finally:
        sf.namelist = old


def _code_verdict(html_text):
    import re as _r
    in_code = _r.findall(r"<code[^>]*>(.*?)</code>", html_text, _r.S)
    link_in_code = any("<a " in c or "<a>" in c for c in in_code)
    import html as _h
    verbatim_in_code = any("[[" in _h.unescape(_r.sub(r"<[^>]*>", "", c)) for c in in_code)   # code blocks are syntax-highlighted with <span>s
    outside = _r.sub(r"<code[^>]*>.*?</code>", "", html_text, flags=_r.S)
    return link_in_code, verbatim_in_code, ("<a " in outside), ("[[" in outside)


def replay_code(w):
    html_text = _convert_doc(w["text"])
    lic, vic, lout, vout = _code_verdict(html_text)
    bad = lic or (w["expect_link"] and (not lout or vout)) or (not w["expect_link"] and not vic)
    return bad, {"documentation text": w["text"], "rendered": html_text[:300], "link inside <code>": lic, "reference kept verbatim inside <code>": vic,
                 "link outside code": lout}


@obligation("C11", "O4.references-in-code-stay-verbatim", engine="SX(CV)", timeout=600)
def code_spans(ctx):
    """documentation text with a [[...]] reference in a symbolic position (plain text, inline code span, double-backtick span, indented
    block, fenced block, next to code): inside code the text stays verbatim and no link is made; outside it becomes a link"""
    import ford._markdown as mk

    ctx.encode_fn(mk.FordLinkExtension.extendMarkdown)
    ctx.encode_fn(mk.FordLinkProcessor.handleMatch)
    ctx.bounds.update({"forms": [f[2] for f in CODE_FORMS]})
    ctx.stubs.append("python-markdown needs concrete text: one path per form; MetaMarkdown and the project are real")

    def h(E):
        i = CV.choice(E, "form", list(range(len(CODE_FORMS)))).concretize()
        text, expect_link, what = CODE_FORMS[i]
        E.e.snapshot = lambda m: {"text": text, "expect_link": expect_link, "form": what}
        from fv import patch as _p
        with _p.suspended():
            bad, detail = replay_code({"text": text, "expect_link": expect_link})
        E.reachable("converted")
        E.require(not bad, f"{what}: " + ("a reference inside code was turned into a link / altered" if not expect_link else "a reference outside code was not linked"))

    E = sym.Engine(ctx, max_paths=100, incremental=True)
    found = E.explore(h)
    seen = set()
    for (label, m, pc), snap in zip(found, E.snapshots):
        if label in seen or not snap:
            continue
        seen.add(label)
        ctx.report(label, snap, replay_code)
    if E.reached.get("converted"):
        ctx.twins += 1
    else:
        ctx.inconclusive.append("vacuity: nothing converted")
    ctx.sample({"paths": E.paths})


# ---------------------------------------------------------------------------------------
# O5: a reference written in the documentation of ANY kind of entity is made relative to the page that shows that documentation
# ---------------------------------------------------------------------------------------
KINDS_PROG = {"a.f90": ["module mod_k", "integer :: count", "enum, bind(c)", "enumerator :: red = 1, green", "end enum",
                        "type stack", "integer :: items", "contains", "procedure :: push", "final :: wipe", "end type stack",
                        "interface gen", "module procedure push", "end interface gen",
                        "abstract interface", "subroutine cb()", "end subroutine cb", "end interface",
                        "common /blk/ shared", "namelist /nl/ count", "contains",
                        "subroutine push(self, hook)", "class(stack) :: self", "interface", "subroutine hook()", "end subroutine hook", "end interface",
                        "contains", "subroutine inner()", "end subroutine inner", "end subroutine push",
                        "subroutine wipe(self)", "type(stack) :: self", "end subroutine wipe",
                        "end module mod_k", "program main", "use mod_k", "integer :: local", "end program main"]}


def _kind_entities(p):
    m = p.modules[0]
    t = m.types[0]
    ents = {"module": m, "variable": m.variables[0], "type": t, "component": t.variables[0], "binding": t.boundprocs[0],
            "generic interface": m.interfaces[0], "abstract interface": m.absinterfaces[0], "procedure": m.subroutines[0],
            "dummy argument": m.subroutines[0].args[0], "dummy procedure": m.subroutines[0].args[1], "internal procedure": m.subroutines[0].subroutines[0], "program": p.programs[0],
            "program variable": p.programs[0].variables[0]}
    if getattr(m, "enums", None):
        ents["enum"] = m.enums[0]
        if getattr(m.enums[0], "variables", None):
            ents["enumerator"] = m.enums[0].variables[0]
    if getattr(t, "finalprocs", None):
        ents["final binding"] = t.finalprocs[0]
    if getattr(m, "common", None):
        ents["common block"] = m.common[0]
    if getattr(m, "namelists", None):
        ents["namelist"] = m.namelists[0]
    return ents


def _kind_links(which=None):
    import io, contextlib, os, re as _r
    import ford.sourceform as sf
    from ford._markdown import MetaMarkdown
    old = sf.namelist
    sf.namelist = sf.NameSelector()
    try:
        with contextlib.redirect_stdout(io.StringIO()), contextlib.redirect_stderr(io.StringIO()):
            p = parserh.project_concrete({k: list(v) for k, v in KINDS_PROG.items()}, **PSET)
            md = MetaMarkdown(".", base_url=pathlib.Path("/base"), project=p)
            out = {}
            target = p.modules[0].types[0].get_url()
            for kind, ent in _kind_entities(p).items():
                if which is not None and kind != which:
                    continue
                url = ent.get_url()
                html = md.reset().convert("see [[stack]] here", context=ent)
                m = _r.search(r"""href=["']([^"']*)["']""", html)
                href = m.group(1) if m else None
                want = "/base/" + target
                if url is not None and href is not None:
                    # what the browser opens when the link is followed from the page that shows this documentation
                    href = os.path.normpath(os.path.join(os.path.dirname("/base/" + url.split("#")[0]), href))
                # an entity without a page of its own is shown on (and its URL is an anchor of) the page of the entity that holds it
                host = {"dummy argument": p.modules[0].subroutines[0], "dummy procedure": p.modules[0].subroutines[0], "component": p.modules[0].types[0],
                        "binding": p.modules[0].types[0], "final binding": p.modules[0].types[0], "variable": p.modules[0]}.get(kind)
                if host is not None and url is not None and url.split("#")[0] != host.get_url():
                    href = f"(the documentation of this {kind} is shown on {host.get_url()}, its URL says {url})"
                out[kind] = (url, href, want)
            return out
    finally:
        sf.namelist = old


def replay_kind(w):
    url, href, want = _kind_links(w["kind"]).get(w["kind"], (None, None, None))
    return url is None or href != want, {"documentation of": w["kind"], "its URL (page that shows the documentation)": url, "[[stack]] leads to": href,
                                         "page of stack": want}


@obligation("C11", "O5.references-from-every-entity-kind", engine="SX(CV)", timeout=600)
def links_every_kind(ctx):
    """`[[stack]]` in the documentation of a symbolic kind of entity (module, variable, type, component, binding, final binding, generic and
    abstract interface, procedure, dummy argument, internal procedure, enum, enumerator, common block, namelist, program): the entity has
    a URL (own page or anchor on its parent's page) and the href is the relative path from that page"""
    import ford.sourceform as sf
    import ford._markdown as mk

    ctx.encode_fn(sf.FortranBase.get_url)
    ctx.encode_fn(mk.MetaMarkdown.convert)
    kinds = sorted(_kind_links())
    ctx.bounds.update({"entity kinds": kinds})
    ctx.stubs.append("python-markdown needs concrete text: one path per entity kind; parser, project and MetaMarkdown are real")
    if len(kinds) < 14:
        ctx.inconclusive.append(f"only {len(kinds)} entity kinds found in the catalogue project")

    def h(E):
        k = CV.choice(E, "kind", kinds).concretize()
        E.e.snapshot = lambda m: {"kind": k}
        from fv import patch as _p
        with _p.suspended():
            bad, detail = replay_kind({"kind": k})
        E.reachable("converted")
        E.require(not bad, f"a reference in the documentation of a {k} is not relative to the page showing it (or the {k} has no URL)")

    E = sym.Engine(ctx, max_paths=200, incremental=True)
    found = E.explore(h)
    seen = set()
    for (label, m, pc), snap in zip(found, E.snapshots):
        if label in seen or not snap:
            continue
        seen.add(label)
        ctx.report(label, snap, replay_kind)
    if E.reached.get("converted"):
        ctx.twins += 1
    else:
        ctx.inconclusive.append("vacuity: nothing converted")
    ctx.sample({"paths": E.paths})
