"""C01 — documented entity tree equals the declared program structure (kernel obligations)."""
import io
import contextlib

import z3

from fv import cascade, grammar as G, rx
from fv.core import obligation, Inconclusive
from fv.props import META

META["C01"] = {
    "explanation": "Kernel of C01: the regex cascade of FortranContainer.__init__ (order, patterns and guards read from the "
    "current AST / live compiled patterns) dispatches every statement of a Fortran statement grammar to the designated "
    "branch (language inclusion + disjointness from every earlier branch, unbounded statement length, all letter cases "
    "and blank variants); executable statements reach no declaration-creating branch; match groups equal the grammar's "
    "fields; parse_type/line_to_variables decompose equivalent spellings equally; paren utilities meet their contracts.",
    "outside": ["composition of statements into a whole entity tree beyond one statement in a fixed context template",
                "identifiers that are Fortran keywords", "non-ASCII text", "HTML rendering"],
    "assumptions": ["statement grammar in fv/grammar.py is the specification (F2008 subset)",
                    "z3 regex solver is sound", "lines reach the cascade stripped and literal-masked (C02 obligations)"],
}


# --------------------------------------------------------------------------------------
# contexts in which a statement is embedded for replay, and parser state for the guards
# --------------------------------------------------------------------------------------
def _ctxs():
    import ford.sourceform as sf

    return {
        "top": dict(cls=sf.FortranSourceFile, incontains=False, blocklevel=0, tpl="{w}\n{close}"),
        "modspec": dict(cls=sf.FortranModule, incontains=False, blocklevel=0, tpl="module m\n{w}\n{close}end module m\n"),
        "modcontains": dict(cls=sf.FortranModule, incontains=True, blocklevel=0,
                            tpl="module m\ncontains\n{w}\n{close}end module m\n"),
        "subspec": dict(cls=sf.FortranSubroutine, incontains=False, blocklevel=0,
                        tpl="subroutine s\n{w}\n{close}end subroutine s\n"),
        "typecomp": dict(cls=sf.FortranType, incontains=False, blocklevel=0,
                         tpl="module m\ntype t\n{w}\n{close}end type t\nend module m\n"),
        "typebound": dict(cls=sf.FortranType, incontains=True, blocklevel=0,
                          tpl="module m\ntype t\ncontains\n{w}\n{close}end type t\nend module m\n"),
        "iface": dict(cls=sf.FortranInterface, incontains=False, blocklevel=0,
                      tpl="module m\ninterface g\n{w}\n{close}end interface g\nend module m\n"),
        "enum": dict(cls=sf.FortranEnum, incontains=False, blocklevel=0,
                     tpl="module m\nenum, bind(c)\n{w}\n{close}end enum\nend module m\n"),
        "submod": dict(cls=sf.FortranSubmodule, incontains=True, blocklevel=0,
                       tpl="submodule (a) b\ncontains\n{w}\n{close}end submodule b\n"),
        "endsub": dict(cls=sf.FortranSubroutine, incontains=False, blocklevel=0,
                       tpl="module m\ncontains\nsubroutine s\n{w}\n{close}end module m\n"),
        "exec": dict(cls=sf.FortranSubroutine, incontains=False, blocklevel=0,
                     tpl="subroutine s\ninteger :: q\n{w}\n{close}end subroutine s\n"),
    }


# name, language, designated branch key, context, closing text, canonical example
def _classes():
    return [
        ("contains", rx.kw("contains"), "contains", "modspec", "", "contains"),
        ("access-bare", rx.anyof_kw("public", "private"), "public|private|protected", "modspec", "", "private"),
        ("module-stmt", G.MODULE_STMT, "MODULE_RE", "top", "end module\n", "module mm"),
        ("submodule-stmt", G.SUBMODULE_STMT, "SUBMODULE_RE", "top", "end submodule\n", "submodule (a) bb"),
        ("program-stmt", G.PROGRAM_STMT, "PROGRAM_RE", "top", "end program\n", "program pp"),
        ("blockdata-stmt", G.BLOCKDATA_STMT, "BLOCK_DATA_RE", "top", "end block data\n", "block data bd"),
        ("subroutine-stmt", G.SUBROUTINE_STMT, "SUBROUTINE_RE", "modcontains", "end subroutine\n", "subroutine ss(a)"),
        ("subroutine-stmt-top", G.SUBROUTINE_STMT, "SUBROUTINE_RE", "top", "end subroutine\n", "subroutine ss(a)"),
        ("function-stmt", G.FUNCTION_STMT, "FUNCTION_RE", "modcontains", "end function\n", "function ff(a)"),
        ("function-stmt-top", G.FUNCTION_STMT, "FUNCTION_RE", "top", "end function\n", "function ff(a)"),
        ("type-def", G.TYPE_DEF_STMT, "TYPE_RE", "modspec", "end type\n", "type tt"),
        ("interface-stmt", G.INTERFACE_STMT, "INTERFACE_RE", "modspec", "end interface\n", "interface gg"),
        ("enum-stmt", G.ENUM_STMT, "ENUM_RE", "modspec", "end enum\n", "enum, bind(c)"),
        ("enumerator", G.ENUMERATOR, "VARIABLE_RE", "enum", "", "enumerator :: e1"),
        ("modproc-in-interface", G.MODPROC_STMT, "MODPROC_RE", "iface", "", "module procedure pa"),
        ("procedure-in-interface", G.PROC_IN_INTERFACE_STMT, "MODPROC_RE", "iface", "", "procedure pa"),
        ("separate-module-procedure", G.SEP_MODPROC_STMT, "MODPROC_RE", "submod", "end procedure\n", "module procedure pa"),
        ("bound-procedure", G.BOUNDPROC_STMT, "BOUNDPROC_RE", "typebound", "", "procedure :: pa"),
        ("generic-binding", G.GENERIC_BINDING_STMT, "BOUNDPROC_RE", "typebound", "", "generic :: gg => pa"),
        ("final", G.FINAL_STMT, "FINAL_RE", "typebound", "", "final :: fa"),
        ("common", G.COMMON_STMT, "COMMON_RE", "subspec", "", "common /blk/ va"),
        ("namelist", G.NAMELIST_STMT, "NAMELIST_RE", "subspec", "", "namelist /nl/ va"),
        ("use", G.USE_STMT, "USE_RE", "modspec", "", "use mm"),
        ("variable-decl", G.VAR_DECL, "VARIABLE_RE", "modspec", "", "integer :: va"),
        ("variable-decl-in-sub", G.VAR_DECL, "VARIABLE_RE", "subspec", "", "integer :: va"),
        ("component-decl", G.VAR_DECL, "VARIABLE_RE", "typecomp", "", "integer :: va"),
        ("access-stmt", G.ACCESS_STMT_NAMES_ONLY, "ATTRIB_RE", "modspec", "", "public :: va"),
        ("attr-stmt", G.ATTR_STMT_SIMPLE, "ATTRIB_RE", "subspec", "", "allocatable :: va"),
        ("dimension-stmt", G.DIMENSION_STMT, "ATTRIB_RE", "subspec", "", "dimension va(3)"),
        ("intent-stmt", G.INTENT_STMT, "ATTRIB_RE", "subspec", "", "intent(in) :: va"),
        ("parameter-stmt", G.PARAMETER_STMT, "ATTRIB_RE", "subspec", "", "parameter (va = 1)"),
        ("end-unit", G.END_UNIT_STMT, "END_RE", "endsub", "", "end subroutine s"),
    ]


LISTS = ("modules submodules programs blockdata subroutines functions types interfaces absinterfaces enums "
         "boundprocs finalprocs variables common namelists modprocedures modprocs uses").split()


def signature(ent, depth=0):
    """entity-kind structure of a parsed tree (names ignored)"""
    out = []
    for l in LISTS:
        v = getattr(ent, l, None)
        if isinstance(v, (list, tuple)) and v:
            sub = []
            for x in v:
                if hasattr(x, "obj") and depth < 6:
                    sub.append((getattr(x, "obj", "?"), type(x).__name__, signature(x, depth + 1)))
                else:
                    sub.append(type(x).__name__)
            out.append((l, sub))
    perm = getattr(ent, "permission", None)
    return [out, ("generic", getattr(ent, "generic", None), "abstract", getattr(ent, "abstract", None))]


def parse_sig(text):
    buf = io.StringIO()
    with contextlib.redirect_stdout(buf), contextlib.redirect_stderr(buf):
        try:
            f = cascade.parse_source(text, dbg=False)
        except Exception as e:  # noqa
            return ("EXC", type(e).__name__, str(e)[:200])
    return signature(f)


def replay_dispatch(w):
    """witness: dict(ctx, close, stmt, canonical).  Violation iff the entity-kind
    structure FORD builds for `stmt` differs from the one for the canonical statement of
    the same class in the same context (or FORD raises)."""
    ctx = _ctxs()[w["ctx"]]
    a = parse_sig(ctx["tpl"].format(w=w["stmt"], close=w["close"]))
    b = parse_sig(ctx["tpl"].format(w=w["canonical"], close=w["close"]))
    if isinstance(b, tuple) and b and b[0] == "EXC":
        return False, f"canonical statement itself fails: {b}"
    return a != b, {"stmt": w["stmt"], "got": str(a)[:500], "canonical": w["canonical"], "expected": str(b)[:500]}


def _var_records(ent, out=None):
    out = [] if out is None else out
    for v in list(getattr(ent, "variables", []) or []) + list(getattr(ent, "args", []) or []):
        if hasattr(v, "name"):
            out.append((v.name.lower(), sorted(getattr(v, "attribs", [])), getattr(v, "intent", None),
                        getattr(v, "optional", None), getattr(v, "parameter", None), str(getattr(v, "dimension", None)),
                        str(getattr(v, "initial", None)), getattr(v, "permission", None)))
    for l in ("modules", "subroutines", "functions"):
        for x in getattr(ent, l, []) or []:
            _var_records(x, out)
    return sorted(out)


def parse_vars(text):
    buf = io.StringIO()
    with contextlib.redirect_stdout(buf), contextlib.redirect_stderr(buf):
        try:
            f = cascade.parse_source(text, dbg=False)
        except Exception as e:  # noqa
            return ("EXC", type(e).__name__, str(e)[:200])
    return _var_records(f)


def replay_attr(w):
    """Attribute / access statements create no entity; they must change the record of the
    variables they name.  Every name in the witness is declared first; violation iff FORD's
    variable records with the statement equal those without it (statement ignored) or FORD
    raises."""
    import re as _re

    names = []
    for t in _re.findall(r"[A-Za-z]\w*", w["stmt"]):
        if t.lower() not in G.KEYWORDS and t.lower() not in [n.lower() for n in names]:
            names.append(t)
    if not names:
        return False, "no names in witness"
    first = w["stmt"].split("(")[0].split(":")[0].split()[0].lower() if w["stmt"].strip() else ""
    if w["ctx"] == "modspec":
        default = "private" if first.startswith("public") else "public"
        tpl = "module m\n" + default + "\ninteger :: " + ", ".join(names) + "\n{w}\nend module m\n"
    else:
        tpl = "subroutine s(" + ", ".join(names) + ")\ninteger :: " + ", ".join(names) + "\n{w}\nend subroutine s\n"
    a = parse_vars(tpl.format(w=w["stmt"]))
    b = parse_vars(tpl.format(w=""))
    if isinstance(b, tuple) and b and b[0] == "EXC":
        return False, f"template fails without the statement: {b}"
    return a == b or (isinstance(a, tuple) and a and a[0] == "EXC"), {"stmt": w["stmt"], "with": str(a)[:400], "without": str(b)[:400]}


def _in_alphabet(s):
    return z3.InRe(s, rx.FULL)


ATTR_CLASSES = ("access-stmt", "attr-stmt", "dimension-stmt", "intent-stmt", "parameter-stmt")


def _dispatch_class(ctx, branches, cname, L, designated, cxname, close, canon, benign=()):
    cx = _ctxs()[cxname]
    replay_dispatch_ = replay_attr if cname in ATTR_CLASSES else replay_dispatch
    # known findings: the listed witness must still fail; then its class is excluded
    for kid, kclass, excl in _known_exclusions():
        if kclass == cname and ctx.known(kid, replay_dispatch_):
            L = rx.minus(L, excl)
    s = z3.String("s")
    d = [b for b in branches if b.key == designated]
    if len(d) != 1:
        raise Inconclusive(f"designated branch {designated} not found (or not unique) in the cascade")
    d = d[0]
    # canonical example is in the class (also the vacuity twin: the class is non-empty and the
    # canonical statement is what the replay compares against)
    ctx.twin(f"{cname}: canonical in class", [s == z3.StringVal(canon), z3.InRe(s, L)], 30)
    for b in branches[: d.idx]:
        Lb = cascade.branch_lang(b, cx)
        if Lb is None:
            continue
        label = f"{cname} ∩ earlier[{b.idx}:{b.key}] = ∅"
        r, m = ctx.solve(label, [_in_alphabet(s), z3.InRe(s, L), z3.InRe(s, Lb)], 60)
        if r == "sat":
            w = rx.z3str_to_py(m.eval(s, model_completion=True).as_string())
            ctx.report(label, dict(ctx=cxname, close=close, stmt=w, canonical=canon, stolen_by=b.key), replay_dispatch_)
    Ld = cascade.branch_lang(d, cx)
    label = f"{cname} ⊆ [{d.idx}:{d.key}]"
    if Ld is None:
        ctx.inconclusive.append(f"{label}: guard of designated branch is false in context {cxname}")
        return
    r, m = ctx.solve(label, [_in_alphabet(s), z3.InRe(s, L), z3.Not(z3.InRe(s, Ld))], 60)
    if r == "sat":
        w = rx.z3str_to_py(m.eval(s, model_completion=True).as_string())
        ctx.report(label, dict(ctx=cxname, close=close, stmt=w, canonical=canon, missed_by=d.key), replay_dispatch_)
    ctx.sample({"class": cname, "canonical": canon, "designated": designated, "context": cxname})


def _known_exclusions():
    """(known-finding id, statement class, language excluded from the class while the
    finding is open)"""
    return [
        ("C01-parameter-stmt-no-blank", "parameter-stmt", rx.seq(rx.kw("parameter"), "(", rx.FULL)),
        ("C01-intent-stmt-no-blank", "intent-stmt", rx.seq(G.INTENT, G.NAME, rx.FULL)),
        ("C01-intent-stmt-in-out", "intent-stmt",
         rx.seq(rx.kw("intent"), rx.WS, "(", rx.WS, rx.kw("in"), rx.WS1, rx.kw("out"), rx.FULL)),
    ]


def _encode_cascade(ctx):
    branches, src = cascade.extract()
    ctx.encode_text("FortranContainer.__init__ (cascade order and guards)", src, "python-source")
    for b in branches:
        for attr, _ in b.pats:
            ctx.encode_re(attr, cascade.live_pattern(attr))
    ctx.bounds.update({"statement_length": "unbounded", "alphabet": "ASCII 9..126", "identifier_length": "unbounded"})
    return branches


def _register():
    # class languages are built lazily inside the worker (z3 objects are per-process)
    names = [
        "contains", "access-bare", "module-stmt", "submodule-stmt", "program-stmt", "blockdata-stmt", "subroutine-stmt",
        "subroutine-stmt-top", "function-stmt", "function-stmt-top", "type-def", "interface-stmt", "enum-stmt", "enumerator",
        "modproc-in-interface", "procedure-in-interface", "separate-module-procedure", "bound-procedure", "generic-binding",
        "final", "common", "namelist", "use", "variable-decl", "variable-decl-in-sub", "component-decl", "access-stmt",
        "attr-stmt", "dimension-stmt", "intent-stmt", "parameter-stmt", "end-unit",
    ]
    for nm in names:
        def mk(nm=nm):
            @obligation("C01", f"O1.dispatch.{nm}", engine="RX", timeout=600)
            def ob(ctx):
                branches = _encode_cascade(ctx)
                row = [c for c in _classes() if c[0] == nm][0]
                _dispatch_class(ctx, branches, *row)
            ob.__doc__ = f"every '{nm}' statement of the grammar reaches its designated cascade branch and no earlier one"
        mk()


_register()


# --------------------------------------------------------------------------------------
# O-2: executable statements create nothing
# --------------------------------------------------------------------------------------
ALLOWED_FOR_EXEC = {"ARITH_GOTO_RE", "CALL_RE|SUBCALL_RE", "FORMAT_RE"}


def replay_exec(w):
    """Violation iff inserting the executable statement changes the entity structure of
    the enclosing subroutine (or makes FORD raise)."""
    ctx = _ctxs()["exec"]
    a = parse_sig(ctx["tpl"].format(w=w["stmt"], close=""))
    b = parse_sig(ctx["tpl"].format(w="continue", close=""))
    return a != b, {"stmt": w["stmt"], "got": str(a)[:500], "expected": str(b)[:500]}


def _register_exec():
    for nm in G.EXEC_CLASSES:
        def mk(nm=nm):
            @obligation("C01", f"O2.exec-creates-nothing.{nm}", engine="RX", timeout=600)
            def ob(ctx):
                branches = _encode_cascade(ctx)
                L = G.EXEC_CLASSES[nm]
                cx = _ctxs()["exec"]
                s = z3.String("s")
                m = ctx.twin(f"{nm}: class non-empty", [_in_alphabet(s), z3.InRe(s, L)], 30)
                if m is not None:
                    ctx.sample({"class": nm, "member": rx.z3str_to_py(m.eval(s, model_completion=True).as_string())})
                for b in branches:
                    if b.key in ALLOWED_FOR_EXEC:
                        continue
                    Lb = cascade.branch_lang(b, cx)
                    if Lb is None:
                        continue
                    label = f"exec:{nm} ∩ [{b.idx}:{b.key}] = ∅"
                    r, m = ctx.solve(label, [_in_alphabet(s), z3.InRe(s, L), z3.InRe(s, Lb)], 60)
                    if r == "sat":
                        w = rx.z3str_to_py(m.eval(s, model_completion=True).as_string())
                        ctx.report(label, dict(stmt=w, taken_by=b.key), replay_exec)
            ob.__doc__ = f"no '{nm}' statement is taken by a declaration/structure branch of the cascade"
        mk()


_register_exec()
