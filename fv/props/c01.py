"""C01 — documented entity tree equals the declared program structure (kernel obligations)."""
import io
import contextlib

import z3

from fv import cascade, grammar as G, rx
from fv.core import obligation, Inconclusive
from fv.props import META

META["C01"] = {
    "explanation": "Kernel of C01: the regex cascade of FortranContainer.__init__ (order, patterns and guards read from the "
    "current AST / live compiled patterns) dispatches every statement of a Fortran statement grammar to the designated "
    "branch (language inclusion + disjointness from every earlier branch, unbounded statement length, all letter cases "
    "and blank variants); executable statements reach no declaration-creating branch; match groups equal the grammar's "
    "fields; parse_type/line_to_variables decompose equivalent spellings equally; paren utilities meet their contracts.",
    "outside": ["composition of statements into a whole entity tree beyond one statement in a fixed context template",
                "identifiers that are Fortran keywords", "non-ASCII text", "HTML rendering"],
    "assumptions": ["statement grammar in fv/grammar.py is the specification (F2008 subset)",
                    "z3 regex solver is sound", "lines reach the cascade stripped and literal-masked (C02 obligations)"],
}


# --------------------------------------------------------------------------------------
# contexts in which a statement is embedded for replay, and parser state for the guards
# --------------------------------------------------------------------------------------
def _ctxs():
    import ford.sourceform as sf

    return {
        "top": dict(cls=sf.FortranSourceFile, incontains=False, blocklevel=0, tpl="{w}\n{close}"),
        "modspec": dict(cls=sf.FortranModule, incontains=False, blocklevel=0, tpl="module m\n{w}\n{close}end module m\n"),
        "modcontains": dict(cls=sf.FortranModule, incontains=True, blocklevel=0,
                            tpl="module m\ncontains\n{w}\n{close}end module m\n"),
        "subspec": dict(cls=sf.FortranSubroutine, incontains=False, blocklevel=0,
                        tpl="subroutine s\n{w}\n{close}end subroutine s\n"),
        "typecomp": dict(cls=sf.FortranType, incontains=False, blocklevel=0,
                         tpl="module m\ntype t\n{w}\n{close}end type t\nend module m\n"),
        "typebound": dict(cls=sf.FortranType, incontains=True, blocklevel=0,
                          tpl="module m\ntype t\ncontains\n{w}\n{close}end type t\nend module m\n"),
        "iface": dict(cls=sf.FortranInterface, incontains=False, blocklevel=0,
                      tpl="module m\ninterface g\n{w}\n{close}end interface g\nend module m\n"),
        "enum": dict(cls=sf.FortranEnum, incontains=False, blocklevel=0,
                     tpl="module m\nenum, bind(c)\n{w}\n{close}end enum\nend module m\n"),
        "submod": dict(cls=sf.FortranSubmodule, incontains=True, blocklevel=0,
                       tpl="submodule (a) b\ncontains\n{w}\n{close}end submodule b\n"),
        "endsub": dict(cls=sf.FortranSubroutine, incontains=False, blocklevel=0,
                       tpl="module m\ncontains\nsubroutine s\n{w}\n{close}end module m\n"),
        "exec": dict(cls=sf.FortranSubroutine, incontains=False, blocklevel=0,
                     tpl="subroutine s\ninteger :: q\n{w}\n{close}end subroutine s\n"),
    }


# name, language, designated branch key, context, closing text, canonical example
def _classes():
    return [
        ("contains", rx.kw("contains"), "contains", "modspec", "", "contains"),
        ("access-bare", rx.anyof_kw("public", "private"), "private|protected|public", "modspec", "", "private"),
        ("module-stmt", G.MODULE_STMT, "MODULE_RE", "top", "end module\n", "module mm"),
        ("submodule-stmt", G.SUBMODULE_STMT, "SUBMODULE_RE", "top", "end submodule\n", "submodule (a) bb"),
        ("program-stmt", G.PROGRAM_STMT, "PROGRAM_RE", "top", "end program\n", "program pp"),
        ("blockdata-stmt", G.BLOCKDATA_STMT, "BLOCK_DATA_RE", "top", "end block data\n", "block data bd"),
        ("subroutine-stmt", G.SUBROUTINE_STMT, "SUBROUTINE_RE", "modcontains", "end subroutine\n", "subroutine ss(a)"),
        ("subroutine-stmt-top", G.SUBROUTINE_STMT, "SUBROUTINE_RE", "top", "end subroutine\n", "subroutine ss(a)"),
        ("function-stmt", G.FUNCTION_STMT, "FUNCTION_RE", "modcontains", "end function\n", "function ff(a)"),
        ("function-stmt-top", G.FUNCTION_STMT, "FUNCTION_RE", "top", "end function\n", "function ff(a)"),
        ("type-def", G.TYPE_DEF_STMT, "TYPE_RE", "modspec", "end type\n", "type tt"),
        ("interface-stmt", G.INTERFACE_STMT, "INTERFACE_RE", "modspec", "end interface\n", "interface gg"),
        ("enum-stmt", G.ENUM_STMT, "ENUM_RE", "modspec", "end enum\n", "enum, bind(c)"),
        ("enumerator", G.ENUMERATOR, "VARIABLE_RE", "enum", "", "enumerator :: e1"),
        ("modproc-in-interface", G.MODPROC_STMT, "MODPROC_RE", "iface", "", "module procedure pa"),
        ("procedure-in-interface", G.PROC_IN_INTERFACE_STMT, "MODPROC_RE", "iface", "", "procedure pa"),
        ("separate-module-procedure", G.SEP_MODPROC_STMT, "MODPROC_RE", "submod", "end procedure\n", "module procedure pa"),
        ("bound-procedure", G.BOUNDPROC_STMT, "BOUNDPROC_RE", "typebound", "", "procedure :: pa"),
        ("generic-binding", G.GENERIC_BINDING_STMT, "BOUNDPROC_RE", "typebound", "", "generic :: gg => pa"),
        ("final", G.FINAL_STMT, "FINAL_RE", "typebound", "", "final :: fa"),
        ("common", G.COMMON_STMT, "COMMON_RE", "subspec", "", "common /blk/ va"),
        ("namelist", G.NAMELIST_STMT, "NAMELIST_RE", "subspec", "", "namelist /nl/ va"),
        ("use", G.USE_STMT, "USE_RE", "modspec", "", "use mm"),
        ("variable-decl", G.VAR_DECL, "VARIABLE_RE", "modspec", "", "integer :: va"),
        ("variable-decl-in-sub", G.VAR_DECL, "VARIABLE_RE", "subspec", "", "integer :: va"),
        ("component-decl", G.VAR_DECL, "VARIABLE_RE", "typecomp", "", "integer :: va"),
        ("access-stmt", G.ACCESS_STMT_NAMES_ONLY, "ATTRIB_RE", "modspec", "", "public :: va"),
        ("attr-stmt", G.ATTR_STMT_SIMPLE, "ATTRIB_RE", "subspec", "", "allocatable :: va"),
        ("dimension-stmt", G.DIMENSION_STMT, "ATTRIB_RE", "subspec", "", "dimension va(3)"),
        ("intent-stmt", G.INTENT_STMT, "ATTRIB_RE", "subspec", "", "intent(in) :: va"),
        ("parameter-stmt", G.PARAMETER_STMT, "ATTRIB_RE", "subspec", "", "parameter (va = 1)"),
        ("end-unit", G.END_UNIT_STMT, "END_RE", "endsub", "", "end subroutine s"),
    ]


LISTS = ("modules submodules programs blockdata subroutines functions types interfaces absinterfaces enums "
         "boundprocs finalprocs variables common namelists modprocedures modprocs uses").split()


def signature(ent, depth=0):
    """entity-kind structure of a parsed tree (names ignored)"""
    out = []
    for l in LISTS:
        v = getattr(ent, l, None)
        if isinstance(v, (list, tuple)) and v:
            sub = []
            for x in v:
                if hasattr(x, "obj") and depth < 6:
                    sub.append((getattr(x, "obj", "?"), type(x).__name__, signature(x, depth + 1)))
                else:
                    sub.append(type(x).__name__)
            out.append((l, sub))
    perm = getattr(ent, "permission", None)
    return [out, ("generic", getattr(ent, "generic", None), "abstract", getattr(ent, "abstract", None))]


def parse_sig(text):
    buf = io.StringIO()
    with contextlib.redirect_stdout(buf), contextlib.redirect_stderr(buf):
        try:
            f = cascade.parse_source(text, dbg=False)
        except Exception as e:  # noqa
            return ("EXC", type(e).__name__, str(e)[:200])
    return signature(f)


def replay_dispatch(w):
    """witness: dict(ctx, close, stmt, canonical).  Violation iff the entity-kind
    structure FORD builds for `stmt` differs from the one for the canonical statement of
    the same class in the same context (or FORD raises)."""
    ctx = _ctxs()[w["ctx"]]
    a = parse_sig(ctx["tpl"].format(w=w["stmt"], close=w["close"]))
    b = parse_sig(ctx["tpl"].format(w=w["canonical"], close=w["close"]))
    if isinstance(b, tuple) and b and b[0] == "EXC":
        return False, f"canonical statement itself fails: {b}"
    return a != b, {"stmt": w["stmt"], "got": str(a)[:500], "canonical": w["canonical"], "expected": str(b)[:500]}


def _var_records(ent, out=None):
    out = [] if out is None else out
    for v in list(getattr(ent, "variables", []) or []) + list(getattr(ent, "args", []) or []):
        if hasattr(v, "name"):
            out.append((v.name.lower(), sorted(getattr(v, "attribs", [])), getattr(v, "intent", None),
                        getattr(v, "optional", None), getattr(v, "parameter", None), str(getattr(v, "dimension", None)),
                        str(getattr(v, "initial", None)), getattr(v, "permission", None)))
    for l in ("modules", "subroutines", "functions"):
        for x in getattr(ent, l, []) or []:
            _var_records(x, out)
    return sorted(out)


def parse_vars(text):
    buf = io.StringIO()
    with contextlib.redirect_stdout(buf), contextlib.redirect_stderr(buf):
        try:
            f = cascade.parse_source(text, dbg=False)
        except Exception as e:  # noqa
            return ("EXC", type(e).__name__, str(e)[:200])
    return _var_records(f)


def replay_attr(w):
    """Attribute / access statements create no entity; they must change the record of the
    variables they name.  Every name in the witness is declared first; violation iff FORD's
    variable records with the statement equal those without it (statement ignored) or FORD
    raises."""
    import re as _re

    names = []
    for t in _re.findall(r"[A-Za-z]\w*", w["stmt"]):
        if t.lower() not in G.KEYWORDS and t.lower() not in [n.lower() for n in names]:
            names.append(t)
    if not names:
        return False, "no names in witness"
    first = w["stmt"].split("(")[0].split(":")[0].split()[0].lower() if w["stmt"].strip() else ""
    if w["ctx"] == "modspec":
        default = "private" if first.startswith("public") else "public"
        tpl = "module m\n" + default + "\ninteger :: " + ", ".join(names) + "\n{w}\nend module m\n"
    else:
        tpl = "subroutine s(" + ", ".join(names) + ")\ninteger :: " + ", ".join(names) + "\n{w}\nend subroutine s\n"
    a = parse_vars(tpl.format(w=w["stmt"]))
    b = parse_vars(tpl.format(w=""))
    if isinstance(b, tuple) and b and b[0] == "EXC":
        return False, f"template fails without the statement: {b}"
    return a == b or (isinstance(a, tuple) and a and a[0] == "EXC"), {"stmt": w["stmt"], "with": str(a)[:400], "without": str(b)[:400]}


def _in_alphabet(s):
    return z3.InRe(s, rx.FULL)


ATTR_CLASSES = ("access-stmt", "attr-stmt", "dimension-stmt", "intent-stmt", "parameter-stmt")


def _dispatch_class(ctx, branches, cname, L, designated, cxname, close, canon, benign=()):
    cx = _ctxs()[cxname]
    replay_dispatch_ = replay_attr if cname in ATTR_CLASSES else replay_dispatch
    # known findings: the listed witness must still fail; then its class is excluded
    for kid, kclass, excl in _known_exclusions():
        if kclass == cname and ctx.known(kid, replay_dispatch_):
            L = rx.minus(L, excl)
    s = z3.String("s")
    d = [b for b in branches if b.key == designated]
    if len(d) != 1:
        raise Inconclusive(f"designated branch {designated} not found (or not unique) in the cascade")
    d = d[0]
    # canonical example is in the class (also the vacuity twin: the class is non-empty and the
    # canonical statement is what the replay compares against)
    ctx.twin(f"{cname}: canonical in class", [s == z3.StringVal(canon), z3.InRe(s, L)], 30)
    for b in branches[: d.idx]:
        Lb = cascade.branch_lang(b, cx)
        if Lb is None:
            continue
        label = f"{cname} ∩ earlier[{b.idx}:{b.key}] = ∅"
        r, m = ctx.solve(label, [_in_alphabet(s), z3.InRe(s, L), z3.InRe(s, Lb)], 60)
        if r == "sat":
            w = rx.z3str_to_py(m.eval(s, model_completion=True).as_string())
            ctx.report(label, dict(ctx=cxname, close=close, stmt=w, canonical=canon, stolen_by=b.key), replay_dispatch_)
    Ld = cascade.branch_lang(d, cx)
    label = f"{cname} ⊆ [{d.idx}:{d.key}]"
    if Ld is None:
        ctx.inconclusive.append(f"{label}: guard of designated branch is false in context {cxname}")
        return
    r, m = ctx.solve(label, [_in_alphabet(s), z3.InRe(s, L), z3.Not(z3.InRe(s, Ld))], 60)
    if r == "sat":
        w = rx.z3str_to_py(m.eval(s, model_completion=True).as_string())
        ctx.report(label, dict(ctx=cxname, close=close, stmt=w, canonical=canon, missed_by=d.key), replay_dispatch_)
    ctx.sample({"class": cname, "canonical": canon, "designated": designated, "context": cxname})


def _known_exclusions():
    """(known-finding id, statement class, language excluded from the class while the
    finding is open)"""
    return [
        ("C01-parameter-stmt-no-blank", "parameter-stmt", rx.seq(rx.kw("parameter"), "(", rx.FULL)),
        ("C01-intent-stmt-no-blank", "intent-stmt", rx.seq(G.INTENT, G.NAME, rx.FULL)),
        ("C01-intent-stmt-in-out", "intent-stmt",
         rx.seq(rx.kw("intent"), rx.WS, "(", rx.WS, rx.kw("in"), rx.WS1, rx.kw("out"), rx.FULL)),
    ]


def _validate_translator(ctx, branches):
    """rule 7(c): for every pattern of the cascade the solver produces a member and a non-member of the translated
    language; CPython's `re` must agree on both (a disagreement is an encoding error, exit 3)"""
    n = bad = 0
    s = z3.String("v")
    for b in branches:
        for attr, method in b.pats:
            pat = cascade.live_pattern(attr)
            L = rx.lang(pat, method)
            for member in (True, False):
                sol = z3.Solver()
                sol.set("timeout", 10000)
                sol.add(z3.InRe(s, rx.FULL), z3.Length(s) >= 3, z3.InRe(s, L) if member else z3.Not(z3.InRe(s, L)))
                if str(sol.check()) != "sat":
                    continue
                w = rx.z3str_to_py(sol.model().eval(s, model_completion=True).as_string())
                n += 1
                if bool(getattr(pat, method)(w)) != member:
                    bad += 1
                    ctx.mismatches.append({"property": ctx.prop, "obligation": ctx.ob, "label": f"RX translator vs re on {attr}",
                                           "witness": {"string": w, "z3_member": member}, "replay": "-", "replay_detail": "re disagrees",
                                           "solver_detail": None})
    ctx.validation["rx_vs_re"] = {"strings": n, "disagreements": bad}


def _encode_cascade(ctx):
    branches, src = cascade.extract()
    ctx.encode_text("FortranContainer.__init__ (cascade order and guards)", src, "python-source")
    for b in branches:
        for attr, _ in b.pats:
            ctx.encode_re(attr, cascade.live_pattern(attr))
    ctx.bounds.update({"statement_length": "unbounded", "alphabet": "ASCII 9..126", "identifier_length": "unbounded"})
    _validate_translator(ctx, branches)
    return branches


def _register():
    # class languages are built lazily inside the worker (z3 objects are per-process)
    names = [
        "contains", "access-bare", "module-stmt", "submodule-stmt", "program-stmt", "blockdata-stmt", "subroutine-stmt",
        "subroutine-stmt-top", "function-stmt", "function-stmt-top", "type-def", "interface-stmt", "enum-stmt", "enumerator",
        "modproc-in-interface", "procedure-in-interface", "separate-module-procedure", "bound-procedure", "generic-binding",
        "final", "common", "namelist", "use", "variable-decl", "variable-decl-in-sub", "component-decl", "access-stmt",
        "attr-stmt", "dimension-stmt", "intent-stmt", "parameter-stmt", "end-unit",
    ]
    for nm in names:
        def mk(nm=nm):
            @obligation("C01", f"O1.dispatch.{nm}", engine="RX", timeout=600)
            def ob(ctx):
                branches = _encode_cascade(ctx)
                row = [c for c in _classes() if c[0] == nm][0]
                _dispatch_class(ctx, branches, *row)
            ob.__doc__ = f"every '{nm}' statement of the grammar reaches its designated cascade branch and no earlier one"
        mk()


_register()


# --------------------------------------------------------------------------------------
# O-2: executable statements create nothing
# --------------------------------------------------------------------------------------
ALLOWED_FOR_EXEC = {"ARITH_GOTO_RE", "CALL_RE|SUBCALL_RE", "FORMAT_RE"}


def replay_exec(w):
    """Violation iff inserting the executable statement changes the entity structure of
    the enclosing subroutine (or makes FORD raise)."""
    ctx = _ctxs()["exec"]
    a = parse_sig(ctx["tpl"].format(w=w["stmt"], close=""))
    b = parse_sig(ctx["tpl"].format(w="continue", close=""))
    return a != b, {"stmt": w["stmt"], "got": str(a)[:500], "expected": str(b)[:500]}


def _register_exec():
    for nm in G.EXEC_CLASSES:
        def mk(nm=nm):
            @obligation("C01", f"O2.exec-creates-nothing.{nm}", engine="RX", timeout=600)
            def ob(ctx):
                branches = _encode_cascade(ctx)
                L = G.EXEC_CLASSES[nm]
                cx = _ctxs()["exec"]
                s = z3.String("s")
                m = ctx.twin(f"{nm}: class non-empty", [_in_alphabet(s), z3.InRe(s, L)], 30)
                if m is not None:
                    ctx.sample({"class": nm, "member": rx.z3str_to_py(m.eval(s, model_completion=True).as_string())})
                for b in branches:
                    if b.key in ALLOWED_FOR_EXEC:
                        continue
                    Lb = cascade.branch_lang(b, cx)
                    if Lb is None:
                        continue
                    label = f"exec:{nm} ∩ [{b.idx}:{b.key}] = ∅"
                    r, m = ctx.solve(label, [_in_alphabet(s), z3.InRe(s, L), z3.InRe(s, Lb)], 60)
                    if r == "sat":
                        w = rx.z3str_to_py(m.eval(s, model_completion=True).as_string())
                        ctx.report(label, dict(stmt=w, taken_by=b.key), replay_exec)
            ob.__doc__ = f"no '{nm}' statement is taken by a declaration/structure branch of the cascade"
        mk()


_register_exec()


# --------------------------------------------------------------------------------------
# O6: the entity tree is independent of letter case and of equivalent spellings
# (whole parser, symbolic program: every slot is a finite choice of equivalent spellings)
# --------------------------------------------------------------------------------------
from fv import sym as _sym, choice as _choice, parserh as _parserh  # noqa: E402
from fv.choice import CV as _CV  # noqa: E402

_CHILD_LISTS = ("modules submodules programs blockdata subroutines functions types interfaces absinterfaces enums boundprocs "
                "finalprocs variables args common namelists modprocedures modprocs").split()
_FIELDS = ("name vartype kind strlen intent optional parameter initial dimension points permission proctype module generic abstract "
           "deferred extends sequence bindC attribs proto bindings uses ancestor parent_submodule vars").split()


def _leafs(e, depth=0):
    """nested structure of (field, value) with possibly CV leaves for entity e"""
    out = [("cls", type(e).__name__)]
    for f_ in _FIELDS:
        if f_ in ("parent",):
            continue
        v = getattr(e, f_, None) if hasattr(e, f_) else None
        if v is None:
            continue
        out.append((f_, _val(v)))
    rv = getattr(e, "retvar", None)
    if rv is not None and not isinstance(rv, (str, _CV)):
        out.append(("retvar", tuple(_leafs(rv, depth + 1))))
    elif rv is not None:
        out.append(("retvar", rv))
    for l in _CHILD_LISTS:
        v = getattr(e, l, None)
        if isinstance(v, (list, tuple)) and v and depth < 6:
            out.append((l, tuple(tuple(_leafs(x, depth + 1)) if hasattr(x, "obj") else _val(x) for x in v)))
    return out


def _val(v):
    if isinstance(v, (list, tuple)):
        return tuple(_val(x) for x in v)
    if hasattr(v, "obj") and hasattr(v, "name"):
        return ("ref", getattr(v, "name"))
    if isinstance(v, (str, int, bool, _CV)) or v is None:
        return v
    return repr(type(v).__name__)


def _collect(struct, acc):
    if isinstance(struct, _CV):
        acc.append(struct)
    elif isinstance(struct, (tuple, list)):
        for x in struct:
            _collect(x, acc)


def _rebuild(struct, it):
    if isinstance(struct, _CV):
        return next(it)
    if isinstance(struct, (tuple, list)):
        return tuple(_rebuild(x, it) for x in struct)
    return struct


def _canon(x, key=None):
    if isinstance(x, tuple):
        if x and isinstance(x[0], tuple) and len(x[0]) == 2 and x[0][0] == "cls":
            # an entity record: [(field, value), ...].  The attribute *set* is what is reported: the
            # `optional` / `parameter` flags and the attribute list are one set (the flag is used when the
            # attribute stands on the declaration, the list when it comes from an attribute statement)
            d = {k: v for k, v in x}
            att = [_canon(a_) for a_ in (d.get("attribs") or ())]
            for flag in ("optional", "parameter"):
                if d.get(flag) is True and flag not in att:
                    att.append(flag)
                d.pop(flag, None)
            d["attribs"] = tuple(sorted(att))
            # `permission` is FORD's own vocabulary (compared with the lower-case words everywhere): reported as is
            return tuple((k, _canon(v) if k not in ("attribs", "permission") else v) for k, v in sorted(d.items()))
        return tuple(_canon(y) for y in x)
    if isinstance(x, str):
        return "".join(x.lower().split())
    return x


def tree_signature(f):
    """single (possibly CV) value: canonical signature of the parsed tree (names lower-cased,
    blanks removed, attribute order ignored)"""
    struct = tuple(_leafs(f))
    cvs = []
    _collect(struct, cvs)
    return _choice.apply(lambda *vals: _canon(_rebuild(struct, iter(vals))), *cvs) if cvs else _canon(struct)


def replay_spelling(w):
    try:
        a = _parserh.parse_concrete(list(w["program"]))
        b = _parserh.parse_concrete(list(w["canonical"]))
    except Exception as e:  # noqa - FORD failing on a valid program is the violation
        return True, {"program": w["program"], "canonical": w["canonical"], "ford_raised": f"{type(e).__name__}: {e}"}
    sa, sb = tree_signature(a), tree_signature(b)
    diff = _first_diff(sa, sb)
    return sa != sb, {"program": w["program"], "canonical": w["canonical"], "first_difference": diff}


def replay_inventory(w):
    import json as _json
    f = _parserh.parse_concrete(list(w["program"]))
    inv = _json.loads(_json.dumps(inventory(f)))
    facts = _facts(w["template"], f)
    return inv != _sorted_inv(EXPECTED[w["template"]]) or bool(facts), {"ford": inv, "declared": EXPECTED[w["template"]], "facts_not_reported": facts}


def _first_diff(a, b, path=""):
    if type(a) is not type(b):
        return f"{path}: {a!r} vs {b!r}"[:400]
    if isinstance(a, tuple):
        if len(a) != len(b):
            return f"{path}: lengths {len(a)} vs {len(b)}: {a!r} vs {b!r}"[:600]
        for i, (x, y) in enumerate(zip(a, b)):
            d = _first_diff(x, y, f"{path}/{i}")
            if d:
                return d
        return None
    return None if a == b else f"{path}: {a!r} vs {b!r}"[:400]


# each template: list of slots; a slot is a list of equivalent spellings (first = canonical)
TEMPLATES = {
    "procedures": [
        ["module m"], ["contains"],
        ["subroutine s(a, b)", "SUBROUTINE S(A, B)", "subroutine s ( a , b )", "Subroutine  s(a,b)"],
        ["integer, intent(in) :: a", "INTEGER, INTENT(IN) :: A", "integer,intent(in)::a", "integer, intent ( in ) :: a"],
        ["real(8), optional :: b", "real*8, optional :: b", "real(kind=8), optional :: b", "REAL ( KIND = 8 ), OPTIONAL :: B"],
        ["end subroutine s", "end subroutine", "endsubroutine s", "END SUBROUTINE S", "end", "EndSubroutine"],
        ["pure function f(x) result(r)", "PURE FUNCTION F(X) RESULT(R)", "pure function f ( x ) result ( r )"],
        ["complex(8) :: x, r", "COMPLEX(8) :: X, R", "complex(kind=8) x, r"],
        ["end function f", "end function", "endfunction f", "END", "End Function F"],
        ["end module m", "end module", "endmodule m", "END MODULE M"],
    ],
    "declarations": [
        ["module m"],
        ["integer, parameter :: n = 3", "INTEGER, PARAMETER :: N = 3", "integer,parameter::n=3"],
        ["real(8), dimension(n), allocatable :: v", "real*8, dimension(n), allocatable :: v", "real(kind=8), allocatable, dimension(n) :: v",
         "REAL(8), DIMENSION(N), ALLOCATABLE :: V", "real(8),dimension(n),allocatable::v"],
        ["character(len=10) :: c", "character(10) :: c", "character*10 c", "CHARACTER(LEN=10) :: C", "character(len=10)::c",
         "character*10 :: c"],
        ["end module m", "end module", "END MODULE M"],
    ],
    "declarations-2": [
        ["module m"],
        ["double precision :: d", "doubleprecision :: d", "DOUBLE PRECISION :: D", "double precision d"],
        ["type(t), pointer :: p => null()", "TYPE(T), POINTER :: P => NULL()", "type ( t ) , pointer :: p => null()"],
        ["logical, save :: flag = .true.", "LOGICAL, SAVE :: FLAG = .TRUE.", "logical,save::flag=.true."],
        ["complex(kind=dp) :: z", "complex(dp) :: z", "COMPLEX(KIND=DP) :: Z", "complex ( kind = dp ) :: z"],
        ["character(len=*, kind=ck), intent(in) :: s", "character(kind=ck, len=*), intent(in) :: s", "CHARACTER(LEN=*, KIND=CK), INTENT(IN) :: S",
         "character(*, ck), intent(in) :: s"],
        ["end module m"],
    ],
    "procedure-prefixes": [
        ["module m"], ["contains"],
        ["impure elemental function f(x)", "IMPURE ELEMENTAL FUNCTION F(X)", "elemental impure function f(x)", "impure  elemental  function f ( x )"],
        ["real(pure_kind), intent(in) :: x", "REAL(PURE_KIND), INTENT(IN) :: X"],
        ["real(pure_kind) :: f", "REAL(PURE_KIND) :: F"],
        ["end function f", "end function", "END FUNCTION F"],
        ["non_recursive subroutine s()", "NON_RECURSIVE SUBROUTINE S()", "non_recursive subroutine s"],
        ["end subroutine s", "end subroutine"],
        ["pure recursive integer(8) function g(n) result(r)", "recursive pure integer(8) function g(n) result(r)", "PURE RECURSIVE INTEGER(8) FUNCTION G(N) RESULT(R)",
         "pure recursive integer(kind=8) function g(n) result(r)"],
        ["integer, intent(in) :: n", "INTEGER, INTENT(IN) :: N"],
        ["end function g", "end function"],
        ["end module m"],
    ],
    "type-selectors": [
        ["module m"],
        ["character(len=8, kind=1) :: s", "character(kind=1, len=8) :: s", "character(8, kind=1) :: s", "character(8, 1) :: s",
         "CHARACTER(LEN=8, KIND=1) :: S", "character ( 8 , 1 ) :: s"],
        ["character(len=n, kind=ck) :: t", "character(n, ck) :: t", "character(n, kind=ck) :: t", "character(kind=ck, len=n) :: t",
         "character(len=n, kind=ck)::t"],
        ["character(len=:), allocatable :: d", "character(:), allocatable :: d", "CHARACTER(LEN=:), ALLOCATABLE :: D"],
        ["end module m"],
    ],
    "kind-selectors": [
        ["module m"],
        ["integer(kind=8) :: i8", "integer(8) :: i8", "integer*8 i8", "INTEGER(KIND=8) :: I8", "integer*8 :: i8"],
        ["real(kind=wp) :: r", "real(wp) :: r", "REAL(KIND=WP) :: R", "real ( wp ) :: r"],
        ["logical(kind=1) :: l1", "logical(1) :: l1", "logical*1 l1"],
        ["end module m"],
    ],
    "attribute-statements": [
        ["subroutine s(a, w, k)"],
        # a group of lines per slot: attribute on the declaration vs. a separate attribute statement
        [("integer, intent(in) :: a", "continue"), ("integer :: a", "intent(in) :: a"), ("INTEGER :: A", "INTENT(IN) :: A"),
         ("integer :: a", "intent (in) a")],
        [("real, dimension(5) :: w", "continue"), ("real :: w", "dimension w(5)"), ("real :: w", "DIMENSION W(5)"),
         ("real :: w", "dimension :: w(5)")],
        [("integer, allocatable :: k", "continue"), ("integer :: k", "allocatable :: k"), ("integer :: k", "ALLOCATABLE K")],
        ["end subroutine s", "end"],
    ],
    "attribute-statements-2": [
        ["module m"],
        [("integer, parameter :: n = 3", "continue"), ("integer :: n", "parameter (n = 3)"), ("integer :: n", "PARAMETER (N = 3)")],
        [("real, save :: q", "continue"), ("real :: q", "save :: q"), ("real :: q", "SAVE q")],
        [("real, pointer :: p", "continue"), ("real :: p", "pointer :: p"), ("real :: p", "POINTER P")],
        [("real, target :: t", "continue"), ("real :: t", "target :: t")],
        ["end module m"],
    ],
    "attribute-statements-shared-line": [
        ["module m"],
        # an attribute statement names ONE of several variables declared on one line
        [("real, save, target :: first", "real, save :: second"), ("real, save :: first, second", "target :: first"),
         ("real, save :: first, second", "TARGET FIRST"), ("REAL, SAVE :: FIRST, SECOND", "target first")],
        [("integer, dimension(3), volatile :: n1", "integer, dimension(3) :: n2"), ("integer, dimension(3) :: n1, n2", "volatile n1"),
         ("integer, dimension(3) :: n1, n2", "VOLATILE :: N1")],
        ["end module m"],
    ],
    "attribute-statements-optional": [
        ["subroutine s(w)"],
        [("real, optional :: w", "continue"), ("real :: w", "optional :: w"), ("real :: w", "OPTIONAL W")],
        ["end subroutine s"],
    ],
    "types": [
        ["module m"],
        ["type, extends(base) :: t", "TYPE, EXTENDS(BASE) :: T", "type,extends(base)::t", "type , extends ( base ) :: t"],
        ["integer :: c = 1", "INTEGER :: C = 1", "integer::c=1"],
        ["contains", "CONTAINS", "Contains"],
        ["procedure :: p1 => impl1", "PROCEDURE :: P1 => IMPL1", "procedure::p1=>impl1", "procedure p1 => impl1"],
        ["procedure, nopass :: a, b", "PROCEDURE, NOPASS :: A, B", "procedure,nopass::a,b"],
        ["procedure, private :: hid => impl2", "PROCEDURE, PRIVATE :: HID => IMPL2", "procedure,Private::hid=>impl2", "procedure , private :: hid => impl2"],
        ["generic :: g => a, b", "GENERIC :: G => A, B", "Generic :: g => a, b", "generic::g=>a,b"],
        ["final :: fin", "FINAL :: FIN", "final::fin"],
        ["end type t", "end type", "endtype t", "END TYPE T"],
        ["end module m"],
    ],
    "interfaces": [
        ["module m"],
        ["interface gen", "INTERFACE GEN", "interface  gen"],
        ["module procedure a, b", "MODULE PROCEDURE A, B", "module procedure :: a, b", "module procedure a,b"],
        ["end interface gen", "end interface", "endinterface gen", "END INTERFACE GEN"],
        ["abstract interface", "ABSTRACT INTERFACE", "abstract  interface"],
        ["function af(x)", "FUNCTION AF(X)", "function af ( x )"],
        ["real :: x, af", "REAL :: X, AF"],
        ["end function af", "end function", "END FUNCTION AF", "endfunction"],
        ["end interface", "END INTERFACE", "endinterface"],
        ["end module m"],
    ],
    "units": [
        ["program main", "PROGRAM MAIN", "program  main"],
        ["integer :: n", "INTEGER :: N"],
        ["contains", "CONTAINS"],
        ["subroutine inner()", "SUBROUTINE INNER()", "subroutine inner"],
        ["end subroutine inner", "end", "endsubroutine", "END SUBROUTINE INNER"],
        ["end program main", "end program", "END", "endprogram main", "End Program Main"],
        ["submodule (parent) child", "SUBMODULE (PARENT) CHILD", "submodule(parent)child", "submodule ( parent ) child"],
        ["contains"],
        ["module procedure impl", "MODULE PROCEDURE IMPL", "module  procedure impl"],
        ["end procedure impl", "end procedure", "endprocedure impl", "END PROCEDURE"],
        ["end submodule child", "end submodule", "endsubmodule", "END"],
        ["block data bd", "BLOCK DATA BD", "blockdata bd"],
        ["integer :: q"],
        ["common /c/ q", "COMMON /C/ Q"],
        ["end block data bd", "end block data", "END", "END BLOCK DATA"],
    ],
    "explicit-interfaces": [
        ["module m"],
        ["interface", "INTERFACE"],
        ["subroutine ext(a)", "SUBROUTINE EXT(A)", "subroutine ext ( a )"],
        ["integer, intent(in) :: a", "INTEGER, INTENT(IN) :: A"],
        ["end subroutine ext", "end subroutine", "END SUBROUTINE EXT", "endsubroutine"],
        ["function extf() result(r)", "FUNCTION EXTF() RESULT(R)"],
        ["real :: r", "REAL :: R"],
        ["end function extf", "end function", "endfunction extf"],
        ["end interface", "END INTERFACE", "endinterface"],
        ["interface operator(+)", "INTERFACE OPERATOR(+)", "interface operator (+)"],
        ["module procedure addp", "MODULE PROCEDURE ADDP"],
        ["end interface", "end interface operator(+)", "END INTERFACE"],
        ["end module m"],
    ],
    "misc": [
        ["subroutine s()"],
        ["use iso_c_binding, only: c_int", "USE ISO_C_BINDING, ONLY: C_INT", "use :: iso_c_binding, only: c_int",
         "use, intrinsic :: iso_c_binding, only : c_int", "use iso_c_binding,only:c_int"],
        ["integer :: x, y"],
        ["common /blk/ x, y", "COMMON /BLK/ X, Y", "common/blk/x,y", "common / blk / x, y"],
        ["namelist /nl/ x, y", "NAMELIST /NL/ X, Y", "namelist /nl/ x,y"],
        ["enum, bind(c)", "ENUM, BIND(C)", "enum,bind(c)", "enum , bind ( c )"],
        ["enumerator :: e1 = 1, e2", "ENUMERATOR :: E1 = 1, E2", "enumerator e1 = 1, e2"],
        ["end enum", "END ENUM", "endenum"],
        ["end subroutine s"],
    ],
}


def inventory(e, depth=0):
    """names of the reported entities, by kind, recursively"""
    out = {}
    for l in _CHILD_LISTS:
        v = getattr(e, l, None)
        if isinstance(v, (list, tuple)) and v:
            out[l] = [[str(getattr(x, "name", x)).lower(), inventory(x, depth + 1)] if hasattr(x, "obj") else str(x).lower() for x in v]
            if l != "args":
                # only the order of dummy arguments is part of the declaration
                out[l] = sorted(out[l], key=lambda t: t[0] if isinstance(t, list) else t)
    rv = getattr(e, "retvar", None)
    if rv is not None:
        out["retvar"] = str(getattr(rv, "name", rv)).lower()
    return out


# what each template DECLARES (written from the Fortran text of the canonical spelling, not from FORD's output)
EXPECTED = {
    "procedures": {"modules": [["m", {"subroutines": [["s", {"args": [["a", {}], ["b", {}]]}]],
                                      "functions": [["f", {"args": [["x", {}]], "retvar": "r"}]]}]]},
    "declarations": {"modules": [["m", {"variables": [["n", {}], ["v", {}], ["c", {}]]}]]},
    "declarations-2": {"modules": [["m", {"variables": [["d", {}], ["p", {}], ["flag", {}], ["z", {}], ["s", {}]]}]]},
    "procedure-prefixes": {"modules": [["m", {"functions": [["f", {"args": [["x", {}]], "retvar": "f"}], ["g", {"args": [["n", {}]], "retvar": "r"}]],
                                              "subroutines": [["s", {}]]}]]},
    "type-selectors": {"modules": [["m", {"variables": [["s", {}], ["t", {}], ["d", {}]]}]]},
    "kind-selectors": {"modules": [["m", {"variables": [["i8", {}], ["r", {}], ["l1", {}]]}]]},
    "attribute-statements": {"subroutines": [["s", {"args": [["a", {}], ["w", {}], ["k", {}]]}]]},
    "attribute-statements-2": {"modules": [["m", {"variables": [["n", {}], ["q", {}], ["p", {}], ["t", {}]]}]]},
    "attribute-statements-shared-line": {"modules": [["m", {"variables": [["first", {}], ["second", {}], ["n1", {}], ["n2", {}]]}]]},
    "attribute-statements-optional": {"subroutines": [["s", {"args": [["w", {}]]}]]},
    "types": {"modules": [["m", {"types": [["t", {"boundprocs": [["p1", {}], ["b", {}], ["a", {}], ["hid", {}], ["g", {}]],
                                                  "finalprocs": [["fin", {}]], "variables": [["c", {}]]}]]}]]},
    "interfaces": {"modules": [["m", {"interfaces": [["gen", {"modprocs": [["a", {}], ["b", {}]]}]], "absinterfaces": [["af", {}]]}]]},
    "units": {"submodules": [["child", {"modprocedures": [["impl", {}]]}]],
              "programs": [["main", {"subroutines": [["inner", {}]], "variables": [["n", {}]]}]],
              "blockdata": [["bd", {"variables": [["q", {}]], "common": [["c", {"variables": ["q"]}]]}]]},
    "explicit-interfaces": {"modules": [["m", {"interfaces": [["ext", {}], ["extf", {}], ["operator(+)", {"modprocs": [["addp", {}]]}]]}]]},
    "misc": {"subroutines": [["s", {"enums": [["", {"variables": [["e1", {}], ["e2", {}]]}]], "variables": [["x", {}], ["y", {}]],
                                    "common": [["blk", {"variables": ["x", "y"]}]], "namelists": [["nl", {"variables": ["x", "y"]}]]}]]},
}


def _sorted_inv(d):
    out = {}
    for k, v in d.items():
        if isinstance(v, list):
            vv = [[x[0], _sorted_inv(x[1])] if isinstance(x, list) else x for x in v]
            out[k] = vv if k == "args" else sorted(vv, key=lambda t: t[0] if isinstance(t, list) else t)
        else:
            out[k] = v
    return out


def _facts(tname, f):
    """a few declared facts of the canonical spelling, checked on the real parse"""
    bad = []

    def var(scope, name):
        for v in list(getattr(scope, "variables", [])) + list(getattr(scope, "args", [])):
            if str(getattr(v, "name", v)).lower() == name:
                return v
        return None

    def expect(cond, what):
        if not cond:
            bad.append(what)

    if tname == "declarations":
        m = f.modules[0]
        n, v, c = var(m, "n"), var(m, "v"), var(m, "c")
        expect(n.vartype == "integer" and n.parameter and str(n.initial) == "3", "n: integer, parameter = 3")
        expect(v.vartype == "real" and str(v.kind) == "8" and sorted(a.lower() for a in v.attribs) == ["allocatable", "dimension(n)"],
               "v: real(8), dimension(n), allocatable")
        expect(c.vartype == "character" and str(c.strlen) == "10", "c: character(len=10)")
    if tname == "attribute-statements-shared-line":
        m = f.modules[0]
        att = lambda n: sorted(a.lower().replace(" ", "") for a in var(m, n).attribs)
        expect(att("first") == ["save", "target"], "first: save, target")
        expect(att("second") == ["save"], "second: save only (the TARGET statement names `first`)")
        expect(att("n1") == ["dimension(3)", "volatile"], "n1: dimension(3), volatile")
        expect(att("n2") == ["dimension(3)"], "n2: dimension(3) only")
    if tname == "procedure-prefixes":
        m = f.modules[0]
        fn = {str(x.name).lower(): x for x in m.functions}
        sub = m.subroutines[0]
        low = lambda p_: sorted(a.lower() for a in p_.attribs)
        expect(low(fn["f"]) == ["elemental", "impure"], "f: impure elemental")
        expect(str(getattr(fn["f"].retvar, "kind", None)).lower() == "pure_kind", "f: result real(kind=pure_kind)")
        expect(low(sub) == ["non_recursive"], "s: non_recursive")
        expect(low(fn["g"]) == ["pure", "recursive"], "g: pure recursive")
        expect(getattr(fn["g"].retvar, "vartype", None) == "integer" and str(getattr(fn["g"].retvar, "kind", None)) == "8", "g: result integer(kind=8)")
    if tname == "type-selectors":
        m = f.modules[0]
        s_, t_, d_ = var(m, "s"), var(m, "t"), var(m, "d")
        expect(s_.vartype == "character" and str(s_.strlen) == "8" and str(s_.kind) == "1", "s: character(len=8, kind=1)")
        expect(str(t_.strlen).lower() == "n" and str(t_.kind).lower() == "ck", "t: character(len=n, kind=ck)")
        expect(str(d_.strlen) == ":" and [a.lower() for a in d_.attribs] == ["allocatable"], "d: character(len=:), allocatable")
    if tname == "kind-selectors":
        m = f.modules[0]
        expect(var(m, "i8").vartype == "integer" and str(var(m, "i8").kind) == "8", "i8: integer(kind=8)")
        expect(str(var(m, "r").kind).lower() == "wp", "r: real(kind=wp)")
        expect(var(m, "l1").vartype == "logical" and str(var(m, "l1").kind) == "1", "l1: logical(kind=1)")
    if tname == "declarations-2":
        m = f.modules[0]
        expect(var(m, "d").vartype == "double precision", "d: double precision")
        p_ = var(m, "p")
        expect(p_.vartype == "type" and str(p_.proto[0]).lower() == "t" and p_.points and str(p_.initial).replace(" ", "") == "null()",
               "p: type(t), pointer => null()")
        expect(str(var(m, "z").kind).lower() == "dp", "z: complex(kind=dp)")
        s_ = var(m, "s")
        expect(str(s_.strlen) == "*" and str(s_.kind).lower() == "ck" and s_.intent == "in", "s: character(len=*, kind=ck), intent(in)")
    if tname == "procedures":
        sub, fun = f.modules[0].subroutines[0], f.modules[0].functions[0]
        a, b = sub.args
        expect(a.intent == "in" and a.vartype == "integer", "a: integer, intent(in)")
        expect(b.optional and b.vartype == "real" and str(b.kind) == "8", "b: real(8), optional")
        expect("pure" in [x.lower() for x in fun.attribs] and getattr(fun.retvar, "vartype", None) == "complex", "f: pure, result r complex(8) (not the implicit type)")
    if tname == "types":
        t = f.modules[0].types[0]
        expect(str(t.extends).lower() == "base", "t extends base")
        g = [b for b in t.boundprocs if str(b.name).lower() == "g"][0]
        expect(g.generic and [str(x).lower() for x in g.bindings] == ["a", "b"], "generic g => a, b")
        p1 = [b for b in t.boundprocs if str(b.name).lower() == "p1"][0]
        expect([str(x).lower() for x in p1.bindings] == ["impl1"], "p1 => impl1")
    return bad


def _spelling_ob(tname):
    @obligation("C01", f"O6.spelling-independence.{tname}", engine="SX(CV)", timeout=3000)
    def ob(ctx):
        import ford.sourceform as sf

        ctx.encode_fn(sf.FortranContainer.__init__)
        ctx.encode_fn(sf.line_to_variables)
        ctx.encode_fn(sf.parse_type)
        ctx.encode_fn(sf.FortranCodeUnit.process_attribs)
        ctx.stubs.append("FortranReader replaced by the list of symbolic statements (reader is C02)")
        slots = TEMPLATES[tname]
        canonical = []
        for s_ in slots:
            canonical.extend(s_[0] if isinstance(s_[0], tuple) else [s_[0]])
        try:
            cf = _parserh.parse_concrete(list(canonical))
        except Exception as e:  # noqa - FORD must not fail on valid input
            ctx.report(f"canonical spelling: parser raised {type(e).__name__}: {e}",
                       {"program": canonical, "canonical": canonical, "template": tname}, replay_spelling)
            return
        csig = tree_signature(cf)
        # anchor: the canonical spelling reports exactly what the text declares
        inv = inventory(cf)
        import json as _json
        if _json.loads(_json.dumps(inv)) != _sorted_inv(EXPECTED[tname]):
            ctx.report("canonical spelling: reported entities differ from the declared ones",
                       {"program": canonical, "canonical": canonical, "ford": inv, "declared": EXPECTED[tname], "template": tname}, replay_inventory)
        facts = _facts(tname, cf)
        if facts:
            ctx.report("canonical spelling: declared facts not reported",
                       {"program": canonical, "canonical": canonical, "facts": facts, "template": tname}, replay_inventory)
        nopt = 1
        for s_ in slots:
            nopt *= len(s_)
        ctx.bounds.update({"template": tname, "slots": len(slots), "programs": nopt})

        def h(E):
            prog = []
            for i, s_ in enumerate(slots):
                cv = _CV.choice(E, f"s{i}", s_) if len(s_) > 1 else s_[0]
                if isinstance(s_[0], tuple):
                    prog.extend(cv[j] for j in range(len(s_[0])))
                else:
                    prog.append(cv)
            h.prog = prog
            try:
                f = _parserh.parse(list(prog))
            except Exception as e:  # noqa - FORD must not fail on valid input
                E.reachable("raised")
                E.require(False, f"parser raised {type(e).__name__} on a valid spelling")
                return
            E.reachable("parsed")
            sig = tree_signature(f)
            E.require(_choice.apply(lambda s_: s_ == csig, sig), "entity tree depends on the spelling")

        E = _sym.Engine(ctx, max_paths=50000, incremental=True)
        found = E.explore(h)
        seen = set()
        for (label, m, pc), A in list(zip(found, E.autosnaps)):
            if label in seen:
                continue
            seen.add(label)
            ctx.report(label, {"program": _choice.value_in_model(m, A["prog"]), "canonical": canonical}, replay_spelling)
        if E.reached.get("parsed"):
            ctx.twins += 1
        else:
            ctx.inconclusive.append("vacuity: parser never completed")
        ctx.sample({"template": tname, "canonical": canonical, "paths": E.paths})

    ob.__doc__ = f"template '{tname}': every combination of equivalent spellings/letter cases yields the same entity tree as the canonical spelling"


for _t in TEMPLATES:
    _spelling_ob(_t)


# ---------------------------------------------------------------------------------------
# O7: the same program with one statement continued over two physical lines, read by the REAL reader: the entity tree
# does not depend on where and how the statement is broken
# ---------------------------------------------------------------------------------------
PHYS_PROGRAM = ["module shapes_m", "implicit none", "type, public :: shape_t", "real :: width = 1.0, height = 2.0", "end type shape_t",
                "character(len=11), parameter :: greeting = 'hello world'", "contains",
                "integer function twice(n)", "integer, intent(in) :: n", "twice = 2 * n", "end function twice",
                "pure subroutine scale_by(s, factor)", "type(shape_t), intent(inout) :: s", "real, intent(in) :: factor", "end subroutine scale_by",
                "end module shapes_m"]
# (statement index, index of the blank at which the statement is broken); blanks inside the character literal included
BREAKS = [(i, j) for i, s_ in enumerate(PHYS_PROGRAM) for j, c in enumerate(s_) if c == " "]
# how the two halves L and R (the blank between them dropped) are written; each keeps exactly the one blank as separator
STYLES = [
    ("blank before the trailing &", lambda L, R: [L + " &", "      " + R]),
    ("blank before the trailing &, leading & directly before the text", lambda L, R: [L + " &", "&" + R]),
    ("blank after the leading &", lambda L, R: [L + "&", "   & " + R]),
    ("comment after the trailing &", lambda L, R: [L + " & ! to be continued", "&" + R]),
    ("comment line between the halves", lambda L, R: [L + " &", "! a comment line", "   &" + R]),
    ("not broken", lambda L, R: [L + " " + R, "! filler"]),
]
# inside a literal the next line must start with & and no comment may follow the trailing & (styles 0 and 3 are not valid there)
_IN_LITERAL = {(i, j) for (i, j) in BREAKS if PHYS_PROGRAM[i][:j].count("'") % 2 == 1}


def _phys_lines(brk, style):
    i, j = brk
    s_ = PHYS_PROGRAM[i]
    halves = dict(STYLES)[style](s_[:j], s_[j + 1:])
    while len(halves) < 3:
        halves.append("! filler")
    return halves


def _phys_program(brk, style_lines):
    i = brk[0]
    return PHYS_PROGRAM[:i] + list(style_lines) + PHYS_PROGRAM[i + 1:]


def _phys_signature(p):
    return tree_signature(p.files[0])


def replay_phys_spelling(w):
    import ford.sourceform as sf
    res = []
    for lines in (w["lines"], PHYS_PROGRAM):
        old = sf.namelist
        sf.namelist = sf.NameSelector()
        try:
            p = _parserh.project_concrete({"a.f90": list(lines)}, correlate=False, physical=("a.f90",))
            res.append(_phys_signature(p))
        except Exception as e:  # noqa - FORD failing on a valid program is the violation
            return True, {"physical lines": w["lines"], "ford_raised": f"{type(e).__name__}: {e}"}
        finally:
            sf.namelist = old
    return res[0] != res[1], {"physical lines": w["lines"], "first_difference": _first_diff(res[0], res[1])}


@obligation("C01", "O7.spelling-independence.continuation-lines", engine="SX(CV)", timeout=3000)
def phys_spelling(ctx):
    """one statement of a module (type, components with initial values, character constant, function, subroutine) broken at a symbolic
    blank in a symbolic continuation style and read by the real FortranReader: same entity tree as the unbroken program"""
    import ford.sourceform as sf
    import ford.reader as rd

    ctx.encode_fn(rd.FortranReader.__next__)
    ctx.encode_fn(sf.FortranContainer.__init__)
    ctx.encode_fn(sf.line_to_variables)
    ctx.bounds.update({"statements": len(PHYS_PROGRAM), "break points": len(BREAKS), "continuation styles": len(STYLES)})
    try:
        base = _phys_signature(_parserh.project_concrete({"a.f90": list(PHYS_PROGRAM)}, correlate=False, physical=("a.f90",)))
    except Exception as e:  # noqa
        ctx.report(f"unbroken program: parser raised {type(e).__name__}: {e}", {"lines": list(PHYS_PROGRAM)}, replay_phys_spelling)
        return

    def h(E):
        brk = _CV.choice(E, "break", BREAKS)
        style = _CV.choice(E, "style", [s_[0] for s_ in STYLES])
        E.assume(_choice.apply(lambda b, s_: not (tuple(b) in _IN_LITERAL and s_ in (STYLES[0][0], STYLES[3][0])), brk, style))
        h.state = (brk, style)
        b = brk.concretize() if hasattr(brk, "concretize") else brk   # the program's shape depends on the statement broken
        halves = _choice.apply(lambda s_: tuple(_phys_lines(b, s_)), style)
        lines = _phys_program(b, [halves[0], halves[1], halves[2]])
        h.lines = lines
        try:
            sig = _parserh.project({"a.f90": lines}, correlate=False, physical=("a.f90",), post=_phys_signature)
        except Exception as e:  # noqa - FORD must not fail on valid input
            E.reachable("raised")
            E.require(False, f"parser raised {type(e).__name__} on a valid spelling")
            return
        E.reachable("parsed")
        E.require(_choice.apply(lambda s_: s_ == base, sig), "entity tree depends on how a statement is continued")

    E = _sym.Engine(ctx, max_paths=50000, incremental=True)
    found = E.explore(h)
    seen = set()
    for (label, m, pc), A in list(zip(found, E.autosnaps)):
        if label in seen:
            continue
        seen.add(label)
        ctx.report(label, {"lines": [_choice.value_in_model(m, x) for x in A["lines"]]}, replay_phys_spelling)
    if E.reached.get("parsed"):
        ctx.twins += 1
    else:
        ctx.inconclusive.append("vacuity: parser never completed")
    ctx.sample({"paths": E.paths})
