"""C20 — an unparseable file is skipped without disturbing the rest (containment kernel)."""
import io
import contextlib
import os

import z3

from fv import sym, choice, parserh, fordrun
from fv.choice import CV
from fv.core import obligation
from fv.props import META

META["C20"] = {
    "explanation": "Containment half of C20 on symbolic projects.  The REAL Project.__init__ (per-file try/except), parser and "
    "correlate() run, with default settings (dbg on, force off), on a project of two valid files plus one extra file whose "
    "statements are symbolic: a valid module truncated after a symbolic number of statements with a symbolic statement "
    "spliced out, or one of a table of malformed constructs (unbalanced END, misplaced/duplicate CONTAINS, arbitrary text, broken "
    "declarations, names clashing with the valid files).  The extra file is read before, between or after the valid files.  "
    "Whenever FORD rejects the extra file, (1) a diagnostic naming that file is emitted, (2) no entity of it is registered in "
    "any project list, and (3) the ordered lists, names, identifiers, resolved USE/call/type references and documentation-relevant "
    "state of the other files equal those of the project without the extra file.  Every path of the exploration terminates "
    "(the parser's loops run on a finite statement list).",
    "outside": ["undecodable bytes / preprocessor failures (reader and OS level)", "termination on arbitrary byte input (regex backtracking time)",
                "more than one corrupted file per project", "HTML of the other files (rendering reads only the compared state)",
                "dbg=false / force=true settings"],
    "assumptions": ["a file FORD accepts without raising is not 'unparseable' in the sense of the property: no requirement then"],
}

GOOD = {"c.f90": ["module ma", "type ta", "integer :: c", "end type ta", "contains", "subroutine foo()", "end subroutine foo", "end module ma"],
        "k.f90": ["program pk", "use ma", "type(ta) :: v", "call foo()", "call bar()", "end program pk",
                  "subroutine bar()", "end subroutine bar"]}
POSITIONS = {"first": "a.f90", "middle": "g.f90", "last": "z.f90"}
# a valid file that clashes with names of the good files (module ma, type ta, procedures foo and bar)
VALID = ["module ma", "use ma", "type ta", "integer :: c", "end type ta", "interface", "subroutine ext()", "end subroutine ext",
         "end interface", "contains", "subroutine foo()", "call bar()", "end subroutine foo", "subroutine bar()", "end subroutine bar",
         "end module ma"]
MALFORMED = [
    ["module mb", "end module mb", "end module mb"],
    ["contains", "subroutine foo()", "end subroutine foo"],
    ["module ma", "contains", "contains", "end module ma"],
    ["lorem ipsum dolor", "= = = ("],
    ["module ma", "type(", "end module ma"],
    ["module ma", "integer, :: ::", "end module ma"],
    ["module ma", "abstract interface foo", "end interface", "end module ma"],
    ["end subroutine foo", "subroutine foo()", "end subroutine foo"],
    ["subroutine foo()", "type ta", "integer :: c"],
    ["module ma", "type ta", "contains", "procedure ::", "end type ta", "end module ma"],
    ["program pk", "end program pk", "program pk"],
    ["subroutine bar()", "end function bar"],
    ["module ma", "interface foo", "module procedure", "end module ma"],
    ["submodule (ma) sa", "contains", "module procedure foo"],
    # an error FORD reports and survives (duplicate CONTAINS) inside an entity named like one of a valid file, then a fatal one
    ["subroutine foo()", "contains", "contains", "end subroutine foo", "subroutine zz()"],
    ["module ma", "contains", "contains", "subroutine bar()", "end subroutine bar", "end module ma", "program pk"],
]
NSLOT = len(VALID)


QUICK_DROPS = [-1, 4, 9, 12]  # none, `end type ta`, `contains`, `end subroutine foo`


def _extra_lines(E, thorough=True):
    """statement slots of the extra file: truncation point t, spliced-out statement d, or a malformed construct k"""
    mode = CV.choice(E, "mode", ["truncate", "malformed"])
    t = CV.choice(E, "cut", list(range(0, NSLOT)))            # keep VALID[:t]  (t < NSLOT: always truncated)
    d = CV.choice(E, "drop", ([-1] + list(range(0, NSLOT))) if thorough else QUICK_DROPS)    # splice out statement d (-1: none)
    k = CV.choice(E, "malformed", list(range(len(MALFORMED))))

    def slot(j):
        def f(mode_, t_, d_, k_):
            if mode_ == "truncate":
                return VALID[j] if (j < t_ and j != d_) else parserh.SKIP
            m = MALFORMED[k_]
            return m[j] if j < len(m) else parserh.SKIP
        return choice.apply(f, mode, t, d, k)
    return (mode, t, d, k), [slot(j) for j in range(NSLOT)]


def concrete_lines(mode, t, d, k):
    if mode == "truncate":
        return [VALID[j] for j in range(NSLOT) if j < t and j != d]
    return list(MALFORMED[k])


LISTS = ("files", "modules", "submodules", "procedures", "programs", "types", "absinterfaces", "blockdata", "submodprocedures", "namelists")


def _fname(e):
    fn = getattr(e, "filename", None) or getattr(e, "path", "") or ""
    return os.path.basename(str(fn))


def _ref(x):
    if x is None or isinstance(x, (str, CV)):
        return x
    return ("->", _fname(x), type(x).__name__, getattr(x, "name", None))


def _observe_factory(extra_name):
    def observe(p):
        """state of everything that does not live in the extra file"""
        shape, flat = [], []
        leaked = []
        for attr in LISTS:
            for e in getattr(p, attr):
                if _fname(e) == extra_name:
                    leaked.append((attr, type(e).__name__))
                    continue
                shape.append((attr, _fname(e), type(e).__name__))
                flat.append(e.name)
        for attr in LISTS:
            for e in getattr(p, attr):
                if _fname(e) == extra_name:
                    continue
                flat.append(e.ident)
                for u in (getattr(e, "uses", None) or []):
                    flat.append(_ref(u))
                for c in (getattr(e, "calls", None) or []):
                    flat.append(_ref(c))
                for v in (getattr(e, "variables", None) or []):
                    pr = getattr(v, "proto", None)
                    flat.append(_ref(pr[0]) if pr else None)
                flat.append(len(getattr(e, "calls", None) or []))
        accepted = any(_fname(f) == extra_name for f in p.files)
        obs = choice.apply(lambda *xs: tuple(xs), *flat) if flat else ()
        return accepted, tuple(leaked), tuple(shape), obs
    return observe


def _run(files, extra_name, warnings):
    import ford.fortran_project as fp

    def rec(msg, *a, **k):
        warnings.append(msg)
    return parserh.project(files, post=_observe_factory(extra_name), more_patches={(fp, "warn"): rec}, dbg=True,
                           display=["public", "private", "protected"])


def replay_containment(w):
    import ford.sourceform as sf
    import ford.fortran_project as fp

    lines = concrete_lines(w["mode"], w["cut"], w["drop"], w["malformed"])
    name = w["extra_name"]
    res = []
    msgs = []
    for with_extra in (True, False):
        files = {k: list(v) for k, v in GOOD.items()}
        if with_extra:
            files[name] = list(lines)
        old, oldw = sf.namelist, fp.warn
        sf.namelist = sf.NameSelector()
        fp.warn = lambda m, *a, **k: msgs.append(str(m))
        try:
            with contextlib.redirect_stdout(io.StringIO()), contextlib.redirect_stderr(io.StringIO()):
                p = parserh.project_concrete(files, dbg=True, display=["public", "private", "protected"])
                res.append(_observe_factory(name)(p))
        except Exception as ex:  # noqa - FORD itself aborted
            return True, {"extra file": name, "statements": lines, "ford aborted with": repr(ex)[:200]}
        finally:
            sf.namelist, fp.warn = old, oldw
    (acc, leaked, shape, obs), (_, _, shape0, obs0) = res
    if acc:
        return False, {"extra file": lines, "note": "FORD accepts this file: no requirement"}
    named = any(name in m for m in msgs)
    bad = bool(leaked) or shape != shape0 or obs != obs0 or not named
    return bad, {"extra file": name, "statements": lines, "diagnostic names the file": named, "entities of the rejected file registered": list(leaked),
                 "other files (with extra)": [shape, obs], "other files (without)": [shape0, obs0]}


def _containment_ob(pos):
    @obligation("C20", "O1.containment." + pos, engine="SX(CV)", timeout=3000)
    def ob(ctx):
        import ford.fortran_project as fp
        import ford.sourceform as sf

        ctx.encode_fn(fp.Project.__init__)
        ctx.encode_fn(fp.Project._fortran_file)
        ctx.encode_fn(fp.Project.correlate)
        ctx.encode_fn(sf.FortranSourceFile.__init__)
        ctx.encode_fn(sf.FortranContainer.__init__)
        ctx.encode_fn(sf.FortranContainer.print_error)
        ctx.stubs.append("FortranReader replaced by the symbolic statement lists; ford.console.warn replaced by a recorder")
        ctx.bounds.update({"valid_files": 2, "extra_file_slots": NSLOT, "truncation_points": NSLOT, "spliced_statement": (NSLOT + 1) if ctx.thorough else len(QUICK_DROPS),
                           "malformed_constructs": len(MALFORMED), "position": pos})
        name = POSITIONS[pos]

        def h(E):
            (mode, t, d, k), lines = _extra_lines(E, ctx.thorough)
            h.state = (mode, t, d, k)
            E.e.snapshot = lambda m: {"mode": choice.value_in_model(m, mode), "cut": choice.value_in_model(m, t),
                                      "drop": choice.value_in_model(m, d), "malformed": choice.value_in_model(m, k), "extra_name": name}
            w0, w1 = [], []
            base = _run({k_: list(v) for k_, v in GOOD.items()}, name, w0)
            files = {k_: list(v) for k_, v in GOOD.items()}
            files[name] = lines
            try:
                got = _run(files, name, w1)
            except (IndexError, KeyError, AttributeError, TypeError, ValueError, RuntimeError, NotImplementedError, StopIteration) as ex:
                E.reachable("both runs")
                E.reachable("rejected")
                E.require(False, "FORD aborts on an unparseable file instead of reporting and skipping it: " + type(ex).__name__)
                return
            E.reachable("both runs")
            acc, leaked, shape, obs = got
            if acc:
                E.reachable("accepted")
                return
            E.reachable("rejected")
            named = [choice.apply(lambda m_: name in str(m_), m_) for m_ in w1]
            E.require(any(bool(x) for x in named) if named else False, "a rejected file is not named in any diagnostic")
            E.require(not leaked, "entities of a rejected file are registered in the project")
            if shape != base[2]:
                E.require(False, "rejecting a file changes the entity lists of the other files")
                return
            E.require(choice.apply(lambda a, b: a == b, obs, base[3]), "rejecting a file changes names, identifiers or resolved references of the other files")

        E = sym.Engine(ctx, max_paths=100000, incremental=True)
        found = E.explore(h)
        seen = set()
        for (label, m, pc), snap in zip(found, E.snapshots):
            if label in seen or not snap:
                continue
            seen.add(label)
            ctx.report(label, snap, replay_containment)
        for lab in ("both runs", "accepted", "rejected"):
            if E.reached.get(lab):
                ctx.twins += 1
            else:
                ctx.inconclusive.append(f"vacuity: '{lab}' never reached")
        ctx.sample({"paths": E.paths, "rejected_paths": E.reached.get("rejected"), "accepted_paths": E.reached.get("accepted")})

    ob.__doc__ = (f"extra file read {pos}: when FORD rejects it, it is named in a diagnostic, registers nothing, and the other files' lists, "
                  "names, identifiers and resolved references equal those of the project without it")


for _p in POSITIONS:
    _containment_ob(_p)


# ---------------------------------------------------------------------------------------
# O1r: the same with every file given as PHYSICAL lines and read by the real FortranReader: what the reader has buffered for a file
# that is rejected half-way (statements passed back, `;`-separated statements, documentation lines) never reaches another file
# ---------------------------------------------------------------------------------------
GOOD_PHYS = {"c.f90": ["!! Utilities", "module ma", "  !! A valid module", "  type ta", "    integer :: c", "      !! a component", "  end type ta", "contains",
                       "  subroutine foo()", "    !! does foo", "  end subroutine foo", "end module ma"],
             "k.f90": ["program pk", "  !! the program", "  use ma", "  type(ta) :: v", "  call foo(); call bar()", "end program pk",
                       "subroutine bar()", "  !! does bar", "end subroutine bar"]}
BAD_PHYS = [
    ["module mb", "  abstract interface apply", "    subroutine callback(x)", "    end subroutine callback", "  end interface apply", "end module mb"],
    ["module mb", "  integer :: answer = 42 !> the answer", "end module mb"],
    ["module mb", "  integer :: x; integer :: y; end module mb; end module mb; subroutine late()", "end subroutine late"],
    ["module mb", "  !> documentation of the next entity", "  end module mb", "end module mb"],
    ["subroutine foo()", "  !! rejected twin of foo", "  contains", "  contains", "end subroutine foo", "subroutine zz()"],
    ["module mb", "  integer :: n &", "  !! a doc line inside a continuation", "   & = 3", "  type(", "end module mb"],
    ["  & stray continuation", "module mb", "end module mb"],
    ["module mb", "contains", "subroutine s(a) ; integer a ; end subroutine s ; end module mb ; end"],
]


def _doc_observe(name):
    base = _observe_factory(name)

    def observe(p):
        acc, leaked, shape, obs = base(p)
        docs = []
        for attr in LISTS:
            for e in getattr(p, attr):
                if _fname(e) != name:
                    docs.append((attr, str(e.name), tuple(str(x) for x in (getattr(e, "doc_list", None) or []))))
                    for v in list(getattr(e, "variables", None) or []):
                        docs.append((attr, str(e.name) + "%" + str(v.name), tuple(str(x) for x in (getattr(v, "doc_list", None) or []))))
        return acc, leaked, shape, (obs, tuple(docs))
    return observe


def _run_phys(files, name, msgs):
    import ford.sourceform as sf
    import ford.fortran_project as fp
    old, oldw = sf.namelist, fp.warn
    sf.namelist = sf.NameSelector()
    fp.warn = lambda m, *a, **k: msgs.append(str(m))
    try:
        with contextlib.redirect_stdout(io.StringIO()), contextlib.redirect_stderr(io.StringIO()):
            p = parserh.project_concrete(files, physical=tuple(files), dbg=True, display=["public", "private", "protected"])
            return _doc_observe(name)(p)
    finally:
        sf.namelist, fp.warn = old, oldw


def replay_phys_containment(w):
    name, lines = w["extra_name"], list(BAD_PHYS[w["bad"]])
    msgs = []
    try:
        with_extra = _run_phys(dict({k: list(v) for k, v in GOOD_PHYS.items()}, **{name: lines}), name, msgs)
        without = _run_phys({k: list(v) for k, v in GOOD_PHYS.items()}, name, [])
    except Exception as ex:  # noqa - FORD itself aborted
        return True, {"extra file": name, "lines": lines, "ford aborted with": repr(ex)[:200]}
    acc, leaked, shape, obs = with_extra
    if acc:
        return False, {"extra file": name, "lines": lines, "note": "FORD accepts this file: no requirement"}
    named = any(name in m for m in msgs)
    bad = bool(leaked) or shape != without[2] or obs != without[3] or not named
    return bad, {"extra file": name, "lines": lines, "diagnostic names the file": named, "entities of the rejected file registered": list(leaked),
                 "other files (with extra)": [shape, obs], "other files (without)": [without[2], without[3]]}


@obligation("C20", "O1r.containment.through-the-reader", engine="SX(CV)", timeout=900)
def phys_containment(ctx):
    """two valid documented files plus one of a table of files rejected half-way (by the parser with statements still buffered in the
    reader, or by the reader itself), read first, between or last by the real FortranReader: the rejected file is named in a diagnostic and
    the other files' entities, names, identifiers, references and documentation lines equal those of the project without it"""
    import ford.fortran_project as fp
    import ford.reader as rd

    ctx.encode_fn(fp.Project.__init__)
    ctx.encode_fn(rd.FortranReader.__init__)
    ctx.encode_fn(rd.FortranReader.__next__)
    ctx.encode_fn(rd.FortranReader.pass_back)
    ctx.bounds.update({"rejected files": len(BAD_PHYS), "positions": list(POSITIONS.values())})
    ctx.stubs.append("python-level run per (file, position): the reader works on concrete text; ford.console.warn replaced by a recorder")

    def h(E):
        b = CV.choice(E, "bad", list(range(len(BAD_PHYS)))).concretize()
        name = CV.choice(E, "extra_name", sorted(POSITIONS.values())).concretize()
        snap = {"bad": b, "extra_name": name}
        E.e.snapshot = lambda m: dict(snap)
        from fv import patch as _p
        with _p.suspended():
            bad, detail = replay_phys_containment(snap)
        E.reachable("ran")
        if "note" in detail:
            E.reachable("accepted")
            return
        E.reachable("rejected")
        E.require(not bad, "a file rejected half-way disturbs the other files (or is not reported)")

    E = sym.Engine(ctx, max_paths=500, incremental=True)
    found = E.explore(h)
    seen = set()
    for (label, m, pc), snap in zip(found, E.snapshots):
        if not snap or snap["bad"] in seen:
            continue
        seen.add(snap["bad"])
        ctx.report(label, snap, replay_phys_containment)
    for lab in ("ran", "rejected"):
        if E.reached.get(lab):
            ctx.twins += 1
        else:
            ctx.inconclusive.append(f"vacuity: '{lab}' never reached")
    ctx.sample({"paths": E.paths, "rejected": E.reached.get("rejected"), "accepted": E.reached.get("accepted")})


# ---------------------------------------------------------------------------------------
# O2: "never hangs" — no regular expression FORD applies to source lines has an unbounded loop whose body is ambiguous (one iteration can
# also be read as two or more) AND that is followed by something that can fail: that is what makes a backtracking matcher exponential
# ---------------------------------------------------------------------------------------
def _patterns():
    import re
    import ford.sourceform as sf, ford.reader as rd, ford.utils as fu, ford.fixed2free2 as ff, ford.md_admonition as ma
    out = []
    for mod in (sf, rd, fu, ff, ma):
        for k, v in vars(mod).items():
            if isinstance(v, re.Pattern):
                out.append((f"{mod.__name__}.{k}", v))
            if isinstance(v, type) and v.__module__ == mod.__name__:
                for ck, cv in vars(v).items():
                    if isinstance(cv, re.Pattern):
                        out.append((f"{mod.__name__}.{k}.{ck}", cv))
    # patterns compiled per reader from the configured marks
    try:
        out.append(("ford.reader._compile_docmark('!')", rd._compile_docmark("!")))
    except Exception:  # noqa
        pass
    return out


def _ambiguous_loops(pat):
    """[(body language, prefix language)] of unbounded loops that have a failing continuation"""
    import re
    import re._parser as sp
    import re._constants as sc
    from fv import rx

    ic = bool(pat.flags & re.I)
    found = []

    def required(op, arg):
        n = str(op)
        if n == "AT":
            return str(arg) in ("AT_END", "AT_END_STRING")
        if n in ("ASSERT", "ASSERT_NOT"):
            return True
        try:
            return sp.SubPattern(tree.state, [(op, arg)]).getwidth()[0] > 0
        except Exception:  # noqa
            return True

    def walk(items, prefix, tail):
        items = list(items)
        for i, (op, arg) in enumerate(items):
            n = str(op)
            my_tail = tail or any(required(o, a) for o, a in items[i + 1:])
            try:
                pre = rx._seq(items[:i], ic, rx.EPS)
                pre = z3.Concat(prefix, pre)
            except Exception:  # noqa
                pre = None
            if n in ("MAX_REPEAT", "MIN_REPEAT"):
                lo, hi, sub = arg
                if hi == sc.MAXREPEAT and my_tail:
                    try:
                        found.append((rx._seq(sub, ic, rx.EPS), pre))
                    except Exception:  # noqa - anchors / look-around inside the loop: not encodable, skipped (stated)
                        pass
                walk(sub, pre if pre is not None else prefix, True if hi == sc.MAXREPEAT else my_tail)
            elif n == "SUBPATTERN":
                walk(arg[3], pre if pre is not None else prefix, my_tail)
            elif n == "BRANCH":
                for a in arg[1]:
                    walk(a, pre if pre is not None else prefix, my_tail)
    tree = sp.parse(pat.pattern, pat.flags)
    walk(list(tree), rx.EPS, False)
    return found


def _timing(pat, attack_of, ks=(10, 14, 18, 22, 26), cap=2.0):
    import signal
    import time

    class Timeout(Exception):
        pass

    def handler(sig, frm):
        raise Timeout()
    times = []
    old = signal.signal(signal.SIGALRM, handler)
    try:
        for k in ks:
            s = attack_of(k)
            t0 = time.time()
            signal.setitimer(signal.ITIMER_REAL, cap)
            try:
                pat.search(s)
                pat.match(s)
                times.append(round(time.time() - t0, 3))
            except Timeout:
                times.append(None)
                break
            finally:
                signal.setitimer(signal.ITIMER_REAL, 0)
    finally:
        signal.signal(signal.SIGALRM, old)
    return times


def replay_redos(w):
    pats = dict(_patterns())
    pat = pats.get(w["pattern"])
    if pat is None:
        return False, {"pattern": w["pattern"], "note": "pattern no longer exists"}
    pre, chunk = w["prefix"], w["chunk"]
    times = _timing(pat, lambda k: pre + chunk * k + "\\x00")
    blow = times[-1] is None or (len(times) >= 2 and times[-1] and times[-1] > 0.5)
    return blow, {"pattern": w["pattern"], "regex": pat.pattern[:120], "input": repr(pre) + " + " + repr(chunk) + "*k + NUL",
                  "seconds for k = 10, 14, 18, 22, 26 (None = stopped after 2 s)": times}


@obligation("C20", "O2.no-catastrophic-backtracking", engine="RX", timeout=900)
def redos(ctx):
    """every compiled regular expression of ford.sourceform / reader / utils / fixed2free2 / md_admonition: for each unbounded loop that is
    followed by something that can fail, no non-empty string is both ONE iteration of the body and TWO OR MORE iterations (z3 regex
    query; such an ambiguity makes CPython's backtracking matcher exponential on a non-matching line, i.e. FORD would hang)"""
    from fv import rx

    pats = _patterns()
    nloops = 0
    for name, pat in pats:
        ctx.encode_re(name, pat)
        try:
            loops = _ambiguous_loops(pat)
        except Exception as e:  # noqa
            ctx.outside.append(f"{name}: not analysable ({type(e).__name__})")
            continue
        for bi, (body, pre) in enumerate(loops):
            nloops += 1
            w, pfx = z3.String("w"), z3.String("p")
            ne = z3.Intersect(body, z3.Plus(rx.DOT))
            cons = [z3.InRe(w, ne), z3.InRe(w, z3.Concat(ne, z3.Plus(ne))), z3.Length(w) <= 6]
            if pre is not None:
                cons += [z3.InRe(pfx, pre), z3.Length(pfx) <= 12]
            r, m = ctx.solve(f"{name} loop {bi}: one iteration = several iterations?", cons, timeout_s=20, want=None)
            if r == "sat":
                chunk = rx.z3str_to_py(m.eval(w, model_completion=True).as_string())
                prefix = rx.z3str_to_py(m.eval(pfx, model_completion=True).as_string()) if pre is not None else ""
                ok = ctx.report(f"{name}: ambiguous unbounded loop with a failing continuation (exponential backtracking)",
                                {"pattern": name, "chunk": chunk, "prefix": prefix}, replay_redos)
                if not ok:
                    # ambiguity without measurable blow-up (e.g. the continuation cannot fail on this input): not a violation
                    ctx.mismatches.pop()
                    ctx.outside.append(f"{name}: ambiguous loop body {chunk!r} but no blow-up measured")
            elif r == "unknown":
                ctx.outside.append(f"{name} loop {bi}: solver gave no answer within 20 s")
    ctx.bounds.update({"patterns": len(pats), "unbounded loops with a failing continuation": nloops, "witness length": "<= 6 per iteration"})
    if nloops >= 20:
        ctx.twins += 1
    else:
        ctx.inconclusive.append(f"only {nloops} loops analysed: the pattern walk needs review")
    ctx.sample({"patterns": len(pats), "loops": nloops})
