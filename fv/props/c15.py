"""C15 — options mean the same in every configuration format, with CLI precedence."""
import pathlib
import tempfile

import z3

from fv import sym, choice, patch, parserh
from fv.choice import CV
from fv.core import obligation
from fv.props import META

META["C15"] = {
    "explanation": "Kernel of C15: the real settings pipeline (meta_preprocessor -> ProjectSettings.from_markdown_metadata -> convert_setting; "
    "ProjectSettings(**toml); parse_arguments with --config and command-line values; convert_types_from_commandarguments) "
    "is executed symbolically with the option (one of each type of the settings schema), its value form and its presence in "
    "the project file / --config / command line as finite-choice symbolic values: the effective value is the same whichever "
    "format carries it, and command line > --config/file > default; ill-typed values are rejected with a message naming the option.",
    "outside": ["tomllib and argparse themselves", "every single option of the schema (one representative per type is used)",
                "path normalisation relative to the working directory"],
    "assumptions": ["preprocess is off (no subprocess is started)"],
}

# option -> list of (markdown metadata lines, TOML/native value, canonical expected value)
FORMS = {
    "search": [(["search: false"], False, False), (["search: False"], False, False), (["search: FALSE"], False, False),
               (["search: true"], True, True), (["search: True"], True, True)],
    "graph_maxdepth": [(["graph_maxdepth: 3"], 3, 3), (["graph_maxdepth: 10"], 10, 10), (["graph_maxdepth:   7"], 7, 7)],
    "project": [(["project: My Project"], "My Project", "My Project"), (["project: x: y"], "x: y", "x: y")],
    "author": [(["author: A. Person"], "A. Person", "A. Person")],
    "display": [(["display: public"], ["public"], ["public"]), (["display: public", "    private"], ["public", "private"], ["public", "private"]),
                (["display: Public", "         PROTECTED"], ["Public", "PROTECTED"], ["public", "protected"])],
    "exclude": [(["exclude: a.f90"], ["a.f90"], ["a.f90"]), (["exclude: a.f90", "    b.f90"], ["a.f90", "b.f90"], ["a.f90", "b.f90"]),
                (["exclude: a.f90"], "a.f90", ["a.f90"])],  # TOML scalar for a list option
    "extensions": [(["extensions: f90"], ["f90"], "EXT:f90"), (["extensions: f90"], "f90", "EXT:f90"),
                   (["extensions: f90", "    f03"], ["f90", "f03"], "EXT:f03,f90")],
    "fixed_extensions": [(["fixed_extensions: for"], ["for"], ["for"]), (["fixed_extensions: for"], "for", ["for"])],
    "alias": [(["alias: a = b"], {"a": "b"}, {"a": "b"}), (["alias: a = b", "    c = d e"], {"a": "b", "c": "d e"}, {"a": "b", "c": "d e"})],
    "docmark": [(["docmark: ~"], "~", "~"), (["docmark: %"], "%", "%")],
    # an empty value switches an option with a non-empty default off
    "docmark_alt": [(["docmark_alt: +"], "+", "+"), (["docmark_alt:"], "", ""), (["docmark_alt: "], "", "")],
    "predocmark_alt": [(["predocmark_alt:"], "", ""), (["predocmark_alt: #"], "#", "#")],
    "year": [(["year: 1999"], "1999", "1999"), (["year:"], "", "")],
    # the layouts the user guide shows for multi-valued options: first value on the key's line, or the key on a line of
    # its own followed by indented values; an empty value
    "extra_filetypes": [(["extra_filetypes: c //"], [{"extension": "c", "comment": "//"}], "EFT:c|//|None"),
                        (["extra_filetypes: c //", "    sh # bash"], [{"extension": "c", "comment": "//"}, {"extension": "sh", "comment": "#", "lexer": "bash"}],
                         "EFT:c|//|None;sh|#|bash"),
                        (["extra_filetypes:", "    c //", "    sh # bash"], [{"extension": "c", "comment": "//"}, {"extension": "sh", "comment": "#", "lexer": "bash"}],
                         "EFT:c|//|None;sh|#|bash"),
                        (["extra_filetypes:", "    c //"], [{"extension": "c", "comment": "//"}], "EFT:c|//|None"),
                        (["extra_filetypes: .inc ! fortran.FortranLexer"], [{"extension": ".inc", "comment": "!", "lexer": "fortran.FortranLexer"}],
                         "EFT:.inc|!|fortran.FortranLexer"),
                        (["extra_filetypes: "], [], "EFT:")],
    "extra_mods": [(["extra_mods: json_module: http://x.org"], {"json_module": "http://x.org"}, "EM:json_module=http://x.org"),
                   (["extra_mods:", "    json_module: http://x.org", "    futil: http://y.org"], {"json_module": "http://x.org", "futil": "http://y.org"},
                    "EM:futil=http://y.org;json_module=http://x.org"),
                   (["extra_mods: "], {}, "EM:")],
    "external": [(["external: remote = http://x.org/doc"], {"remote": "http://x.org/doc"}, {"remote": "http://x.org/doc"}),
                 (["external:", "    remote = http://x.org/doc"], {"remote": "http://x.org/doc"}, {"remote": "http://x.org/doc"})],
    "macro": [(["macro: A=1"], ["A=1"], ["A=1"]), (["macro: A=1", "    B"], ["A=1", "B"], ["A=1", "B"])],
}


def _effective(s, key):
    v = getattr(s, key)
    if key == "alias":
        return {k: v[k] for k in sorted(v)}
    if key == "extra_filetypes":
        return "EFT:" + ";".join(f"{k}|{v[k].comment}|{v[k].lexer}" for k in sorted(v))
    if key == "extra_mods":
        # the defaults (intrinsic modules) are merged in: compare the user-given part
        from ford.settings import INTRINSIC_MODS
        return "EM:" + ";".join(f"{k}={v[k]}" for k in sorted(v) if k not in INTRINSIC_MODS)
    if key == "extensions":
        # __post_init__ merges the pre-processed extensions in (a set union): compare the free-form part, order-free
        fpp = list(s.fpp_extensions)
        return choice.apply(lambda *xs: "EXT:" + ",".join(sorted((x for x in xs if x not in fpp), key=lambda t: t.lower())), *list(v))
    return v


def _from_md(lines):
    from ford.settings import ProjectSettings
    from ford.utils import meta_preprocessor

    meta, rest = meta_preprocessor(list(lines) + ["", "body text"])
    return ProjectSettings.from_markdown_metadata(dict(meta))


def _from_toml(key, native):
    from ford.settings import ProjectSettings

    return ProjectSettings(**{key: native})


def replay_formats(w):
    try:
        a = _effective(_from_md(w["md"]), w["key"])
        b = _effective(_from_toml(w["key"], w["native"]), w["key"])
    except Exception as e:  # noqa
        return True, {"key": w["key"], "markdown_lines": w["md"], "native": w["native"], "ford": "raised " + repr(e)[:200]}
    bad = a != w["expected"] or b != w["expected"]
    return bad, {"key": w["key"], "markdown_lines": w["md"], "from_markdown": repr(a), "from_toml": repr(b), "expected": repr(w["expected"])}


@obligation("C15", "O1.formats-agree", engine="SX(CV)", timeout=900)
def formats(ctx):
    """project-file metadata form and TOML-native form of each option type give the same effective value"""
    import ford.settings as st
    import ford.utils as fu

    ctx.encode_fn(st.convert_setting)
    ctx.encode_fn(st.convert_types_from_metapreprocessor)
    ctx.encode_fn(fu.meta_preprocessor)
    ctx.encode_fn(st.ProjectSettings.__post_init__)
    ctx.bounds.update({"options": sorted(FORMS), "forms": sum(len(v) for v in FORMS.values())})
    done = 0
    for key in sorted(FORMS):
        def h(E, key=key):
            o = CV.choice(E, "form", FORMS[key]) if len(FORMS[key]) > 1 else FORMS[key][0]
            if key in ("extra_filetypes", "extra_mods", "external") and isinstance(o, CV):
                # values of these options are records/dicts built field by field: one path per form
                o = FORMS[key][CV.choice(E, "formidx", list(range(len(FORMS[key])))).concretize()]
            h.o = o
            try:
                a = _effective(_from_md(o[0]), key)
                b = _effective(_from_toml(key, o[1]), key)
            except (ValueError, RuntimeError, TypeError) as e:
                E.reachable("converted")
                E.require(False, "a valid option value is rejected: " + type(e).__name__)
                return
            E.reachable("converted")
            E.require(choice.apply(lambda x, y, e: x == e and y == e, a, b, o[2]), "effective value differs between the formats")

        with patch.patched(st, fu):
            E = sym.Engine(ctx, max_paths=5000, incremental=True)
            found = E.explore(h)
            for (label, m, pc), A in list(zip(found, E.autosnaps))[:1]:
                md, nat, exp = choice.value_in_model(m, A["o"])
                ctx.report(label, {"key": key, "md": list(md), "native": nat, "expected": exp}, replay_formats)
            if E.reached.get("converted"):
                done += 1
    if done == len(FORMS):
        ctx.twins += 1
    else:
        ctx.inconclusive.append(f"vacuity: conversion completed for {done}/{len(FORMS)} options only")
    ctx.sample({"options": sorted(FORMS)})


# ---------------------------------------------------------------------------------------
# precedence: command line > --config > project file > default
# ---------------------------------------------------------------------------------------
PREC = {
    # option: (file value as markdown line, config TOML fragment, command-line value, default, expected values file/config/cli)
    "search": ("search: false", "search = false", True, True, (False, False, True)),
    "graph_maxdepth": ("graph_maxdepth: 3", "graph_maxdepth = 5", "7", 10000, (3, 5, 7)),
    "project": ("project: from_file", "project = 'from_config'", "from_cli", "Fortran Program", ("from_file", "from_config", "from_cli")),
    "exclude": ("exclude: f.f90", "exclude = ['c.f90']", ["x.f90"], [], (["f.f90"], ["c.f90"], ["x.f90"])),
    "quiet": ("quiet: true", "quiet = true", False, False, (True, True, False)),
}


def _run_precedence(key, in_file, in_config, in_cli):
    """in_file/in_config/in_cli may be finite-choice booleans: the real parse_arguments then runs on symbolic
    project-file lines, a symbolic --config string and a symbolic command-line value"""
    import ford

    f_line, c_frag, cli_val, default, exps = PREC[key]
    proj = _from_md(["preprocess: false"] + ([f_line] if in_file else []))
    config = choice.apply(lambda p: "preprocess = false" + (";" + c_frag if p else ""), in_config)
    # `x is not None` cannot be overloaded: presence on the command line is decided (forked) here
    cargs = {"config": config, key: (cli_val if in_cli else None)}
    d = tempfile.mkdtemp(prefix="fvset-")
    try:
        proj, _docs = ford.parse_arguments(cargs, "", proj, pathlib.Path(d))
    finally:
        import shutil
        shutil.rmtree(d, ignore_errors=True)
    return getattr(proj, key)


def prec_rule(key, in_file, in_config, in_cli):
    f_line, c_frag, cli_val, default, exps = PREC[key]
    if in_cli:
        return exps[2]
    if in_config:
        return exps[1]
    if in_file:
        return exps[0]
    return default


def replay_precedence(w):
    import io, contextlib
    with contextlib.redirect_stdout(io.StringIO()):
        got = _run_precedence(w["key"], w["in_file"], w["in_config"], w["in_cli"])
    want = prec_rule(w["key"], w["in_file"], w["in_config"], w["in_cli"])
    return got != want, {"key": w["key"], "given_in": {"file": w["in_file"], "config": w["in_config"], "cli": w["in_cli"]},
                         "effective": repr(got), "by_precedence": repr(want)}


@obligation("C15", "O2.precedence", engine="SX(CV)", timeout=900)
def precedence(ctx):
    """command-line value > --config value > project-file value > default, for every presence combination and option type"""
    import ford
    import ford.settings as st
    import ford.utils as fu
    import io, contextlib

    ctx.encode_fn(ford.parse_arguments)
    ctx.encode_fn(st.convert_types_from_commandarguments)
    ctx.encode_fn(st.convert_setting)
    ctx.bounds.update({"options": sorted(PREC), "presence": "file x config x command line, all 8 combinations"})

    import tomllib

    class TomlProxy:
        loads = staticmethod(parserh.pointwise(tomllib.loads))

    done = 0
    for key in sorted(PREC):
      for f_ in (False, True):
        def h(E, key=key, f_=f_):
            c_ = CV.choice(E, "in_config", [False, True])
            l_ = CV.choice(E, "in_cli", [False, True])
            h.state = (f_, c_, l_)
            with contextlib.redirect_stdout(io.StringIO()):
                got = _run_precedence(key, f_, c_, l_)
            want = choice.apply(lambda a, b, c: prec_rule(key, a, b, c), f_, c_, l_)
            E.reachable("parsed")
            E.require(choice.apply(lambda g, w_: g == w_, got, want), "effective value violates command line > --config > file > default")

        with patch.patched(ford, st, fu, extra={(ford, "tomllib"): TomlProxy}):
            E = sym.Engine(ctx, max_paths=2000, incremental=True)
            found = E.explore(h)
            for (label, m, pc), A in list(zip(found, E.autosnaps))[:2]:
                f0, c_, l_ = (choice.value_in_model(m, x) for x in A["state"])
                ctx.report(label, {"key": key, "in_file": f0, "in_config": c_, "in_cli": l_}, replay_precedence)
            if E.reached.get("parsed"):
                done += 1
    if done == 2 * len(PREC):
        ctx.twins += 1
    else:
        ctx.inconclusive.append(f"vacuity: parse_arguments completed for {done}/{2 * len(PREC)} option/file cases only")
    ctx.sample({"options": sorted(PREC)})


# ---------------------------------------------------------------------------------------
BAD = {
    "search": [["search: maybe"], ["search: 1"], ["search: true", "    false"], ["search: tru"], ["search: fals"], ["search: e"], ["search: truefalse"],
               ["search: t"], ["search: yes"]],
    "graph_maxdepth": [["graph_maxdepth: abc"], ["graph_maxdepth: 3x"], ["graph_maxdepth: 1.5"]],
    "alias": [["alias: no_separator_here"]],
}


def _reject(lines):
    try:
        _from_md(lines)
    except Exception as e:  # noqa
        return type(e).__name__ + ": " + str(e)
    return None


def replay_reject(w):
    msg = _reject(w["md"])
    bad = msg is None or w["key"] not in msg
    return bad, {"metadata": w["md"], "option": w["key"], "ford_says": msg}


@obligation("C15", "O3.ill-typed-values-name-the-option", engine="SX(CV)", timeout=900)
def illtyped(ctx):
    """an ill-typed value in the project file is rejected and the message names the option"""
    import ford.settings as st
    import ford.utils as fu

    ctx.encode_fn(st.convert_setting)
    ctx.encode_fn(st.convert_to_bool)
    ctx.encode_fn(st._parse_to_dict)
    ctx.bounds.update({"bad_values": BAD})
    kf = ctx.known("C15-int-error-without-option-name", replay_reject)
    done = 0
    for key in sorted(BAD):
        if kf and key == "graph_maxdepth":
            done += 1
            continue

        def h(E, key=key):
            # one path per value: the conversion helpers see plain strings (membership tests on proxies are not exact)
            v = CV.choice(E, "bad", BAD[key]).concretize() if len(BAD[key]) > 1 else BAD[key][0]
            h.v = v
            try:
                _from_md(v)
            except Exception as e:  # noqa
                E.reachable("rejected")
                msg = e.args[0] if e.args else ""
                E.require(choice.apply(lambda t: key in str(t), msg), "ill-typed value rejected without naming the option")
                return
            E.reachable("accepted")
            E.require(False, "ill-typed value accepted")

        with patch.patched(st, fu):
            E = sym.Engine(ctx, max_paths=500, incremental=True)
            found = E.explore(h)
            for (label, m, pc), A in list(zip(found, E.autosnaps))[:1]:
                vv = A["v"]
                ctx.report(label, {"key": key, "md": list(choice.value_in_model(m, vv) if isinstance(vv, CV) else vv)}, replay_reject)
            if E.reached.get("rejected") or found:
                done += 1
    if done == len(BAD):
        ctx.twins += 1
    else:
        ctx.inconclusive.append("vacuity: not every option was exercised")
    ctx.sample({"bad_values": BAD})


# ---------------------------------------------------------------------------------------
# O4: through the REAL argparse front end: an option that is NOT given on the command line leaves the project file's value alone
# (every option whatever its default), and one that is given wins
# ---------------------------------------------------------------------------------------
FILE_VALUES = {"force": True, "quiet": True, "warn": True, "graph": True, "search": False, "externalize": True, "dbg": False, "relative": None,
               "project": "FromFile", "output_dir": "fromfile_doc", "src_dir": ["fromfile_src"], "exclude": ["x.f90"], "proc_internals": True,
               "incl_src": False, "parallel": 3, "css": "fromfile.css", "revision": "r1"}
CLI_FLAGS = [([], {}), (["-f"], {"force": True}), (["-q"], {"quiet": True}), (["--no-search"], {"search": False}), (["-w"], {"warn": True}),
             (["-g"], {"graph": True}), (["--externalize"], {"externalize": True}), (["-o", "cli_doc"], {"output_dir": "cli_doc"}),
             (["-p", "cli_pages"], {"page_dir": "cli_pages"}), (["-r", "r2"], {"revision": "r2"})]


def _cli_effective(argv_extra):
    """effective settings after the real get_command_line_arguments + convert_types_from_commandarguments on the FILE_VALUES settings"""
    import io, os, sys, tempfile, contextlib
    import ford
    import ford.settings as st

    d = tempfile.mkdtemp(prefix="fvc15-")
    pf = os.path.join(d, "proj.md")
    with open(pf, "w") as f:
        f.write("---\nproject: x\n---\n")
    old = sys.argv
    sys.argv = ["ford"] + list(argv_extra) + [pf]
    try:
        with contextlib.redirect_stdout(io.StringIO()), contextlib.redirect_stderr(io.StringIO()):
            ns = ford.get_command_line_arguments()
        args = dict(vars(ns))
        try:
            args["project_file"].close()
        except Exception:  # noqa
            pass
        args.pop("project_file", None)
        fields = {f_ for f_ in st.ProjectSettings.__dataclass_fields__}
        base = st.ProjectSettings(**{k: v for k, v in FILE_VALUES.items() if k in fields and v is not None}, preprocess=False)
        eff = st.convert_types_from_commandarguments(base, args)
        return {k: getattr(eff, k) for k in FILE_VALUES if k in fields}, sorted(k for k, v in args.items() if v is not None)
    finally:
        sys.argv = old
        import shutil
        shutil.rmtree(d, ignore_errors=True)


def replay_cli(w):
    eff, given = _cli_effective(w["argv"])
    import ford.settings as st
    fields = set(st.ProjectSettings.__dataclass_fields__)
    want = {k: v for k, v in FILE_VALUES.items() if k in fields}
    want.update({k: v for k, v in w["cli"].items() if k in want})
    norm = lambda v: [str(x) for x in v] if isinstance(v, list) else (str(v) if hasattr(v, "parts") else v)
    diff = {k: (norm(eff[k]), norm(want[k])) for k in want if want[k] is not None and norm(eff[k]) != norm(want[k])}
    return bool(diff), {"command line": w["argv"], "options that argparse reports as given": given, "effective != (command line, else project file)": diff}


@obligation("C15", "O4.absent-cli-option-keeps-file-value", engine="SX(CV)", timeout=300)
def cli_absent(ctx):
    """the real argparse declaration: for a symbolic command line (none or one of several options) every option of the project file that
    is not given on the command line keeps the file's value; the given one takes the command-line value"""
    import ford
    import ford.settings as st

    ctx.encode_fn(ford.get_command_line_arguments)
    ctx.encode_fn(st.convert_types_from_commandarguments)
    ctx.bounds.update({"command lines": [a for a, _ in CLI_FLAGS], "file options": sorted(FILE_VALUES)})

    def h(E):
        i = CV.choice(E, "cli", list(range(len(CLI_FLAGS)))).concretize()   # sys.argv is concrete text
        argv, cli = CLI_FLAGS[i]
        E.e.snapshot = lambda m: {"argv": argv, "cli": cli}
        bad, detail = replay_cli({"argv": argv, "cli": cli})
        E.reachable("parsed")
        E.require(not bad, "an option absent from the command line overrides the project file (or a given one does not win): " + str(sorted(detail[list(detail)[-1]]))[:120])

    E = sym.Engine(ctx, max_paths=200, incremental=True)
    found = E.explore(h)
    seen = set()
    for (label, m, pc), snap in zip(found, E.snapshots):
        if not snap or str(snap["argv"]) in seen:
            continue
        seen.add(str(snap["argv"]))
        ctx.report(label, snap, replay_cli)
        if len(seen) >= 3:
            break
    if E.reached.get("parsed"):
        ctx.twins += 1
    else:
        ctx.inconclusive.append("vacuity: command line never parsed")
    ctx.sample({"paths": E.paths})
