META = {}
