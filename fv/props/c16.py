"""C16 — links into an externalised project; entities the project defines itself take precedence (kernel)."""
import contextlib
import io
import os
import shutil
import tempfile

import z3

from fv import sym, choice, parserh
from fv.choice import CV
from fv.core import obligation
from fv.props import META

META["C16"] = {
    "explanation": "Kernel of C16: project A is parsed, correlated and exported with the real dump_modules; project B (symbolic: whether it "
    "defines a module / type with the same name as one of A, in which letter case, and how it spells its USE statements) is run "
    "through the real parser, load_external_modules/dict2obj and Project.correlate.  For every combination: a module B "
    "defines itself wins over A's module of the same name, types reached through it are B's, names only A defines are linked "
    "to A's exported URL (re-based on A's location), and Project.find prefers B's own entities over external ones.",
    "outside": ["remote (http) external projects", "A's generated HTML pages", "corrupt/missing modules.json", "rebuilding A with other options"],
    "assumptions": ["A's description is produced by the real obj2dict/dump_modules in the same run"],
}

A_FILES = {"a.f90": ["module kinds", "type tol_t", "real :: abs_tol", "end type tol_t", "end module kinds",
                     "module geom", "type shape", "integer :: n", "end type shape", "end module geom",
                     "module shared", "integer :: s", "end module shared"]}
PSET = dict(proc_internals=True, display=["public", "private", "protected"])


def _export_a():
    """real export of project A; returns directory holding modules.json"""
    import ford.external_project as ep

    d = tempfile.mkdtemp(prefix="fvextA-")
    with contextlib.redirect_stdout(io.StringIO()), contextlib.redirect_stderr(io.StringIO()):
        a = parserh.project_concrete({k: list(v) for k, v in A_FILES.items()}, **PSET)
        ep.dump_modules(a, d)
    return d


LOCAL_KINDS = [("module kinds", True), ("module KINDS", True), ("module Kinds", True), ("module kinds_of_b", False)]
USE_KINDS = ["use kinds", "USE KINDS", "use Kinds, only: tol_t"]
LOCAL_SHARED = [("type shared", True), ("type Shared", True), ("type unshared", False)]


def _b_files(mk, uk, ls):
    return {"b.f90": [mk, "type tol_t", "real :: rel_tol", "end type tol_t", ls, "integer :: q", "end type", "end module",
                      "module app", uk, "use geom", "type(tol_t) :: v", "type(shape) :: w", "end module app"]}


def _classify(ent):
    if isinstance(ent, str):
        return "unresolved"
    return "external" if hasattr(ent, "external_url") else "local"


def _observe(p):
    app = [m for m in p.modules if choice.apply(lambda n: str(n).lower() == "app", m.name) is True][0]
    used = {"kinds": None, "geom": None}
    for u in app.uses:
        nm = getattr(u, "name", u)
        is_geom = choice.apply(lambda n: str(n).lower() == "geom", nm)
        used["geom" if is_geom is True else "kinds"] = _classify(u)
    vs = list(app.variables)
    found = p.find("shared")
    return {"use kinds": used["kinds"], "use geom": used["geom"],
            "type(tol_t)": choice.apply(_classify, vs[0].proto[0]) if vs and vs[0].proto else "unresolved",
            "type(shape)": choice.apply(_classify, vs[1].proto[0]) if len(vs) > 1 and vs[1].proto else "unresolved",
            "find(shared)": "none" if found is None else choice.apply(_classify, found)}


def rule(local_kinds, local_shared):
    return {"use kinds": "local" if local_kinds else "external", "use geom": "external",
            "type(tol_t)": "local" if local_kinds else "external", "type(shape)": "external",
            "find(shared)": "local" if local_shared else "external"}


def replay_ext(w):
    d = _export_a()
    try:
        with contextlib.redirect_stdout(io.StringIO()), contextlib.redirect_stderr(io.StringIO()):
            p = parserh.project_concrete(_b_files(*w["slots"]), external={"a": d}, **PSET)
        got = _observe(p)
    finally:
        shutil.rmtree(d, ignore_errors=True)
    return got != w["expected"], {"b": _b_files(*w["slots"])["b.f90"], "ford": got, "precedence_rule": w["expected"]}


@obligation("C16", "O1.local-before-external", engine="SX(CV)", timeout=1800)
def local_first(ctx):
    """B's own module / type wins over A's entity of the same name (any letter case); names only A defines link to A"""
    import ford.fortran_project as fp
    import ford.external_project as ep

    ctx.encode_fn(fp.find_used_modules)
    ctx.encode_fn(fp.Project.find)
    ctx.encode_fn(ep.dict2obj)
    ctx.encode_fn(ep.load_external_modules)
    ctx.encode_text("LINK_TYPES", repr(list(fp.LINK_TYPES.items())))
    ctx.bounds.update({"local module spellings": len(LOCAL_KINDS), "use spellings": len(USE_KINDS), "local type spellings": len(LOCAL_SHARED)})
    kf = ctx.known("C16-find-prefers-external-module", replay_ext)
    d = _export_a()
    try:
        def h(E):
            mk = CV.choice(E, "mk", LOCAL_KINDS)
            uk = CV.choice(E, "uk", USE_KINDS)
            ls = CV.choice(E, "ls", LOCAL_SHARED)
            h.state = (mk, uk, ls)
            if kf:
                E.assume(choice.apply(lambda x: not x, ls[1]))
            with contextlib.redirect_stdout(io.StringIO()), contextlib.redirect_stderr(io.StringIO()):
                p = parserh.project(_b_files(mk[0], uk, ls[0]), external={"a": d}, **PSET)
                got = _observe(p)
            E.reachable("correlated")
            want = choice.apply(rule, mk[1], ls[1])
            h.want = want
            for k in ("use kinds", "use geom", "type(tol_t)", "type(shape)", "find(shared)"):
                E.require(choice.apply(lambda g, w_, k=k: g == w_[k], got[k], want), f"{k}: wrong side (local/external) chosen")

        E = sym.Engine(ctx, max_paths=20000, incremental=True)
        found = E.explore(h)
        seen = set()
        for label, m, pc in found:
            if label in seen:
                continue
            seen.add(label)
            mk, uk, ls = (choice.value_in_model(m, x) for x in h.state)
            ctx.report(label, {"slots": [mk[0], uk, ls[0]], "expected": choice.value_in_model(m, h.want)}, replay_ext)
        if E.reached.get("correlated"):
            ctx.twins += 1
        else:
            ctx.inconclusive.append("vacuity: correlate never completed")
    finally:
        shutil.rmtree(d, ignore_errors=True)
    ctx.sample({"paths": E.paths})
