"""C16 — links into an externalised project; entities the project defines itself take precedence (kernel)."""
import contextlib
import io
import os
import shutil
import tempfile

import z3

from fv import sym, choice, parserh
from fv.choice import CV
from fv.core import obligation
from fv.props import META

META["C16"] = {
    "explanation": "Kernel of C16: project A is parsed, correlated and exported with the real dump_modules; project B (symbolic: whether it "
    "defines a module / type with the same name as one of A, in which letter case, and how it spells its USE statements) is run "
    "through the real parser, load_external_modules/dict2obj and Project.correlate.  For every combination: a module B "
    "defines itself wins over A's module of the same name, types reached through it are B's, names only A defines are linked "
    "to A's exported URL (re-based on A's location), and Project.find prefers B's own entities over external ones.",
    "outside": ["remote (http) external projects", "A's generated HTML pages", "corrupt/missing modules.json", "rebuilding A with other options"],
    "assumptions": ["A's description is produced by the real obj2dict/dump_modules in the same run"],
}

A_FILES = {"a.f90": ["module kinds", "type tol_t", "real :: abs_tol", "end type tol_t", "end module kinds",
                     # declared with capitals, referenced in lower case from B (names are case-insensitive)
                     "module Geom", "abstract interface", "function area_iface(x)", "real :: x, area_iface", "end function area_iface", "end interface",
                     "type Shape", "integer :: n", "contains", "procedure :: Describe => describe_shape", "procedure :: area => area_shape",
                     "end type Shape", "contains", "subroutine describe_shape(self)", "class(Shape) :: self", "end subroutine describe_shape",
                     "function area_shape(self)", "class(Shape) :: self", "real :: area_shape", "end function area_shape", "end module Geom",
                     "module shared", "integer :: s", "end module shared",
                     # a facade that re-exports another module's type under a new name: B sees it only under that name
                     "module base_m", "type base_t", "integer :: b", "end type base_t", "end module base_m",
                     "module facade", "use base_m, only: root_t => base_t", "public", "end module facade",
                     # the same through a default-private facade with an explicit public list naming the LOCAL name
                     "module facade2", "use base_m, only: root2_t => base_t", "private", "public :: root2_t", "end module facade2"]}
PSET = dict(proc_internals=True, display=["public", "private", "protected"])


def _export_a():
    """real export of project A; returns directory holding modules.json"""
    import ford.external_project as ep

    d = tempfile.mkdtemp(prefix="fvextA-")
    with contextlib.redirect_stdout(io.StringIO()), contextlib.redirect_stderr(io.StringIO()):
        a = parserh.project_concrete({k: list(v) for k, v in A_FILES.items()}, **PSET)
        ep.dump_modules(a, d)
    return d


LOCAL_KINDS = [("module kinds", True), ("module KINDS", True), ("module Kinds", True), ("module kinds_of_b", False)]
USE_KINDS = ["use kinds", "USE KINDS", "use Kinds, only: tol_t"]
LOCAL_SHARED = [("type shared", True), ("type Shared", True), ("type unshared", False)]


def _b_files(mk, uk, ls):
    return {"b.f90": [mk, "type tol_t", "real :: rel_tol", "end type tol_t", ls, "integer :: q", "end type", "end module",
                      "module app", uk, "use geom", "use facade, only: root_t", "use facade2", "type(tol_t) :: v", "type(shape) :: w", "type(root_t) :: z", "type(root2_t) :: z2",
                      "procedure(area_iface), pointer :: pp",
                      # B extends A's type and overrides one of its bindings (spelled in another letter case); the other one is inherited
                      "interface ext_gen", "module procedure area_shape", "end interface ext_gen",
                      "type, extends(shape) :: square", "integer :: side", "contains", "procedure :: describe => describe_square",
                      "procedure, nopass :: ext_run => describe_shape", "end type square",
                      "contains", "subroutine describe_square(self)", "class(square) :: self", "end subroutine describe_square",
                      "end module app",
                      # a rename without ONLY frees the original name: B's own `base_t` is not hidden by A's
                      "module app2", "use base_m, ext_base => base_t", "type base_t", "integer :: own", "end type base_t",
                      "type(base_t) :: mine", "type(ext_base) :: theirs", "end module app2",
                      # every kind of program unit can use a module of the other project
                      "block data b_init", "use geom, only: shape", "type(shape) :: origin", "common /geometry/ origin", "end block data b_init"]}


def _classify(ent):
    if isinstance(ent, str):
        return "unresolved"
    return "external" if hasattr(ent, "external_url") else "local"


def _observe(p):
    app = [m for m in p.modules if choice.apply(lambda n: str(n).lower() == "app", m.name) is True][0]
    used = {"kinds": None, "geom": None}
    for u in app.uses:
        nm = getattr(u, "name", u)
        is_geom = choice.apply(lambda n: str(n).lower() == "geom", nm)
        is_facade = choice.apply(lambda n: str(n).lower() in ("facade", "facade2"), nm)
        if is_facade is True:
            continue
        used["geom" if is_geom is True else "kinds"] = _classify(u)
    vs = list(app.variables)
    sq = [t for t in app.types if choice.apply(lambda n: str(n).lower() == "square", t.name) is True]
    binds = sorted((str(b.name).lower(), _classify(b)) for b in sq[0].boundprocs) if sq else "MISSING"
    found = p.find("shared")
    ext_run = [b for b in (sq[0].boundprocs if sq else []) if str(b.name).lower() == "ext_run"]
    gen = [i for i in app.interfaces if str(i.name).lower() == "ext_gen"]
    return {"target of binding ext_run": choice.apply(_classify, ext_run[0].bindings[0]) if ext_run and ext_run[0].bindings else "unresolved",
            "specific of interface ext_gen": (choice.apply(_classify, gen[0].modprocs[0].procedure)
                                              if gen and gen[0].modprocs and getattr(gen[0].modprocs[0], "procedure", None) is not None else "unresolved"),"use kinds": used["kinds"], "use geom": used["geom"],
            "type(tol_t)": choice.apply(_classify, vs[0].proto[0]) if vs and vs[0].proto else "unresolved",
            "type(shape)": choice.apply(_classify, vs[1].proto[0]) if len(vs) > 1 and vs[1].proto else "unresolved",
            "type(root_t)": choice.apply(_classify, vs[2].proto[0]) if len(vs) > 2 and vs[2].proto else "unresolved",
            "type(root2_t)": choice.apply(_classify, vs[3].proto[0]) if len(vs) > 3 and vs[3].proto else "unresolved",
            "procedure(area_iface)": choice.apply(_classify, vs[4].proto[0]) if len(vs) > 4 and vs[4].proto else "unresolved",
            "find(shared)": "none" if found is None else choice.apply(_classify, found),
            "block data: type(shape)": _bd_proto(p),
            "app2: type(base_t) after `use base_m, ext_base => base_t`": _app2(p, 0), "app2: type(ext_base)": _app2(p, 1),
            "bindings of square": binds}


def _app2(p, i):
    m = [x for x in p.modules if choice.apply(lambda n: str(n).lower() == "app2", x.name) is True]
    vs = list(m[0].variables) if m else []
    return choice.apply(_classify, vs[i].proto[0]) if len(vs) > i and vs[i].proto else "unresolved"


def _bd_proto(p):
    bd = list(p.blockdata)
    # the members of a common block are listed with the block, not with the unit
    vs = (list(bd[0].variables) + [v for c in bd[0].common for v in c.variables if not isinstance(v, str)]) if bd else []
    return choice.apply(_classify, vs[0].proto[0]) if vs and vs[0].proto else "unresolved"


def rule(local_kinds, local_shared):
    return {"use kinds": "local" if local_kinds else "external", "use geom": "external",
            "type(tol_t)": "local" if local_kinds else "external", "type(shape)": "external", "type(root_t)": "external", "type(root2_t)": "external", "procedure(area_iface)": "external",
            "find(shared)": "local" if local_shared else "external", "block data: type(shape)": "external",
            "app2: type(base_t) after `use base_m, ext_base => base_t`": "local", "app2: type(ext_base)": "external",
            # B's own `describe` replaces A's `Describe`; `area` is inherited from A
            "bindings of square": [("area", "external"), ("describe", "local"), ("ext_run", "local")],
            # B may name a procedure of A as a specific of its own generic interface or as the target of a binding
            "target of binding ext_run": "external", "specific of interface ext_gen": "external"}


def replay_ext(w):
    d = _export_a()
    try:
        with contextlib.redirect_stdout(io.StringIO()), contextlib.redirect_stderr(io.StringIO()):
            p = parserh.project_concrete(_b_files(*w["slots"]), external={"a": d}, **PSET)
        got = _observe(p)
    except (AttributeError, KeyError, TypeError, IndexError, ValueError, RuntimeError) as ex:
        return True, {"b": _b_files(*w["slots"])["b.f90"], "ford aborted with": type(ex).__name__ + ": " + str(ex)[:200]}
    finally:
        shutil.rmtree(d, ignore_errors=True)
    import json
    norm = lambda x: json.loads(json.dumps(x, default=str))
    return norm(got) != norm(w["expected"]), {"b": _b_files(*w["slots"])["b.f90"], "ford": norm(got), "precedence_rule": norm(w["expected"])}


@obligation("C16", "O1.local-before-external", engine="SX(CV)", timeout=1800)
def local_first(ctx):
    """B's own module / type wins over A's entity of the same name (any letter case); names only A defines link to A"""
    import ford.fortran_project as fp
    import ford.external_project as ep

    ctx.encode_fn(fp.find_used_modules)
    ctx.encode_fn(fp.Project.find)
    ctx.encode_fn(ep.dict2obj)
    ctx.encode_fn(ep.load_external_modules)
    ctx.encode_text("LINK_TYPES", repr(list(fp.LINK_TYPES.items())))
    ctx.bounds.update({"local module spellings": len(LOCAL_KINDS), "use spellings": len(USE_KINDS), "local type spellings": len(LOCAL_SHARED)})
    kf = ctx.known("C16-find-prefers-external-module", replay_ext)
    d = _export_a()
    try:
        def h(E):
            mk = CV.choice(E, "mk", LOCAL_KINDS)
            uk = CV.choice(E, "uk", USE_KINDS)
            ls = CV.choice(E, "ls", LOCAL_SHARED)
            h.state = (mk, uk, ls)
            if kf:
                E.assume(choice.apply(lambda x: not x, ls[1]))
            try:
                with contextlib.redirect_stdout(io.StringIO()), contextlib.redirect_stderr(io.StringIO()):
                    p = parserh.project(_b_files(mk[0], uk, ls[0]), external={"a": d}, **PSET)
                    got = _observe(p)
            except (AttributeError, KeyError, TypeError, IndexError, ValueError, RuntimeError) as ex:
                E.reachable("correlated")
                h.want = choice.apply(rule, mk[1], ls[1])
                E.require(False, "B's run aborts on a use of A's entities: " + type(ex).__name__ + ": " + str(ex)[:80])
                return
            E.reachable("correlated")
            want = choice.apply(rule, mk[1], ls[1])
            h.want = want
            for k in ("use kinds", "use geom", "type(tol_t)", "type(shape)", "type(root_t)", "type(root2_t)", "procedure(area_iface)", "find(shared)", "bindings of square", "block data: type(shape)",
                      "target of binding ext_run", "specific of interface ext_gen",
                      "app2: type(base_t) after `use base_m, ext_base => base_t`", "app2: type(ext_base)"):
                E.require(choice.apply(lambda g, w_, k=k: g == w_[k], got[k], want), f"{k}: wrong side (local/external) chosen")

        E = sym.Engine(ctx, max_paths=20000, incremental=True)
        found = E.explore(h)
        seen = set()
        for (label, m, pc), A in list(zip(found, E.autosnaps)):
            if label in seen:
                continue
            seen.add(label)
            mk, uk, ls = (choice.value_in_model(m, x) for x in A["state"])
            ctx.report(label, {"slots": [mk[0], uk, ls[0]], "expected": choice.value_in_model(m, A["want"])}, replay_ext)
        if E.reached.get("correlated"):
            ctx.twins += 1
        else:
            ctx.inconclusive.append("vacuity: correlate never completed")
    finally:
        shutil.rmtree(d, ignore_errors=True)
    ctx.sample({"paths": E.paths})


# ---------------------------------------------------------------------------------------
# O2: remote external project: entity URLs are A's own relative URLs re-based on the given location
# ---------------------------------------------------------------------------------------
REMOTES = ["https://docs.example.org/projA/doc", "https://docs.example.org/projA/doc/", "https://host.org", "http://host.org/",
           "https://host.org/a"]


def _rebase(url, rel):
    return (url if url.endswith("/") else url + "/") + rel


def _exported_rel(data):
    """relative URLs under which A exported module geom and type shape (read from A's real modules.json)"""
    import json
    mods = json.loads(data)["modules"]
    g = [m for m in mods if m["name"].lower() == "geom"][0]
    t = [x for x in g.get("types", []) if x and x["name"].lower() == "shape"][0]
    strip = lambda u: u.split("/", 1)[-1]
    return strip(g["external_url"]), strip(t["external_url"])


def _observe_remote(p):
    app = [m for m in p.modules if choice.apply(lambda n: str(n).lower() == "app", m.name) is True][0]
    mods = [u for u in app.uses if hasattr(u, "external_url")]
    vs = list(app.variables)
    return {"geom": [choice.apply(str, u.external_url) for u in mods if choice.apply(lambda n: str(n).lower() == "geom", u.name) is True],
            "shape": choice.apply(str, getattr(vs[-1].proto[0], "external_url", None))}


def _b_remote():
    return {"b.f90": ["module app", "use geom", "type(shape) :: w", "end module app"]}


class _Resp:
    def __init__(self, data):
        self.data = data

    def read(self):
        return self.data


def replay_remote(w):
    import ford.external_project as ep

    d = _export_a()
    orig = ep.urlopen
    try:
        data = open(os.path.join(d, "modules.json"), "rb").read()
        ep.urlopen = lambda u, *a, **k: _Resp(data)
        with contextlib.redirect_stdout(io.StringIO()), contextlib.redirect_stderr(io.StringIO()):
            p = parserh.project_concrete(_b_remote(), external={"a": w["url"]}, **PSET)
        got = _observe_remote(p)
    finally:
        ep.urlopen = orig
        shutil.rmtree(d, ignore_errors=True)
    rg, rt = _exported_rel(data)
    want = {"geom": [_rebase(w["url"], rg)], "shape": _rebase(w["url"], rt)}
    return got != want, {"external": w["url"], "ford": got, "re-based_urls": want}


@obligation("C16", "O2.remote-url-rebasing", engine="SX(CV)", timeout=900)
def remote(ctx):
    """links into a remote external project = the project's location (with or without trailing slash, with or without a path) joined
    with the entity's exported relative URL"""
    import ford.external_project as ep
    import urllib.parse

    ctx.encode_fn(ep.load_external_modules)
    ctx.encode_fn(ep.dict2obj)
    ctx.stubs.append("urlopen replaced by a stub serving A's real modules.json (no network)")
    ctx.bounds.update({"locations": REMOTES})
    d = _export_a()
    data = open(os.path.join(d, "modules.json"), "rb").read()
    rg, rt = _exported_rel(data)
    try:
        def h(E):
            url = CV.choice(E, "url", REMOTES)
            E.e.snapshot = lambda m: {"url": choice.value_in_model(m, url)}
            extra_mods = (ep,)
            # the stubbed urlopen and urljoin are evaluated per choice by the real urllib
            ep_extra = {(ep, "urlopen"): parserh.pointwise(lambda u, *a, **k: _Resp(data)),
                        (ep, "urljoin"): parserh.pointwise(urllib.parse.urljoin)}
            from fv import patch as _patch
            with _patch.patched(ep, extra=ep_extra):
                with contextlib.redirect_stdout(io.StringIO()), contextlib.redirect_stderr(io.StringIO()):
                    got = parserh.project(_b_remote(), post=_observe_remote, external={"a": url}, **PSET)
            E.reachable("loaded")
            if len(got["geom"]) != 1:
                E.require(False, "used external module not linked")
                return
            E.require(choice.apply(lambda g, u: g == _rebase(u, rg), got["geom"][0], url), "module URL not re-based on the project's location")
            E.require(choice.apply(lambda g, u: g == _rebase(u, rt), got["shape"], url), "type URL not re-based on the project's location")

        E = sym.Engine(ctx, max_paths=2000, incremental=True)
        found = E.explore(h)
        seen = set()
        for (label, m, pc), snap in zip(found, E.snapshots):
            if label in seen:
                continue
            seen.add(label)
            ctx.report(label, snap, replay_remote)
        if E.reached.get("loaded"):
            ctx.twins += 1
        else:
            ctx.inconclusive.append("vacuity: external project never loaded")
    finally:
        shutil.rmtree(d, ignore_errors=True)
    ctx.sample({"paths": E.paths})


# ---------------------------------------------------------------------------------------
# O3: a [[...]] reference to an entity of an external project gives a link into that project's documentation
# ---------------------------------------------------------------------------------------
# unqualified references only: the kind qualifiers for external entities (exttype, extmodule, ...) are not documented
XLINKS = ["[[shape]]", "[[Shape]]", "[[SHAPE]]", "[[geom]]", "[[Geom]]", "[[geom:shape]]", "[[GEOM:SHAPE]]"]


def _xlink(p, text):
    from fv.props import c11
    return c11._run_link(p, None, text)


def _xexpected(d, text):
    """href relative to the page /base/page: A's page of the entity, in A's documentation directory `d` (local external project)"""
    import os
    t = text.lower()
    rel = "type/shape.html" if "shape" in t else ("type/tol_t.html" if "tol_t" in t else "module/geom.html")
    return os.path.relpath(os.path.join(d, rel), "/base/page")


def replay_xlink(w):
    d = _export_a()
    try:
        try:
            with contextlib.redirect_stdout(io.StringIO()), contextlib.redirect_stderr(io.StringIO()):
                p = parserh.project_concrete(_b_files("module kinds_of_b", "use kinds", "type unshared"), external={"a": d}, **PSET)
            got = _xlink(p, w["link"])
        except Exception as e:  # noqa
            got = "raised " + repr(e)[:120]
        want = _xexpected(d, w["link"])
    finally:
        shutil.rmtree(d, ignore_errors=True)
    return got != want, {"reference": w["link"], "ford_href": got, "page of the entity in A": want}


@obligation("C16", "O3.references-into-external-project", engine="SX(CV)", timeout=900)
def xlinks(ctx):
    """[[name]] / [[module:name(kind)]] references (symbolic spelling) to entities only the local external project A defines: the link
    target is A's page of that entity, relative to the current page; nothing raises"""
    import ford._markdown as mk
    import ford.fortran_project as fp
    import ford.sourceform as sf

    ctx.encode_fn(mk.FordLinkProcessor.convert_link)
    ctx.encode_fn(fp.Project.find)
    ctx.bounds.update({"reference spellings": XLINKS})
    d = _export_a()
    try:
        try:
            with contextlib.redirect_stdout(io.StringIO()), contextlib.redirect_stderr(io.StringIO()):
                p = parserh.project_concrete(_b_files("module kinds_of_b", "use kinds", "type unshared"), external={"a": d}, **PSET)
        except (AttributeError, KeyError, TypeError, IndexError, ValueError, RuntimeError) as ex:
            # B cannot even be built against A's description: reported with the first reference as witness
            ctx.report("B's run aborts on a use of A's entities: " + type(ex).__name__ + ": " + str(ex)[:80], {"link": XLINKS[0]}, replay_xlink)
            return
        from fv import patch

        def h(E):
            ln = CV.choice(E, "link", XLINKS)
            E.e.snapshot = lambda m: {"link": choice.value_in_model(m, ln)}
            try:
                with contextlib.redirect_stdout(io.StringIO()), contextlib.redirect_stderr(io.StringIO()):
                    got = _xlink(p, ln)
            except (AttributeError, TypeError, ValueError, RuntimeError) as e:
                E.reachable("converted")
                E.require(False, "a reference into an external project makes FORD fail: " + type(e).__name__)
                return
            E.reachable("converted")
            want = choice.apply(lambda t: _xexpected(d, t), ln)
            E.require(choice.apply(lambda g, w_: g == w_, got, want), "reference to an external entity does not link to its page in the external documentation")

        with patch.patched(mk, sf, fp):
            E = sym.Engine(ctx, max_paths=2000, incremental=True)
            found = E.explore(h)
        seen = set()
        for (label, m, pc), snap in zip(found, E.snapshots):
            if label in seen or not snap:
                continue
            seen.add(label)
            ctx.report(label, snap, replay_xlink)
        if E.reached.get("converted"):
            ctx.twins += 1
        else:
            ctx.inconclusive.append("vacuity: no reference converted")
    finally:
        shutil.rmtree(d, ignore_errors=True)
    ctx.sample({"paths": E.paths})
