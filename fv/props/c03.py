"""C03 — each doc comment lands on its entity, complete, once and in order (kernel: reader + parser)."""
import z3

from fv import sym, choice, parserh
from fv.choice import CV
from fv.core import obligation
from fv.props import META

META["C03"] = {
    "explanation": "C03 on symbolic source text: the REAL FortranReader (doc-marker handling, buffering of preceding docs, alternate "
    "block markers) feeds the REAL parser (read_docstring, line_to_variables) on a module whose comment lines between two "
    "declarations are finite-choice symbolic values: following docs (!!), preceding docs (!>), alternate blocks (!* and !| "
    "continued by plain comments), ordinary comments, inline docs, and their absence, in every combination.  The doc lines "
    "attached to each entity must be exactly the documented ones: every line once, in order, nothing from ordinary "
    "comments or from the neighbour.  The admonition pre-processor and metadata split are checked on symbolic doc lines.",
    "outside": ["a `!!` line directly after a `!|` block (not covered by the user guide)", "python-markdown's conversion and summary extraction", "blank lines inside doc blocks", "marker strings other than the defaults"],
    "assumptions": ["oracle: fv/props/c03.py::assign (from docs/user_guide/writing_documentation.rst)"],
}

# (physical line, kind, text)
AFTER_FIRST = [
    (None, None, None),
    ("  !! alfa bravo", "doc", " alfa bravo"), ("!! alfa", "doc", " alfa"),
    ("  !* alfa bravo", "alt", " alfa bravo"),
    ("  ! plain one", "plain", " plain one"),
]
SECOND_LINE = [
    (None, None, None),
    ("  !! charlie", "doc", " charlie"),
    ("  ! charlie delta", "plain", " charlie delta"),
]
BEFORE_SECOND = [
    (None, None, None),
    ("  !> echo foxtrot", "pre", " echo foxtrot"),
    ("  !| echo foxtrot", "altpre", " echo foxtrot"),
    ("  ! plain two", "plain", " plain two"),
]
BEFORE_SECOND2 = [
    (None, None, None),
    ("  !> golf", "pre", " golf"),
    ("  !! golf", "doc", " golf"),
    ("  ! golf hotel", "plain", " golf hotel"),
]
AFTER_SECOND = [(None, None, None), ("  !! india", "doc", " india"), ("integer :: third", "code", None)]
INLINE = [("integer :: first", None), ("integer :: first !! zulu", " zulu"), ("integer :: first ! not doc", None)]


def assign(inline, lines, after):
    """documented attachment: (docs of `first`, docs of `second`) as lists of texts, in order"""
    first, second = [], []
    if inline:
        first.append(inline)
    mode = None  # None | 'alt' (following alt block) | 'pre' | 'altpre'
    for kind, text in lines:
        if kind is None:
            continue
        if kind == "doc":
            (second if mode in ("pre", "altpre") else first).append(text)
            if mode == "alt":
                mode = None
        elif kind == "alt":
            first.append(text)
            mode = "alt"
        elif kind == "pre":
            second.append(text)
            mode = "pre"
        elif kind == "altpre":
            second.append(text)
            mode = "altpre"
        elif kind == "plain":
            if mode == "alt":
                first.append(text)
            elif mode == "altpre":
                second.append(text)
            # an ordinary comment otherwise: ignored; it does not end a `!>` block
    kind, text = after
    if kind == "doc":
        second.append(text)
    return first, second


def _program(inline_line, lines, after_line):
    out = ["module m", inline_line]
    out += [l for l in lines if l is not None]
    out += ["integer :: second"]
    if after_line is not None:
        out.append(after_line)
    out += ["end module m"]
    return out


def _docs(f):
    vs = list(f.modules[0].variables)
    return [list(v.doc_list) for v in vs[:2]], len(vs)


def replay_docs(w):
    f = parserh.parse_source_text("\n".join(w["program"]) + "\n", **(w.get("marks") or {}))
    got, n = _docs(f)
    got = [[str(x) for x in d if str(x).strip()] for d in got]
    return got != w["expected"], {"program": w["program"], "ford_doc_lists": got, "documented_attachment": w["expected"]}


def _remark(table, marks):
    """the same comment lines written with other documentation marks (docmark, predocmark, docmark_alt, predocmark_alt)"""
    d, p, a, q = marks
    out = []
    for row in table:
        t = row[0]
        if isinstance(t, str):
            t = t.replace("!!", "!" + d).replace("!>", "!" + p).replace("!*", "!" + a).replace("!|", "!" + q)
        out.append((t,) + tuple(row[1:]))
    return out


DEFAULT_MARKS = ("!", ">", "*", "|")


def _docs_ob(name, use_second, use_before2, tiers=("quick", "thorough"), marks=DEFAULT_MARKS):
    AFTER_FIRST_, SECOND_LINE_, BEFORE_SECOND_, BEFORE_SECOND2_, AFTER_SECOND_, INLINE_ = (
        _remark(t, marks) for t in (AFTER_FIRST, SECOND_LINE, BEFORE_SECOND, BEFORE_SECOND2, AFTER_SECOND, INLINE))
    MARKSET = dict(docmark=marks[0], predocmark=marks[1], docmark_alt=marks[2], predocmark_alt=marks[3])

    @obligation("C03", f"O1.doc-attachment.{name}", engine="SX(CV)", timeout=3000, tiers=tiers)
    def ob(ctx):
        import ford.reader as rd
        import ford.sourceform as sf

        ctx.encode_fn(rd.FortranReader.__next__)
        ctx.encode_fn(rd._match_docmark)
        ctx.encode_fn(sf.read_docstring)
        ctx.encode_fn(sf.line_to_variables)
        ctx.stubs.append("the reader's input stream is the list of symbolic physical lines (file I/O stubbed)")
        ctx.bounds.update({"markers": " ".join("!" + m for m in marks), "comment lines between the two declarations": 2 + use_second + use_before2})

        def h(E):
            il = CV.choice(E, "inline", INLINE_)
            a1 = CV.choice(E, "a1", AFTER_FIRST_)
            a2 = CV.choice(E, "a2", SECOND_LINE_) if use_second else (None, None, None)
            b1 = CV.choice(E, "b1", BEFORE_SECOND_)
            b2 = CV.choice(E, "b2", BEFORE_SECOND2_) if use_before2 else (None, None, None)
            a3 = CV.choice(E, "a3", AFTER_SECOND_)
            slots = [a1, a2, b1, b2]
            # not covered by the documentation: a `!!` line directly continuing a `!|` block, or directly following a `!*` block line
            E.assume(choice.apply(lambda k1, k2: not (k1 == "altpre" and k2 == "doc"), b1[1], b2[1]))
            # presence of each optional line must be concrete (number of physical lines): decided here
            lines = []
            for s_ in slots:
                t = s_[0]
                pres = choice.apply(lambda x: x is not None, t)
                if pres if isinstance(pres, bool) else bool(pres):
                    lines.append(t)
            at = a3[0]
            pres = choice.apply(lambda x: x is not None, at)
            after_line = at if (pres if isinstance(pres, bool) else bool(pres)) else None
            prog = _program(il[0], lines, after_line)
            h.prog = prog
            E.e.snapshot = lambda m: {"program": choice.value_in_model(m, prog), "marks": MARKSET,
                                      "expected": choice.value_in_model(m, h.want) if getattr(h, "want", None) is not None else None}
            h.want = None
            try:
                f = parserh.parse_source_lines(prog, **MARKSET)
            except ValueError as e:
                E.reachable("error")
                E.require(False, "valid source rejected: " + str(e)[:80])
                return
            got, n = _docs(f)
            E.reachable("parsed")
            want = choice.apply(lambda i, k1, t1, k2, t2, k3, t3, k4, t4, k5, t5:
                                [list(x) for x in assign(i, [(k1, t1), (k2, t2), (k3, t3), (k4, t4)], (k5, t5))],
                                il[1], a1[1], a1[2], a2[1], a2[2], b1[1], b1[2], b2[1], b2[2], a3[1], a3[2])
            h.want = want
            for idx in (0, 1):
                # empty documentation lines (paragraph breaks) carry no words: ignored
                gl = choice.apply(lambda *x: [str(y) for y in x if str(y).strip()], *got[idx]) if got[idx] else []
                E.require(choice.apply(lambda g, w_, idx=idx: list(g) == list(w_[idx]), gl, want),
                          f"documentation attached to the {'first' if idx == 0 else 'second'} entity differs from the documented rules")

        E = sym.Engine(ctx, max_paths=200000, incremental=True)
        found = E.explore(h)
        seen = set()
        for (label, m, pc), snap in zip(found, E.snapshots):
            if label in seen:
                continue
            seen.add(label)
            ctx.report(label, snap, replay_docs)
        if E.reached.get("parsed"):
            ctx.twins += 1
        else:
            ctx.inconclusive.append("vacuity: nothing parsed")
        ctx.sample({"paths": E.paths})

    ob.__doc__ = "comment lines of every documented style between two declarations: each entity gets exactly its documentation lines, once, in order"


_docs_ob("two-lines", False, False)
_docs_ob("three-lines", True, False)
_docs_ob("four-lines", True, True, tiers=("thorough",))
_docs_ob("two-lines.custom-marks", False, False, marks=("^", "<", "~", "#"))


# ---------------------------------------------------------------------------------------
# O4: the admonition pre-processor keeps every word once and in order
# ---------------------------------------------------------------------------------------
import re as _re

ADM_LINES = ["alpha bravo", "@note", "@note charlie", "  @warning delta echo", "@Bug", "@endnote", "foxtrot @endnote golf", "@endbug",
             "@endnote kilo lima", "  @endwarning mike", "@endbug   november",
             "", "    indented hotel", "- list item", "@todo india", "mail foo@bugzilla.org now"]
_START = _re.compile(r"^\s*@(note|warning|todo|bug|history)\b", _re.I)
_END = _re.compile(r"@end(note|warning|todo|bug|history)\b", _re.I)
_GEN = _re.compile(r"^\s*@note (Note|Warning|Todo|Bug|History)\s*$")


def _words_in(lines):
    out = []
    for l in lines:
        l = _END.sub(" ", _START.sub(" ", l))
        out += l.split()
    return out


def _words_out(lines):
    out = []
    for l in lines:
        if _GEN.match(l):
            continue
        out += l.split()
    return out


def _legal(lines):
    """documented errors: end marker without start / of another type -> outside"""
    cur = None
    for l in lines:
        m = _START.match(l)
        if m:
            cur = m.group(1).lower()
        e = _END.search(l)
        if e:
            if cur is None or e.group(1).lower() != cur:
                return False
            cur = None
        if l == "" and cur:
            pass
    return True


def _run_adm(lines):
    from ford.md_admonition import AdmonitionPreprocessor

    p = object.__new__(AdmonitionPreprocessor)
    return p.run(list(lines))


def replay_adm(w):
    try:
        out = _run_adm(w["lines"])
    except Exception as e:  # noqa
        return True, {"lines": w["lines"], "ford": "raised " + repr(e)[:200]}
    a, b = _words_in(w["lines"]), _words_out(out)
    return a != b, {"lines": w["lines"], "output": out, "words_in": a, "words_out": b}


@obligation("C03", "O4.admonition-preprocessor", engine="SX(CV)", timeout=1800)
def admonition(ctx):
    """AdmonitionPreprocessor.run on 3 (thorough: 4) symbolic doc lines: every word of the input appears exactly once and in
    order in the output (markers become the generated `@note Type` headers); errors only for the documented cases"""
    import ford.md_admonition as ma

    ctx.encode_fn(ma.AdmonitionPreprocessor._find_admonitions)
    ctx.encode_fn(ma.AdmonitionPreprocessor._process_admonitions)
    ctx.encode_re("ADMONITION_RE", ma.AdmonitionPreprocessor.ADMONITION_RE)
    ctx.encode_re("END_RE", ma.AdmonitionPreprocessor.END_RE)
    n = 4 if ctx.thorough else 3
    ctx.bounds.update({"lines": n, "line_options": ADM_LINES})
    kf = ctx.known("C03-marker-mid-line", replay_adm)
    opts = [l for l in ADM_LINES if not (kf and "foo@bug" in l)]
    if n == 4:
        opts = opts[:3] + opts[5:7] + opts[8:13]  # 10^4 programs

    def h(E):
        ls = [CV.choice(E, f"l{i}", opts) for i in range(n)]
        E.assume(choice.apply(lambda *x: _legal(x), *ls))
        E.e.snapshot = lambda m: {"lines": [choice.value_in_model(m, x) for x in ls]}
        try:
            out = _run_adm(ls)
        except Exception as e:  # noqa
            E.reachable("raised")
            E.require(False, "pre-processor raised on legal input: " + type(e).__name__)
            return
        E.reachable("ran")
        want = choice.apply(lambda *x: _words_in(x), *ls)
        got = choice.apply(lambda *x: _words_out(x), *out) if out else []
        E.require(choice.apply(lambda g, w_: list(g) == list(w_), got, want), "words of the documentation text dropped, duplicated or reordered")

    from fv import patch
    with patch.patched(ma):
        E = sym.Engine(ctx, max_paths=200000, incremental=True)
        found = E.explore(h)
        seen = set()
        for (label, m, pc), snap in zip(found, E.snapshots):
            if label in seen:
                continue
            seen.add(label)
            ctx.report(label, snap, replay_adm)
        if E.reached.get("ran"):
            ctx.twins += 1
        else:
            ctx.inconclusive.append("vacuity: pre-processor never completed")
    ctx.sample({"paths": E.paths})


# ---------------------------------------------------------------------------------------
# O3: leading metadata lines set the entity's metadata and are not shown; everything else is body, in order
# ---------------------------------------------------------------------------------------
META_LINES = [(" author: Jane Doe", ("author", "Jane Doe")), (" Author: Jane Doe", ("author", "Jane Doe")), (" version: 1.2", ("version", "1.2")),
              (" deprecated: true", ("deprecated", True)), (" graph: false", ("graph", False)), (" display: private", ("display", ["private"])),
              (" summary: short text", ("summary", "short text"))]
BODY_LINES = [" First paragraph words", " note: this is not a key", " http://example.org: a link", " second line", " - item: one",
              "     codeone = codetwo + 1", "      deeper: indented"]  # the last two: an indented code block (4+ blanks after the mark)


def _meta_prog(lines):
    # two entities declared by one statement: the comment documents (and its metadata applies to) each of them
    return ["module m", "integer :: x, y"] + ["!!" + l for l in lines] + ["end module m"]


def _meta_observe(f):
    vs = list(f.modules[0].variables)
    return [(v.meta, list(v.doc_list)) for v in vs]


def replay_meta(w):
    f = parserh.parse_concrete(_meta_prog(w["lines"]))
    obs = _meta_observe(f)
    want_meta = {k: v for k, v in w["expected_meta"]}
    got = [({k: getattr(meta, k) for k, _ in w["expected_meta"]}, body) for meta, body in obs]
    bad = len(obs) != 2 or any(gm != want_meta or [b for b in body if b.strip()] != [b for b in w["expected_body"] if b.strip()] for gm, body in got)
    return bad, {"doc_lines": w["lines"], "ford_meta_and_body_of_x_and_y": got, "expected_meta": want_meta, "expected_body": w["expected_body"]}


@obligation("C03", "O3.metadata-split", engine="SX(CV)", timeout=1800)
def metadata(ctx):
    """doc comment = k leading metadata lines (k = 0..2, symbolic keys/spellings) + body lines (symbolic, some looking like metadata):
    the metadata is set on the entity, the body lines are kept verbatim and in order, nothing is both"""
    import ford.sourceform as sf
    import ford.utils as fu
    import ford.settings as st

    ctx.encode_fn(fu.meta_preprocessor)
    ctx.encode_fn(sf.FortranBase.read_metadata)
    ctx.encode_re("META_RE", fu.META_RE)
    ctx.bounds.update({"metadata_lines": "0..2 of " + str(len(META_LINES)), "body_lines": "1..2 of " + str(len(BODY_LINES))})
    done = 0
    for nmeta in (0, 1, 2):
        for nbody in (1, 2):
            def h(E, nmeta=nmeta, nbody=nbody):
                ms = [CV.choice(E, f"m{i}", META_LINES) for i in range(nmeta)]
                bs = [CV.choice(E, f"b{i}", BODY_LINES) for i in range(nbody)]
                if nmeta == 2:
                    E.assume(choice.apply(lambda a, b: a[0] != b[0], ms[0][1], ms[1][1]))
                if nmeta == 0:
                    # documented: a leading line that LOOKS like `key: value` is taken as metadata (user guide, "Metadata")
                    E.assume(choice.apply(lambda b: _re.match(r"^[ ]{0,3}[A-Za-z0-9_-]+:", b) is None, bs[0]))
                # with metadata present the body is separated by an empty doc line (documented form); without, the first
                # body line must not itself look like `known_key: value`
                lines = [m_[0] for m_ in ms] + ([""] if nmeta else []) + list(bs)
                E.e.snapshot = lambda m: {"lines": [choice.value_in_model(m, x) for x in lines],
                                          "expected_meta": [list(choice.value_in_model(m, x[1])) for x in ms],
                                          "expected_body": [choice.value_in_model(m, x) for x in bs]}
                f = parserh.parse(_meta_prog(lines), post=None) if False else parserh.parse(_meta_prog(lines))
                obs = _meta_observe(f)
                E.reachable("parsed")
                E.require(len(obs) == 2, "the two declared entities are not both reported")
                for meta, body in obs:
                    for m_ in ms:
                        val = choice.apply(lambda kv, mm=meta: getattr(mm, kv[0]), m_[1])
                        E.require(choice.apply(lambda g, kv: g == kv[1], val, m_[1]), "metadata value not set on the entity")
                    bodyn = [b for b in body if not (b == "")]
                    E.require(choice.apply(lambda n: n == nbody, len(bodyn)), "number of body lines differs (metadata shown or body swallowed)")
                    for g, w_ in zip(bodyn, bs):
                        E.require(choice.apply(lambda a, b: a == b, g, w_), "body line changed, reordered or dropped")

            with patch_ctx(st):
                E = sym.Engine(ctx, max_paths=20000, incremental=True)
                found = E.explore(h)
                seen = set()
                for (label, m, pc), snap in zip(found, E.snapshots):
                    if label in seen:
                        continue
                    seen.add(label)
                    ctx.report(label, snap, replay_meta)
                if E.reached.get("parsed"):
                    done += 1
    if done == 6:
        ctx.twins += 1
    else:
        ctx.inconclusive.append(f"vacuity: parsed in {done}/6 shapes only")
    ctx.sample({"meta": [m[0] for m in META_LINES[:4]], "body": BODY_LINES[:3]})


def patch_ctx(*mods):
    from fv import patch
    return patch.patched(*mods)


# ---------------------------------------------------------------------------------------
# O5: rendering keeps entities apart — the Markdown converter is one shared object; what one entity's comment defines (footnotes, link
# references, abbreviations) must not reach the rendered documentation of another
# ---------------------------------------------------------------------------------------
DOC_STYLES = [
    ("plain", ["alfa{n} bravo{n}"]),
    ("footnote", ["charlie{n}[^1] delta{n}", "", "[^1]: foot{n} note{n}"]),
    ("link-reference", ["see [echo{n}][lnk] foxtrot{n}", "", '[lnk]: http://example.org/{n} "title{n}"']),
    ("abbreviation", ["GOLF{n} hotel{n}", "", "*[GOLF{n}]: india{n} juliet{n}"]),
    ("list", ["kilo{n}", "", "- lima{n}", "- mike{n}"]),
    ("code", ["november{n}", "", "    oscar{n} = papa{n}"]),
    ("note", ["@note quebec{n} romeo{n}", "@endnote", "sierra{n}"]),
]
TRACER_OF = {"v1": "1", "v2": "2", "s1": "3"}
TRACER_RE = _re.compile(r"[A-Za-z]+[123]\b")


def _iso_program(styles):
    lines = ["module m"]
    for i, (name, doc) in enumerate(styles, 1):
        lines.append(f"integer :: v{i}")
        lines += ["!! " + l.replace("{n}", str(i)) if l else "!!" for l in doc]
    lines += ["contains", "subroutine s1()"] + ["!! " + l.replace("{n}", "3") if l else "!!" for l in styles[0][1]] + ["end subroutine s1", "end module m"]
    return lines


def _rendered_words(styles):
    """render with the real pipeline (reader, parser, MetaMarkdown, FortranBase.markdown): {entity: tracer words in its rendered doc}"""
    import html as _html
    import ford.sourceform as sf
    from ford._markdown import MetaMarkdown

    old = sf.namelist
    sf.namelist = sf.NameSelector()
    try:
        f = parserh.parse_source_text("\n".join(_iso_program(styles)) + "\n")
        md = MetaMarkdown(project=None)
        ents = list(f.modules[0].variables) + list(f.modules[0].subroutines)
        # the order FORD converts them in: as the project does (markdownable items of the file)
        for item in f.markdownable_items:   # as Project.markdown does
            item.markdown(md)
        out = {}
        for e in ents:
            text = _html.unescape(_re.sub(r"<[^>]*>", " ", str(getattr(e, "doc", "") or "")))
            out[str(e.name)] = sorted(set(w.lower() for w in TRACER_RE.findall(text)))
        return out
    finally:
        sf.namelist = old


def replay_iso(w):
    styles = [DOC_STYLES[i] for i in w["styles"]]
    got = _rendered_words(styles)
    foreign = {k: [x for x in v if not x.endswith(TRACER_OF[k])] for k, v in got.items()}
    foreign = {k: v for k, v in foreign.items() if v}
    own_missing = {k: True for k, v in got.items() if not v}
    return bool(foreign) or bool(own_missing), {"doc styles of v1, v2": [s_[0] for s_ in styles], "words of another entity in the rendered documentation": foreign,
                                                "entities whose own words are missing": sorted(own_missing)}


@obligation("C03", "O5.rendering-keeps-entities-apart", engine="SX(CV)", timeout=900)
def isolation(ctx):
    """two documented variables and a procedure, the style of each variable's comment symbolic (plain, footnote, link reference, abbreviation,
    list, code, note box): after the real Markdown conversion of all entities, the rendered documentation of each holds its own words and
    none of another entity's"""
    import ford.sourceform as sf

    ctx.encode_fn(sf.FortranBase.markdown)
    ctx.bounds.update({"comment styles": [s_[0] for s_ in DOC_STYLES], "entities": 3})
    ctx.stubs.append("python-markdown needs concrete text: one path per pair of styles; everything else is the real pipeline")

    def h(E):
        i1 = CV.choice(E, "style1", list(range(len(DOC_STYLES)))).concretize()
        i2 = CV.choice(E, "style2", list(range(len(DOC_STYLES)))).concretize()
        E.e.snapshot = lambda m: {"styles": [i1, i2]}
        from fv import patch as _p
        with _p.suspended():
            got = _rendered_words([DOC_STYLES[i1], DOC_STYLES[i2]])
        E.reachable("rendered")
        for ent, words in sorted(got.items()):
            E.require(bool(words), f"{ent}: its own documentation words are missing from the rendered documentation")
            E.require(all(x.endswith(TRACER_OF[ent]) for x in words), f"{ent}: words of another entity's comment appear in its rendered documentation")

    E = sym.Engine(ctx, max_paths=500, incremental=True)
    found = E.explore(h)
    seen = set()
    for (label, m, pc), snap in zip(found, E.snapshots):
        key = label.split(":", 1)[1]
        if key in seen or not snap:
            continue
        seen.add(key)
        ctx.report(label, snap, replay_iso)
    if E.reached.get("rendered"):
        ctx.twins += 1
    else:
        ctx.inconclusive.append("vacuity: nothing rendered")
    ctx.sample({"paths": E.paths})


# ---------------------------------------------------------------------------------------
# O6: a documentation line that follows a non-entity statement (USE, IMPLICIT NONE, an executable statement) belongs to the enclosing
# program unit and is kept verbatim, whatever it contains (quotes, apostrophes, call-like text, upper case)
# ---------------------------------------------------------------------------------------
QDOCS = [' plain words only', ' say "hi there" twice', " it's the unit's own text", ' call greet("hello", \'world\') example',
         " Mixed CASE 'Text' stays", ' a "b" c \'d\' e']
NONENT = [("implicit none", "module"), ("use iso_c_binding", "module"), ("IMPLICIT NONE", "module")]


def _q_prog(stmt, doc):
    return ["module m", stmt, choice.apply(lambda d: "  !!" + d, doc) if isinstance(doc, CV) else "  !!" + doc, "integer :: first", "contains",
            "subroutine s()", "x = 1", choice.apply(lambda d: "  !!" + d + " too", doc) if isinstance(doc, CV) else "  !!" + doc + " too",
            "end subroutine s", "end module m"]


def _q_observe(f):
    m = f.modules[0]
    return [str(x) for x in m.doc_list if str(x).strip()], [str(x) for x in m.subroutines[0].doc_list if str(x).strip()], \
        [str(x) for x in m.variables[0].doc_list if str(x).strip()]


def replay_q(w):
    f = parserh.parse_source_text("\n".join(_q_prog(w["stmt"], w["doc"])) + "\n")
    got = _q_observe(f)
    want = ([w["doc"]], [w["doc"] + " too"], [])
    return (got[0], got[1], got[2]) != want, {"program": _q_prog(w["stmt"], w["doc"]), "ford (module, subroutine, variable) docs": got, "expected": want}


@obligation("C03", "O6.docs-after-non-entity-statements", engine="SX(CV)", timeout=900)
def docs_after_statements(ctx):
    """a doc line after USE / IMPLICIT NONE in a module and after an executable statement in a procedure, its text symbolic (quotes,
    apostrophes, call-like text): it documents the enclosing unit, verbatim, and not the following declaration"""
    import ford.sourceform as sf

    ctx.encode_fn(sf.FortranContainer.__init__)
    ctx.bounds.update({"doc texts": len(QDOCS), "statements": len(NONENT)})

    def h(E):
        st = CV.choice(E, "stmt", NONENT)
        d = CV.choice(E, "doc", QDOCS)
        E.e.snapshot = lambda m: {"stmt": choice.value_in_model(m, st)[0], "doc": choice.value_in_model(m, d)}
        f = parserh.parse_source_lines(_q_prog(st[0], d), docmark="!", predocmark=">", docmark_alt="*", predocmark_alt="|")
        md_, sd_, vd_ = _q_observe_cv(f)
        E.reachable("parsed")
        E.require(choice.apply(lambda g, w_: list(g) == [w_], md_, d), "module documentation after a non-entity statement is altered or lost")
        E.require(choice.apply(lambda g, w_: list(g) == [w_ + " too"], sd_, d), "procedure documentation after an executable statement is altered or lost")
        E.require(choice.apply(lambda g: list(g) == [], vd_), "the documentation went to the following declaration")

    E = sym.Engine(ctx, max_paths=5000, incremental=True)
    found = E.explore(h)
    seen = set()
    for (label, m, pc), snap in zip(found, E.snapshots):
        if label in seen or not snap:
            continue
        seen.add(label)
        ctx.report(label, snap, replay_q)
    if E.reached.get("parsed"):
        ctx.twins += 1
    else:
        ctx.inconclusive.append("vacuity: nothing parsed")
    ctx.sample({"paths": E.paths})


def _q_observe_cv(f):
    m = f.modules[0]
    nonblank = lambda lst: choice.apply(lambda *x: [str(y) for y in x if str(y).strip()], *lst) if lst else []
    return nonblank(list(m.doc_list)), nonblank(list(m.subroutines[0].doc_list)), nonblank(list(m.variables[0].doc_list))


# ---------------------------------------------------------------------------------------
# O7: every KIND of entity takes its documentation with every configured set of marks, in the following and in the preceding style
# ---------------------------------------------------------------------------------------
# (statement, tracer word of the comment that documents it, (path of attribute names / entity names) or None when only counted)
K_PROGRAM = [
    ("module kinds_m", "docmod"), ("type shape", "doctype"), ("integer :: side", "doccomp"), ("contains", None),
    ("procedure :: area", "docbound"), ("generic :: g => area", "docgeneric"), ("final :: wipe", "docfinal"), ("end type shape", None),
    ("interface gen", "docinterface"), ("module procedure impl", None), ("end interface gen", None),
    ("abstract interface", None), ("subroutine cb(x)", "doccb"), ("integer :: x", "doccbarg"), ("end subroutine cb", None), ("end interface", None),
    ("integer :: v", "docvar"), ("namelist /nl/ v", "docnl"), ("contains", None),
    ("subroutine impl(a)", "docimpl"), ("integer :: a", "docimplarg"), ("end subroutine impl", None),
    ("function area(self)", "docarea"), ("class(shape) :: self", "docself"), ("real :: area", None), ("end function area", None),
    ("subroutine wipe(self)", "docwipe"), ("type(shape) :: self", None), ("end subroutine wipe", None),
    ("end module kinds_m", None),
]
K_MARKS = [("!", ">", "*", "|"), (">", "<", "*", "|"), ("#", "$", "@", "%"), ("!", ">", "~", "^")]
K_STYLES = ["following", "preceding", "following-alt-block", "inline"]
# where the tracer word must land: entity (found by walking the tree) -> tracer
K_NAMED = {("FortranModule", "kinds_m"): "docmod", ("FortranType", "shape"): "doctype", ("FortranVariable", "side"): "doccomp",
           ("FortranBoundProcedure", "area"): "docbound", ("FortranBoundProcedure", "g"): "docgeneric", ("FortranFinalProc", "wipe"): "docfinal",
           ("FortranVariable", "v"): "docvar", ("FortranSubroutine", "impl"): "docimpl", ("FortranVariable", "a"): "docimplarg",
           ("FortranFunction", "area"): "docarea", ("FortranSubroutine", "wipe"): "docwipe", ("FortranNamelist", "nl"): "docnl"}


def _k_text(marks, style):
    d, p, a, q = marks
    out = []
    for stmt, word in K_PROGRAM:
        if word is None:
            out.append(stmt)
        elif style == "following":
            out += [stmt, f"  !{d} {word}"]
        elif style == "preceding":
            out += [f"  !{p} {word}", stmt]
        elif style == "following-alt-block":
            out += [stmt, f"  !{a} {word}", "  ! (end of the block)" if False else "", ]
        else:
            out.append(f"{stmt} !{d} {word}")
    return "\n".join(out) + "\n"


def _k_walk(e, out, seen):
    if any(e is s_ for s_ in seen):
        return
    seen.append(e)
    dl = getattr(e, "doc_list", None)
    if dl is not None and hasattr(e, "name"):
        out.append(((type(e).__name__, str(e.name).lower()), [str(x).strip() for x in dl if str(x).strip()]))
    for l in ("modules", "types", "variables", "boundprocs", "finalprocs", "interfaces", "absinterfaces", "subroutines", "functions", "args",
              "namelists", "modprocs"):
        for x in getattr(e, l, None) or []:
            if hasattr(x, "doc_list"):
                _k_walk(x, out, seen)
    for attr in ("procedure", "retvar"):
        x = getattr(e, attr, None)
        if x is not None and hasattr(x, "doc_list"):
            _k_walk(x, out, seen)


def _k_observe(marks, style):
    f = parserh.parse_source_text(_k_text(marks, style), docmark=marks[0], predocmark=marks[1], docmark_alt=marks[2], predocmark_alt=marks[3])
    out = []
    _k_walk(f, out, [])
    return out


def _k_bad(obs):
    bad = []
    words = [w for _, w in K_PROGRAM if w]
    where = {w: [k for k, docs in obs if w in " ".join(docs).split()] for w in words}
    for w, ks in where.items():
        if len(ks) != 1:
            bad.append(f"comment '{w}' is attached to {len(ks)} entities: {ks}")
    docs_of = {k: docs for k, docs in obs}
    for k, w in K_NAMED.items():
        if docs_of.get(k) != [w]:
            bad.append(f"{k[0]} {k[1]}: documentation is {docs_of.get(k)}, its comment says ['{w}']")
    return bad


def replay_kinds(w):
    try:
        obs = _k_observe(tuple(w["marks"]), w["style"])
    except Exception as e:  # noqa
        return True, {"marks": w["marks"], "style": w["style"], "ford": "raised " + repr(e)[:200]}
    bad = _k_bad(obs)
    return bool(bad), {"marks (docmark, predocmark, docmark_alt, predocmark_alt)": w["marks"], "style": w["style"], "wrong": bad[:8],
                       "source": _k_text(tuple(w["marks"]), w["style"]).splitlines()[:14]}


@obligation("C03", "O7.every-entity-kind-with-every-mark-set", engine="SX(CV)", timeout=600)
def kinds_marks(ctx):
    """a module holding one entity of every documentable kind (type, component, bindings, generic binding, final procedure, interfaces, abstract
    interface and its argument, variable, namelist, procedures, arguments), each with its own one-word comment, under a symbolic set of
    documentation marks and a symbolic comment style: every comment is attached to exactly one entity, the one it stands with"""
    import ford.sourceform as sf
    import ford.reader as rd

    ctx.encode_fn(sf.read_docstring)
    ctx.encode_fn(rd.FortranReader.__next__)
    ctx.encode_text("read_docstring call sites", "\n".join(l for l in __import__("inspect").getsource(sf).splitlines() if "read_docstring(" in l), "python-source")
    ctx.bounds.update({"mark sets": K_MARKS, "styles": K_STYLES, "entity kinds": len(K_NAMED)})
    ctx.stubs.append("the reader needs concrete text: one native run per (mark set, style)")

    def h(E):
        mi = CV.choice(E, "marks", list(range(len(K_MARKS)))).concretize()
        st = CV.choice(E, "style", K_STYLES).concretize()
        snap = {"marks": list(K_MARKS[mi]), "style": st}
        E.e.snapshot = lambda m: dict(snap)
        from fv import patch as _p
        with _p.suspended():
            bad, detail = replay_kinds(snap)
        E.reachable("parsed")
        E.require(not bad, "a documentation comment is not attached to (only) the entity it stands with: " + "; ".join(detail.get("wrong", []))[:160])

    E = sym.Engine(ctx, max_paths=200, incremental=True)
    found = E.explore(h)
    seen = set()
    for (label, m, pc), snap in zip(found, E.snapshots):
        if not snap or (str(snap["marks"]), snap["style"]) in seen:
            continue
        seen.add((str(snap["marks"]), snap["style"]))
        ctx.report(label, snap, replay_kinds)
    if E.reached.get("parsed"):
        ctx.twins += 1
    else:
        ctx.inconclusive.append("vacuity: nothing parsed")
    ctx.sample({"paths": E.paths})
