"""C19 — a run touches nothing outside its output directory (write-out kernel on a stubbed file system)."""
import z3

from fv import sym, choice, patch, vfs, standins as S
from fv.choice import CV
from fv.core import obligation
from fv.props import META
from fv.vfs import VPath, DIR

META["C19"] = {
    "explanation": "Write-out half of C19 with the file system as the stubbed environment (fv/vfs.py: an in-memory tree behind "
    "pathlib.Path and shutil of ford.output; every mutating call is logged; the k-th one raises OSError where k is a "
    "SYMBOLIC integer, i.e. the crash point is a solver variable).  The REAL Documentation.writeout, BasePage.writeout, "
    "PagetreePage.writeout and copytree run on real page objects (stand-in entities, rendering stubbed) for a symbolic "
    "option profile (media_dir, css, mathjax_config, incl_src, search, static pages with copy_subdir lists that name "
    "missing directories) and a symbolic earlier state of the output directory (absent, a file, a directory holding stale "
    "pages and directories).  For every combination and every crash point: every created / modified / deleted path lies "
    "inside the output directory, and the files outside are byte-identical afterwards.  Without a fault the resulting "
    "tree does not depend on the earlier state (C12) and holds the copies C17 asks for.  Second obligation: the refusal "
    "check of parse_arguments on symbolic placements of output_dir relative to the source directories (sibling, nested, "
    "`..`, `.`, via a symbolic link, equal, parent).",
    "outside": ["the real OS (permissions, races, symlink loops), graphviz output (graph_dir), externalize (modules.json), the search "
                "index writer, faults INSIDE a copytree / rmtree (they are one operation here)",
                "page_dir / media_dir placed inside the output directory (excluded by the property's proviso)"],
    "assumptions": ["fv/vfs.py models unlink / rmtree / mkdir / write_bytes / copy / copytree / touch / rglob as pathlib and shutil document them"],
}

OUT = "/proj/doc"
PROFILES = [
    ("minimal", {}),
    ("everything", {"media_dir": "/proj/media", "css": "/proj/user.css", "mathjax_config": "/proj/conf/mj.js", "incl_src": True, "search": True, "pages": True}),
    ("media+src", {"media_dir": "/proj/media", "incl_src": True}),
    ("missing-media+pages", {"media_dir": "/proj/nomedia", "pages": True}),
    ("css+mathjax", {"css": "/proj/user.css", "mathjax_config": "/proj/conf/mj.js"}),
    ("pages+absolute copy_subdir", {"pages": True, "abs_copy": True}),
    # graph_dir: the one other directory a run may write to
    ("saved graphs", {"graph_dir": "/proj/graphs"}),
    ("saved graphs inside the output directory", {"graph_dir": OUT + "/graphs", "incl_src": True}),
]
STALE = [
    ("absent", {}),
    ("is a file", {OUT: b"i am a file"}),
    ("stale pages", {OUT + "/proc/legacy.html": b"old", OUT + "/index.html": b"old index", OUT + "/lists/old.html": b"x"}),
    ("stale directories", {OUT + "/extra/deep/file.txt": b"x", OUT + "/page/old/pic.png": b"p", OUT + "/css/old.css": b"c", OUT + "/media/old.png": b"m"}),
]
BASE = {
    "/pkg/css/ford.css": b"css", "/pkg/js/ford.js": b"js", "/pkg/webfonts/f.woff": b"w", "/pkg/search/tipue.js": b"t", "/pkg/favicon.png": b"ico",
    "/proj/src/a.f90": b"module a\nend module a\n", "/proj/src/sub/b.f90": b"program b\nend program b\n",
    "/proj/src/scripts/build.sh": b"#!/bin/sh\n", "/proj/src/other/a.f90": b"module a2\nend module a2\n",
    "/proj/media/logo.png": b"logo", "/proj/media/deep/fig.png": b"fig", "/proj/user.css": b"user", "/proj/conf/mj.js": b"mj",
    "/proj/pages/index.md": b"title: T", "/proj/pages/images/pic.txt": b"pic", "/proj/pages/data/nested/table.csv": b"1,2",
    "/proj/pages/notes.txt": b"notes", "/proj/pages/guide/index.md": b"title: G", "/proj/pages/guide/fig.png": b"fig",
    "/proj/proj.md": b"project file", "/home/user/precious.txt": b"do not touch", "/cwd/keep.txt": b"working directory",
    # a symbolic link in the media directory whose target does not exist (yet), in a directory that does
    "/proj/media/thumb.png": vfs.Link("/home/user/cache/thumb.png"), "/home/user/cache/.keep": b"",
}


SOURCES = {"files": ["/proj/src/a.f90", "/proj/src/sub/b.f90"], "extra_files": ["/proj/src/scripts/build.sh"]}


_EXTRA = {}


def _real_extra_sources():
    """two non-Fortran sources whose names differ only in letter case, as REAL GenericSource objects (their constructor derives the
    name under which the file is copied and linked); their bytes are mirrored into the in-memory file system"""
    import atexit, os, shutil, tempfile
    import ford.sourceform as sf
    from ford.settings import ProjectSettings, ExtraFileType
    if "objs" not in _EXTRA:
        d = tempfile.mkdtemp(prefix="fvc19-")
        atexit.register(shutil.rmtree, d, True)
        files = {"linux/Defs.h": "// linux definitions\n#define A 1\n", "win/defs.h": "// windows definitions\n#define A 2\n"}
        for rel, text in files.items():
            os.makedirs(os.path.dirname(os.path.join(d, rel)), exist_ok=True)
            with open(os.path.join(d, rel), "w") as f:
                f.write(text)
        st = ProjectSettings(extra_filetypes={"h": ExtraFileType("h", "//")}, preprocess=False)
        _EXTRA["objs"] = [sf.GenericSource(os.path.join(d, rel), st) for rel in files]
        _EXTRA["bytes"] = {os.path.join(d, rel): text.encode() for rel, text in files.items()}
    vfs.fs().nodes.update(_EXTRA["bytes"])
    return list(_EXTRA["objs"])


def _documentation(out, profile, warnings):
    """a Documentation object as Documentation.__init__ leaves it, with real page objects on stand-in entities"""
    opts = dict(profile)
    data = {"output_dir": VPath(OUT), "graph": bool(opts.get("graph_dir")), "search": bool(opts.get("search")), "incl_src": bool(opts.get("incl_src")),
            "favicon": VPath("/pkg/favicon.png"), "relative": False, "page_dir": VPath("/proj/pages")}
    for k in ("media_dir", "css", "mathjax_config"):
        if k in opts:
            data[k] = VPath(opts[k])

    def page(cls, **attrs):
        p = object.__new__(cls)
        p.data, p.out_dir, p.page_dir = data, data["output_dir"], data["output_dir"] / "page"
        for k, v in attrs.items():
            setattr(p, k, v)
        return p

    ent = lambda ident, d: S.Rec(ident=ident, get_dir=(lambda d=d: d), obj=d, name=ident)
    docs = [page(out.ProcedurePage, obj=ent("foo", "proc")), page(out.ProcedurePage, obj=ent("foo~2", "proc")),
            page(out.ModulePage, obj=ent("a", "module")), page(out.TypePage, obj=ent("t", "type")), page(out.ProgPage, obj=ent("b", "program")),
            page(out.GenericInterfacePage, obj=ent("operator(+)", "interface")), page(out.FilePage, obj=ent("a.f90", "sourcefile")),
            page(out.NamelistPage, obj=ent("nl", "namelist")), page(out.BlockPage, obj=ent("bd", "blockdata"))]
    lists = [page(out.ProcList), page(out.ModList), page(out.TypeList)]
    tree = []
    if opts.get("pages"):
        node = lambda path, loc, stem, copy, files: S.Rec(path=VPath(path), location=VPath(loc), filename=VPath(stem), copy_subdir=copy, files=files)
        # project-level copy_subdir entries are normalised to absolute paths below the project directory (ProjectSettings.normalise_paths)
        extra_copy = ["/proj/pages/images"] if opts.get("abs_copy") else []
        tree = [page(out.PagetreePage, obj=node("index.html", ".", "index", ["generated", "images", "data"] + extra_copy, ["notes.txt", "gone.txt"])),
                page(out.PagetreePage, obj=node("guide/index.html", "guide", "index", [], ["fig.png"]))]
    d = object.__new__(out.Documentation)
    d.data = data
    import ford.fortran_project as fp
    proj = object.__new__(fp.Project)  # the real `allfiles` property (Fortran files, then the extra file types)
    proj.files = [S.Rec(path=VPath(p_), name=p_.rsplit("/", 1)[1]) for p_ in SOURCES["files"]]
    proj.extra_files = [S.Rec(path=VPath(p_), name=p_.rsplit("/", 1)[1]) for p_ in SOURCES["extra_files"]] + _real_extra_sources()
    d.project = proj
    d.docs, d.lists, d.pagetree = docs, lists, tree
    d.index, d.search = page(out.IndexPage), page(out.SearchPage)
    d.njobs = 0
    d.graphs = S.Rec(output_graphs=lambda n: None)
    if opts.get("graph_dir"):
        d.graphs = _graph_manager(opts["graph_dir"])
    d.tipue = S.Rec(print_output=lambda: None)
    return d


class _Dot:
    """graphviz's Digraph: render(<path>) writes the dot source to <path> and the picture to <path>.svg"""

    def render(self, filename, cleanup=False, **kw):
        vfs.fs().write(filename, b"digraph {}")
        vfs.fs().write(str(filename) + ".svg", b"<svg/>")
        return str(filename) + ".svg"


def _graph_manager(graph_dir):
    """the real GraphManager.output_graphs / FortranGraph.create_svg / _create_image_file on stand-in graphs with two nodes each"""
    import ford.graphs as gr

    def graph(cls, ident):
        g = object.__new__(cls)
        g.root, g.added, g.imgfile, g.dot, g.ident = [1], {1, 2}, ident, _Dot(), ident
        return g

    gm = object.__new__(gr.GraphManager)
    gm.save_graphs, gm.graphdir = True, VPath(graph_dir)
    mod = S.Rec(usesgraph=graph(gr.UsesGraph, "module~~a~~UsesGraph"), usedbygraph=graph(gr.UsedByGraph, "module~~a~~UsedByGraph"))
    typ = S.Rec(inhergraph=graph(gr.InheritsGraph, "type~~t~~InheritsGraph"), inherbygraph=graph(gr.InheritedByGraph, "type~~t~~InheritedByGraph"))
    prc = S.Rec(callsgraph=graph(gr.CallsGraph, "proc~~foo~~CallsGraph"), calledbygraph=graph(gr.CalledByGraph, "proc~~foo~~CalledByGraph"))
    prg = S.Rec(callsgraph=graph(gr.CallsGraph, "program~~b~~CallsGraph"), usesgraph=graph(gr.UsesGraph, "program~~b~~UsesGraph"))
    fil = S.Rec(afferentgraph=graph(gr.AfferentGraph, "sourcefile~~a.f90~~AfferentGraph"), efferentgraph=graph(gr.EfferentGraph, "sourcefile~~a.f90~~EfferentGraph"))
    gm.modules, gm.types, gm.procedures, gm.programs, gm.sourcefiles, gm.blockdata = [mod], [typ], [prc], [prg], [fil], []
    gm.usegraph = gm.typegraph = gm.callgraph = gm.filegraph = None   # the project-wide graphs: empty in this stand-in project
    return gm


def _allowed(p, profile):
    """inside the output directory or the configured graph directory"""
    g = dict(profile).get("graph_dir")
    return vfs.inside(p, OUT) or (g is not None and vfs.inside(p, g))


def _run_writeout(profile, stale, fail_at):
    import ford.output as out
    import ford.graphs as gr

    nodes = dict(BASE)
    nodes.update(stale)
    fsys = vfs.MemFS(nodes)
    fsys.fail_at = fail_at
    vfs._CUR[0] = fsys
    _real_extra_sources()   # mirrors the two real extra source files into the tree before the snapshot is taken
    before = {k: v for k, v in fsys.nodes.items() if not _allowed(k, profile)}
    warnings = []
    extra = {(gr, "pathlib"): vfs.PathlibProxy, (gr, "graphviz_installed"): True,
             (out, "shutil"): vfs.ShutilProxy, (out, "pathlib"): vfs.PathlibProxy, (out, "loc"): VPath("/pkg"),
             (out, "warn"): (lambda m, *a, **k: warnings.append(str(m))), (out, "print"): (lambda *a, **k: None),
             (out, "ProgressBar"): (lambda label, items, *a, **k: _Bar(items)),
             (out.BasePage, "html"): property(lambda self: "<html>%s</html>" % type(self).__name__)}
    raised = None
    with patch.patched(extra=extra):
        d = _documentation(out, profile, warnings)
        try:
            d.writeout()
        except OSError as e:
            raised = e
    after = {k: v for k, v in fsys.nodes.items() if not _allowed(k, profile)}
    return fsys, before, after, raised, warnings


class _Bar:
    def __init__(self, items):
        self.items = list(items)

    def __iter__(self):
        return iter(self.items)

    def set_current(self, *a, **k):
        pass


def replay_confinement(w):
    prof = dict(PROFILES)[w["profile"]]
    stale = dict(STALE)[w["stale"]]
    fsys, before, after, raised, warnings = _run_writeout(prof, stale, w.get("fail_at"))
    outside = [(op, p) for op, p in fsys.log if not _allowed(p, prof)]
    changed = sorted(set(k for k in set(before) | set(after) if before.get(k) != after.get(k)))
    bad = bool(outside) or bool(changed)
    detail = {"profile": w["profile"], "earlier state of the output directory": w["stale"], "fault at operation": w.get("fail_at"),
              "operations outside the output directory": outside[:6], "paths outside that changed": changed[:6],
              "run raised": repr(raised) if raised else None}
    if w.get("compare_fresh"):
        fresh, _, _, r2, _ = _run_writeout(prof, {}, None)
        t1, t2 = fsys.tree(OUT), fresh.tree(OUT)
        diff = sorted(k for k in set(t1) | set(t2) if t1.get(k) != t2.get(k))
        detail["output differs from a run into an absent directory"] = diff[:8]
        bad = bad or bool(diff) or (raised is not None)
    if w.get("expect_source"):
        t1 = fsys.tree(OUT)
        src = w["expect_source"]
        got = t1.get("/src/" + src.rsplit("/", 1)[1])
        want_bytes = BASE.get(src, _EXTRA.get("bytes", {}).get(src))
        detail["source file"] = src
        detail["served at src/<name>"] = None if got is None else ("the file" if got == want_bytes else "different bytes")
        bad = bad or got != want_bytes
    if w.get("expect_copies"):
        t1 = fsys.tree(OUT)
        missing = [c for c in w["expect_copies"] if c not in t1]
        detail["copies missing next to their pages"] = missing
        bad = bad or bool(missing)
    return bad, detail


COPIES = ["/page/images/pic.txt", "/page/data/nested/table.csv", "/page/notes.txt", "/page/guide/fig.png"]


def writeout_obligation(ctx, what):
    """shared harness; `what` selects the assertions: 'confinement' (C19), 'stale' (C12), 'copies' (C17)"""
    import ford.output as out

    ctx.encode_fn(out.Documentation.writeout)
    ctx.encode_fn(out.BasePage.writeout)
    ctx.encode_fn(out.PagetreePage.writeout)
    ctx.encode_fn(out.copytree)
    ctx.stubs.append("pathlib.Path, shutil, loc, ProgressBar, warn, print of ford.output replaced (fv/vfs.py); page rendering replaced by a constant; "
                     "graph and search-index writers are no-ops")
    nops = 70 if what == "confinement" else 0
    profiles = [i for i, p in enumerate(PROFILES) if (what != "copies" or p[1].get("pages")) and (what != "sources" or p[1].get("incl_src"))]
    ctx.bounds.update({"option profiles": [PROFILES[i][0] for i in profiles], "earlier states": [s[0] for s in STALE],
                       "crash point": f"symbolic k in 0..{nops} (0 = no fault)" if nops else "no fault injected"})

    def h(E):
        pi = CV.choice(E, "profile", profiles).concretize()
        si = CV.choice(E, "stale", list(range(len(STALE)))).concretize()
        k = E.integer("fail_at", lo=0, hi=nops) if nops else None
        pname, prof = PROFILES[pi]
        sname, stale = STALE[si]
        snap = {"profile": pname, "stale": sname}
        E.e.snapshot = lambda m: dict(snap, fail_at=(E.model_value(m, k) or None) if k is not None else None)
        fsys, before, after, raised, warnings = _run_writeout(prof, stale, k)
        E.reachable("ran")
        if raised is not None:
            E.reachable("faulted")
        if what == "confinement":
            for op, p in fsys.log:
                E.require(sym.mk_bool(z3.BoolVal(_allowed(p, prof))), f"{op} outside the output directory (and graph directory)")
            if prof.get("graph_dir") and raised is None and not fsys.failed:
                saved = [k for k in fsys.nodes if vfs.inside(k, prof["graph_dir"]) and k.endswith(".gv")]
                E.require(sym.mk_bool(z3.BoolVal(len(saved) == 10)), "the saved graph sources are not in the graph directory")
            E.require(sym.mk_bool(z3.BoolVal(before == after)), "a file outside the output directory was created, modified or deleted")
        if raised is None and not fsys.failed:
            E.reachable("completed")
            if what == "stale":
                fresh, _, _, r2, _ = _run_writeout(prof, {}, None)
                E.e.snapshot = lambda m: dict(snap, fail_at=None, compare_fresh=True)
                E.require(sym.mk_bool(z3.BoolVal(r2 is None and fsys.tree(OUT) == fresh.tree(OUT))),
                          "the written tree depends on what an earlier run left in the output directory")
            if what == "copies":
                t1 = fsys.tree(OUT)
                E.e.snapshot = lambda m: dict(snap, fail_at=None, expect_copies=COPIES)
                E.require(sym.mk_bool(z3.BoolVal(all(c in t1 for c in COPIES))),
                          "files / copy_subdir directories of a static page are not copied next to it (a missing entry must not stop the others)")
                said = [w_ for w_ in warnings if "generated" in w_ or "gone.txt" in w_]
                E.require(sym.mk_bool(z3.BoolVal(len(said) >= 2)), "a copy_subdir directory / file that does not exist is not reported")
            if what == "sources":
                t1 = fsys.tree(OUT)
                allsrc = {src: BASE[src] for grp in ("files", "extra_files") for src in SOURCES[grp]}
                allsrc.update(_EXTRA.get("bytes", {}))
                for src, data in sorted(allsrc.items()):
                    E.e.snapshot = lambda m, src=src: dict(snap, fail_at=None, expect_source=src)
                    E.require(sym.mk_bool(z3.BoolVal(t1.get("/src/" + src.rsplit("/", 1)[1]) == data)),
                              "the 'Source File' link of a source file does not serve that file")
        elif what != "confinement":
            E.require(False, "write-out fails although no fault was injected: " + repr(raised)[:80])

    E = sym.Engine(ctx, max_paths=20000, incremental=True)
    found = E.explore(h)
    seen = set()
    for (label, m, pc), snap in zip(found, E.snapshots):
        if label in seen or not snap:
            continue
        seen.add(label)
        ctx.report(label, snap, replay_confinement)
    for lab in (("ran", "faulted", "completed") if what == "confinement" else ("ran", "completed")):
        if E.reached.get(lab):
            ctx.twins += 1
        else:
            ctx.inconclusive.append(f"vacuity: '{lab}' never reached")
    ctx.sample({"paths": E.paths})


@obligation("C19", "O1.writeout-confinement", engine="SX+file-system stub (symbolic crash point)", timeout=1800)
def writeout_confinement(ctx):
    """Documentation.writeout for every option profile x earlier state of the output directory x crash point k (symbolic): all
    mutating operations lie inside the output directory and everything outside is unchanged"""
    writeout_obligation(ctx, "confinement")


# ---------------------------------------------------------------------------------------
# O2: the refusal check — a source directory inside (or equal to) the output directory stops the run before anything is deleted
# ---------------------------------------------------------------------------------------
SRC_SPELL = ["./src", "src/lib", "./code/../src", "/proj/src", "/proj/code/../src"]
OUT_SPELL = ["./doc", "doc/../out", "./src", "src/..", ".", "..", "./src/doc", "/proj/src", "link", "link/sub", "/", "src/lib", "src/lib/..", "SRC",
             # absolute paths are normalised like relative ones
             "/proj/doc/../src", "/proj/link", "/proj/src/lib/../..", "/proj/doc/../out"]
LINKS19 = {"/proj/link": "/proj/src"}


def _real(path):
    """reference resolution (lexical `.`/`..`, then the symbolic-link table) of a path relative to /proj"""
    import posixpath
    p = path if path.startswith("/") else "/proj/" + path
    parts = []
    for x in p.split("/"):
        if x in ("", "."):
            continue
        if x == "..":
            if parts:
                parts.pop()
            continue
        parts.append(x)
        cur = "/" + "/".join(parts)
        if cur in LINKS19:
            parts = [y for y in LINKS19[cur].split("/") if y]
    return "/" + "/".join(parts)


def must_refuse(src, outd):
    s_, o_ = _real(src), _real(outd)
    return s_ == o_ or s_.startswith(o_.rstrip("/") + "/")


def _run_parse_arguments(src, outd):
    import ford
    import ford.settings as st
    import ford.utils as fu

    fsys = vfs.MemFS({"/proj/src/lib/x.f90": b"x", "/proj/code/y": b"y", "/proj/doc/old.html": b"old", "/proj/proj.md": b"p"}, symlinks=LINKS19)
    fsys.CWD = "/proj"
    vfs._CUR[0] = fsys
    import pathlib
    # the dataclass annotations hold the real pathlib.Path: keep the class and stub only the call that asks the OS
    extra = {(pathlib.Path, "resolve"): (lambda self, strict=False: pathlib.Path(_real(str(self))))}
    with patch.patched(extra=extra):
        data = st.ProjectSettings(src_dir=[src], output_dir=outd, preprocess=False)
        try:
            ford.parse_arguments({}, "", data, pathlib.Path("/proj"))
        except ValueError as e:
            return "refused", str(e), fsys
    return "accepted", (str(data.output_dir), [str(x) for x in data.src_dir]), fsys


def replay_refusal(w):
    got, detail, fsys = _run_parse_arguments(w["src_dir"], w["output_dir"])
    want = "refused" if must_refuse(w["src_dir"], w["output_dir"]) else "accepted"
    return got != want or bool(fsys.log), {"src_dir": w["src_dir"], "output_dir": w["output_dir"], "resolved": [_real(w["src_dir"]), _real(w["output_dir"])],
                                           "ford": got, "required": want, "file-system operations before the decision": fsys.log[:3], "detail": str(detail)[:200]}


@obligation("C19", "O2.refusal-check", engine="SX(CV)+file-system stub", timeout=900)
def refusal(ctx):
    """parse_arguments on symbolic placements: the run is refused exactly when a source directory is the output directory or lies
    inside it (after resolving `.`, `..` and symbolic links), and nothing on disk is touched before that decision"""
    import ford
    import ford.settings as st
    import ford.utils as fu

    ctx.encode_fn(ford.parse_arguments)
    ctx.encode_fn(st.ProjectSettings.normalise_paths)
    ctx.encode_fn(fu.normalise_path)
    ctx.stubs.append("pathlib.Path.resolve answers from the model: lexical collapse of . and .. plus the symlink table /proj/link -> /proj/src")
    ctx.bounds.update({"src_dir spellings": SRC_SPELL, "output_dir spellings": OUT_SPELL})

    def h(E):
        s_ = CV.choice(E, "src", SRC_SPELL).concretize()
        o_ = CV.choice(E, "out", OUT_SPELL).concretize()
        E.e.snapshot = lambda m: {"src_dir": s_, "output_dir": o_}
        got, detail, fsys = _run_parse_arguments(s_, o_)
        E.reachable(got)
        want = "refused" if must_refuse(s_, o_) else "accepted"
        E.require(sym.mk_bool(z3.BoolVal(got == want)), "a source directory inside the output directory is accepted" if want == "refused"
                  else "a harmless placement of the output directory is refused")
        E.require(sym.mk_bool(z3.BoolVal(not fsys.log)), "the file system is modified before the placement has been checked")
        if got == "refused":
            E.require(sym.mk_bool(z3.BoolVal("output directory" in str(detail) or "subdirectory" in str(detail))), "the refusal does not say why")

    E = sym.Engine(ctx, max_paths=2000, incremental=True)
    found = E.explore(h)
    seen = set()
    for (label, m, pc), snap in zip(found, E.snapshots):
        if label in seen or not snap:
            continue
        seen.add(label)
        ctx.report(label, snap, replay_refusal)
    for lab in ("refused", "accepted"):
        if E.reached.get(lab):
            ctx.twins += 1
        else:
            ctx.inconclusive.append(f"vacuity: '{lab}' never reached")
    ctx.sample({"paths": E.paths})



# ---------------------------------------------------------------------------------------
# O3: the static page tree never places a page outside <output>/page, also when a sub-directory of page_dir is a symbolic link
# ---------------------------------------------------------------------------------------
LINK_TARGETS = ["shared_pages", "proj/shared_pages", "top2/more/pages", "top/real_sub"]


def _linked_entries(target):
    from fv.props import c17
    page = lambda t: c17.TITLED.format(t=t)
    e = {"top": c17.DIR, "top/index.md": page("Top"), "top/a.md": page("A"), "top/linked": c17.DIR, "top/linked/index.md": page("Linked"),
         "top/linked/x.md": page("X"), "top/linked/logo.txt": "logo"}
    # the same files under the link's target (the directory the link points at)
    cur = ""
    for part in target.split("/"):
        cur = (cur + "/" + part) if cur else part
        e.setdefault(cur, c17.DIR)
    e.update({target + "/index.md": page("Linked"), target + "/x.md": page("X"), target + "/logo.txt": "logo"})
    return e


def replay_linked_pages(w):
    """natively: a real directory tree with a real symbolic link, the real get_page_tree (python-markdown stubbed)"""
    import os
    import pathlib
    import posixpath
    import shutil
    import tempfile
    import ford.pagetree as pt
    from fv.props import c17
    d = tempfile.mkdtemp(prefix="fvc19-")
    try:
        page = lambda t: c17.TITLED.format(t=t)
        files = {"top/index.md": page("Top"), "top/a.md": page("A"), w["target"] + "/index.md": page("Linked"), w["target"] + "/x.md": page("X"),
                 w["target"] + "/logo.txt": "logo"}
        for rel, text in files.items():
            p_ = os.path.join(d, rel)
            os.makedirs(os.path.dirname(p_), exist_ok=True)
            with open(p_, "w") as f:
                f.write(text)
        if w["target"] != "top/linked":
            os.symlink(os.path.join(d, w["target"]), os.path.join(d, "top", "linked"))
        old = pt.warn
        pt.warn = lambda *a, **k: None
        try:
            node = pt.get_page_tree(pathlib.Path(d) / "top", [], pathlib.Path(d) / "out", c17._MD())
        finally:
            pt.warn = old
        paths = [str(n.path) for n in node]
    except Exception as e:  # noqa
        return True, {"link target": w["target"], "ford": "raised " + repr(e)[:200]}
    finally:
        shutil.rmtree(d, ignore_errors=True)
    escaping = [p_ for p_ in paths if posixpath.normpath(p_).startswith("..") or posixpath.isabs(p_)]
    want = ["a.html", "index.html", "linked/index.html", "linked/x.html"]
    return bool(escaping) or sorted(paths) != want, {"page_dir/linked is a symbolic link to": w["target"], "pages (relative to <output>/page)": sorted(paths),
                                                     "pages placed outside <output>/page": escaping, "expected": want}


@obligation("C19", "O3.page-tree-stays-inside-the-output-directory", engine="SX(CV)+virtual file system", timeout=600)
def linked_pages(ctx):
    """get_page_tree on a page directory one of whose sub-directories is a symbolic link (symbolic target: beside page_dir, two levels up,
    elsewhere): every page keeps its place below <output>/page (the link's name, not its target, decides)"""
    import posixpath
    import ford.pagetree as pt
    from fv.props import c17

    ctx.encode_fn(pt.get_page_tree)
    ctx.encode_fn(pt.PageNode.__init__)
    ctx.bounds.update({"link targets": LINK_TARGETS})
    ctx.stubs.append("as C17 O1: in-memory page directory with a symbolic-link table; MetaMarkdown.convert stubbed")

    def h(E):
        tg = CV.choice(E, "target", LINK_TARGETS).concretize()
        E.e.snapshot = lambda m: {"target": tg}
        if tg == "top/real_sub":
            E.assume(False)
            return
        entries = _linked_entries(tg)
        c17.LINKS.clear()
        c17.LINKS["top/linked"] = tg
        try:
            got = c17._run(entries, [])
        finally:
            c17.LINKS.clear()
        E.reachable("built")
        paths = [g[0] for g in got] if got else []
        E.require(sorted(paths) == ["a.html", "index.html", "linked/index.html", "linked/x.html"] and
                  not any(posixpath.normpath(p_).startswith("..") for p_ in paths),
                  "a page of a symbolically linked sub-directory is placed outside <output>/page (or lost)")

    E = sym.Engine(ctx, max_paths=100, incremental=True)
    found = E.explore(h)
    seen = set()
    for (label, m, pc), snap in zip(found, E.snapshots):
        if not snap or snap["target"] in seen:
            continue
        seen.add(snap["target"])
        ctx.report(label, snap, replay_linked_pages)
    if E.reached.get("built"):
        ctx.twins += 1
    else:
        ctx.inconclusive.append("vacuity: page tree never built")
    ctx.sample({"paths": E.paths})
