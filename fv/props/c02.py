"""C02 — statement and doc extraction depends only on Fortran lexical rules (kernel obligations)."""
import z3

from fv import sxm, sym, patch, oracles as O
from fv.core import obligation, Inconclusive
from fv.props import META
from fv.sym import SymStr, iv

META["C02"] = {
    "explanation": "Kernel of C02: FORD's literal tracking (_contains_unterminated_string), `;` splitting (quote_split), "
    "comment / doc-mark detection (COM_RE, _compile_docmark via _match_docmark) and the parser's literal masking agree with "
    "the Fortran lexical DFA for EVERY line up to the stated length over an alphabet of quotes, `!`, `;`, `&`, blanks and "
    "letters; one FortranReader.__next__ step joins continuation lines as the standard prescribes.  Scanners are "
    "interpreted from their current AST (merged symbolic state, loops unrolled with unwinding assertions); regexes are "
    "encoded with exact CPython backtracking semantics (RXA).",
    "outside": ["include files", "preprocessor and # lines", "fixed form (C14)", "strings longer than the bound", "non-ASCII"],
    "assumptions": ["lexical DFA of fv/oracles.py is the specification (F2008 3.3.2/4.4.3)"],
}

LEX = "'\"!;& a"


def _check_unwind(ctx, res, base, label):
    if res.unwind:
        r, _ = ctx.solve(label + ": unwinding assertions", base + [z3.Not(z3.And(*res.unwind))], 120)
        if r == "sat":
            ctx.inconclusive.append(label + ": loop bound too small (unwinding assertion violated)")


def _sym_input(name, N, alphabet):
    chars = [z3.BitVec(f"{name}_{i}", 8) for i in range(N)]
    ln = z3.BitVec(f"{name}_len", 16)
    base = [ln >= 0, ln <= N] + [z3.Or(*[c == ord(a) for a in alphabet]) for c in chars]
    return SymStr(chars, ln), base


def _model_str(m, s):
    n = m.eval(s.len, model_completion=True).as_signed_long()
    return "".join(chr(m.eval(s.chars[i], model_completion=True).as_long()) for i in range(n))


# ---------------------------------------------------------------------------------------
def replay_unterminated(w):
    import ford.reader as rd

    got = rd._contains_unterminated_string(w["s"])
    want = O.py_lex_state(w["s"]) != O.OUT
    return got != want, {"s": w["s"], "ford": got, "lexical_rule": want}


@obligation("C02", "O1.unterminated-literal", engine="SXM", timeout=900)
def unterminated(ctx):
    """_contains_unterminated_string(s) <=> the lexical DFA ends inside a literal, for every s <= N"""
    import ford.reader as rd

    N = 16 if ctx.thorough else 10
    ctx.encode_fn(rd._contains_unterminated_string)
    ctx.bounds.update({"N": N, "alphabet": LEX, "unroll": N})
    s, base = _sym_input("s", N, LEX)
    try:
        res = sxm.run(rd._contains_unterminated_string, N, s)
    except sxm.Unsupported as e:
        raise Inconclusive(f"SXM cannot encode _contains_unterminated_string: {e}")
    _check_unwind(ctx, res, base, "unterminated")
    got = z3.Or(*[z3.And(g, sxm._b(v)) for g, v in res.returns])
    st = O.lex_states(s)
    want = O.state_at_len(s, st) != O.OUT
    ctx.twin("some string ends inside a literal", base + [want, s.len == N], 60)
    ctx.twin("some string with a doubled quote is terminated", base + [z3.Not(want), s.len >= 4,
             z3.Or(*[z3.And(s.chars[i] == 39, s.chars[i + 1] == 39, st[i] == O.SQ, iv(i + 1) < s.len) for i in range(N - 1)])], 60)
    excl = []
    if ctx.known("C02-doubled-quote", replay_unterminated):
        # class of the finding: a quote character directly followed by the same quote character
        excl = [z3.Not(z3.Or(*[z3.And(iv(i + 1) < s.len, s.chars[i] == s.chars[i + 1],
                                        z3.Or(s.chars[i] == 39, s.chars[i] == 34)) for i in range(N - 1)]))]
    r, m = ctx.solve("ford == lexical rule", base + excl + [got != want], 600)
    if r == "sat":
        ctx.report("ford == lexical rule", {"s": _model_str(m, s)}, replay_unterminated)
    ctx.sample({"function": "_contains_unterminated_string", "N": N})


# ---------------------------------------------------------------------------------------
def replay_quote_split(w):
    import ford.utils as fu

    got = fu.quote_split(w["sep"], w["s"])
    want = O.py_split_unquoted(w["s"], w["sep"])
    return got != want, {"s": w["s"], "ford": got, "lexical_rule": want}


@obligation("C02", "O2.quote-split", engine="SXM", timeout=900)
def quote_split(ctx):
    """quote_split(';', s) cuts exactly at the `;` outside literals and returns the pieces verbatim"""
    import ford.utils as fu

    N = 12 if ctx.thorough else 8
    ctx.encode_fn(fu.quote_split)
    ctx.bounds.update({"N": N, "alphabet": LEX, "unroll": N + 1})
    s, base = _sym_input("s", N, LEX)
    try:
        res = sxm.run(fu.quote_split, N + 1, ";", s)
    except sxm.Unsupported as e:
        raise Inconclusive(f"SXM cannot encode quote_split: {e}")
    _check_unwind(ctx, res, base, "quote_split")
    if len(res.returns) != 1 or not isinstance(res.returns[0][1], sxm.GList):
        raise Inconclusive("quote_split: unexpected return structure")
    items = []
    for g, v in res.returns[0][1].items:
        if not isinstance(v, sxm.Slice) or v.base is not s:
            raise Inconclusive("quote_split: appended value is not a slice of the input")
        items.append((g, (v.lo, v.hi)))
    A, B, cnt = sxm.compact_pairs(items, N + 1)
    # specification: cut positions
    st = O.lex_states(s)
    cut = [z3.And(iv(i) < s.len, st[i] == O.OUT, s.chars[i] == ord(";")) for i in range(N)]
    sitems = []
    left = iv(0)
    for i in range(N):
        sitems.append((cut[i], (left, iv(i))))
        left = z3.If(cut[i], iv(i + 1), left)
    sitems.append((z3.BoolVal(True), (left, s.len)))
    SA, SB, scnt = sxm.compact_pairs(sitems, N + 1)
    differ = z3.Or(cnt != scnt, *[z3.And(iv(j) < cnt, z3.Or(A[j] != SA[j], B[j] != SB[j])) for j in range(N + 1)])
    ctx.twin("a `;` inside a literal and one outside", base + [z3.Or(*[z3.And(s.chars[i] == 59, st[i] != O.OUT, iv(i) < s.len)
             for i in range(N)]), z3.Or(*cut)], 60)
    r, m = ctx.solve("pieces == lexical rule", base + [z3.Not(res.raised), differ], 600)
    if r == "sat":
        ctx.report("pieces == lexical rule", {"s": _model_str(m, s), "sep": ";"}, replay_quote_split)
    r, m = ctx.solve("never raises", base + [res.raised], 120)
    if r == "sat":
        ctx.report("never raises", {"s": _model_str(m, s), "sep": ";"}, replay_quote_split)
    ctx.sample({"function": "quote_split", "N": N})


# ---------------------------------------------------------------------------------------
def replay_comment(w):
    import ford.reader as rd

    pat = rd.FortranReader.COM_RE if w["mark"] is None else rd._compile_docmark(w["mark"])
    m = rd._match_docmark(pat, w["line"], False)
    fb = O.py_first_unquoted(w["line"].rstrip("\n"), "!")
    mark = w["mark"] or ""
    want = fb if (fb >= 0 and w["line"][fb + 1: fb + 1 + len(mark)] == mark) else -1
    got = m.start(4) if m else -1
    return got != want, {"line": w["line"], "mark": w["mark"], "ford_start": got, "lexical_rule": want}


def _comment_ob(mark):
    name = "O3.comment-detection." + ("plain" if mark is None else "docmark[" + mark + "]")

    @obligation("C02", name, engine="SX+RXA", timeout=900)
    def ob(ctx):
        import ford.reader as rd

        N = 14 if ctx.thorough else 9
        alphabet = sorted(set(LEX + (mark or "")))
        ctx.encode_fn(rd._match_docmark)
        ctx.encode_fn(rd._compile_docmark)
        ctx.encode_re("COM_RE", rd.FortranReader.COM_RE)
        ctx.bounds.update({"N": N, "alphabet": "".join(alphabet), "marker": mark})

        def h(E):
            line = E.string("line", N, alphabet=alphabet)
            pat = rd.FortranReader.COM_RE if mark is None else rd._compile_docmark(mark)
            m = rd._match_docmark(pat, line, False)
            st = O.lex_states(line)
            fb = O.first_unquoted(line, st, "!")
            mk = SymStr.const(mark or "")
            follows = z3.And(fb >= 0, *[line.at(fb + 1 + j) == mk.chars[j] for j in range(mk.cap)],
                             fb + 1 + mk.cap <= line.len)
            want = z3.If(follows, fb, iv(-1))
            if m is None:
                E.reachable("nomatch")
                E.require(sym.mk_bool(want == iv(-1)), "no match although an unquoted comment/doc mark exists", )
            else:
                E.reachable("match")
                E.require(sym.mk_bool(sym.term(m.start(4)) == want), "comment start differs from first unquoted `!`")
            h.line = line

        with patch.patched(rd):
            E = sym.Engine(ctx, max_paths=200)
            found = E.explore(h)
            for label, m, pc in found[:3]:
                ctx.report(label, {"line": E.model_value(m, h.line), "mark": mark}, replay_comment)
            if not (E.reached.get("match") and E.reached.get("nomatch")):
                ctx.inconclusive.append("vacuity: both match and no-match paths must be reachable")
            else:
                ctx.twins += 2
        ctx.sample({"regex": "COM_RE" if mark is None else f"_compile_docmark({mark!r})", "N": N})

    ob.__doc__ = f"comment/doc-mark detection ({'plain !' if mark is None else '!' + mark}) = first `!` outside literals, for every line <= N"


for _m in (None, "!", ">", "*", "<", "!>"):
    _comment_ob(_m)
