"""C02 — statement and doc extraction depends only on Fortran lexical rules (kernel obligations)."""
import z3

from fv import sxm, sym, patch, oracles as O
from fv.core import obligation, Inconclusive
from fv.props import META
from fv.sym import SymStr, iv

META["C02"] = {
    "explanation": "Kernel of C02: FORD's literal tracking (_contains_unterminated_string), `;` splitting (quote_split), "
    "comment / doc-mark detection (COM_RE, _compile_docmark via _match_docmark) and the parser's literal masking agree with "
    "the Fortran lexical DFA for EVERY line up to the stated length over an alphabet of quotes, `!`, `;`, `&`, blanks and "
    "letters; one FortranReader.__next__ step joins continuation lines as the standard prescribes.  Scanners are "
    "interpreted from their current AST (merged symbolic state, loops unrolled with unwinding assertions); regexes are "
    "encoded with exact CPython backtracking semantics (RXA).",
    "outside": ["include files", "preprocessor and # lines", "fixed form (C14)", "strings longer than the bound", "non-ASCII"],
    "assumptions": ["lexical DFA of fv/oracles.py is the specification (F2008 3.3.2/4.4.3)"],
}

LEX = "'\"!;& a"


def _check_unwind(ctx, res, base, label):
    if res.unwind:
        r, _ = ctx.solve(label + ": unwinding assertions", base + [z3.Not(z3.And(*res.unwind))], 120)
        if r == "sat":
            ctx.inconclusive.append(label + ": loop bound too small (unwinding assertion violated)")


def _sym_input(name, N, alphabet):
    chars = [z3.BitVec(f"{name}_{i}", 8) for i in range(N)]
    ln = z3.BitVec(f"{name}_len", 16)
    base = [ln >= 0, ln <= N] + [z3.Or(*[c == ord(a) for a in alphabet]) for c in chars]
    return SymStr(chars, ln), base


def _model_str(m, s):
    n = m.eval(s.len, model_completion=True).as_signed_long()
    return "".join(chr(m.eval(s.chars[i], model_completion=True).as_long()) for i in range(n))


def _dse_fallback(ctx, which, why):
    """the merged interpreter does not know a construct of the current source: explore the real function
    path by path instead (smaller bound, same oracle)"""
    import ford.reader as rd
    import ford.utils as fu

    N = 5 if ctx.thorough else 4
    ctx.bounds.update({"engine_fallback": "SX (path exploration) because SXM reported: " + why[:120], "N": N, "alphabet": LEX})

    def h(E):
        s = E.string("s", N, alphabet=LEX)
        h.s = s
        E.e.snapshot = lambda m: {"s": E.model_value(m, s), "sep": ";"}
        st = O.lex_states(s)
        if which == "unterminated":
            got = rd._contains_unterminated_string(s)
            E.reachable("ran")
            want = O.state_at_len(s, st) != O.OUT
            E.require(sym.mk_bool(sym.bterm(got) == want) if not isinstance(got, bool) else sym.mk_bool(z3.BoolVal(got) == want),
                      "ford == lexical rule")
        else:
            got = fu.quote_split(";", s)
            E.reachable("ran")
            cut = [z3.And(iv(i) < s.len, st[i] == O.OUT, s.chars[i] == ord(";")) for i in range(N)]
            n = len(got)
            E.require(sym.mk_bool(z3.Sum(*[z3.If(c, 1, 0) for c in cut]) + 1 == n), "number of pieces differs from the lexical rule")
            # pieces joined by `;` give back the input
            joined = SymStr.const("")
            for j, piece in enumerate(got):
                joined = joined + (";" if j else "") + piece
            E.require(sym.mk_bool(SymStr.lift(joined).eq_t(s)), "pieces are not verbatim slices of the input")

    with patch.patched(rd, fu):
        E = sym.Engine(ctx, max_paths=200000)
        found = E.explore(h)
        seen = set()
        for (label, m, pc), snap in zip(found, E.snapshots):
            if label in seen:
                continue
            seen.add(label)
            ctx.report(label, snap, replay_unterminated if which == "unterminated" else replay_quote_split)
        if E.reached.get("ran"):
            ctx.twins += 1
        else:
            ctx.inconclusive.append("vacuity: function never returned")


# ---------------------------------------------------------------------------------------
def replay_unterminated(w):
    import ford.reader as rd

    got = rd._contains_unterminated_string(w["s"])
    want = O.py_lex_state(w["s"]) != O.OUT
    return got != want, {"s": w["s"], "ford": got, "lexical_rule": want}


@obligation("C02", "O1.unterminated-literal", engine="SXM", timeout=900)
def unterminated(ctx):
    """_contains_unterminated_string(s) <=> the lexical DFA ends inside a literal, for every s <= N"""
    import ford.reader as rd

    N = 16 if ctx.thorough else 10
    ctx.encode_fn(rd._contains_unterminated_string)
    ctx.bounds.update({"N": N, "alphabet": LEX, "unroll": N})
    s, base = _sym_input("s", N, LEX)
    try:
        res = sxm.run(rd._contains_unterminated_string, N, s)
    except sxm.Unsupported as e:
        return _dse_fallback(ctx, "unterminated", str(e))
    _check_unwind(ctx, res, base, "unterminated")
    got = z3.Or(*[z3.And(g, sxm._b(v)) for g, v in res.returns])
    st = O.lex_states(s)
    want = O.state_at_len(s, st) != O.OUT
    ctx.twin("some string ends inside a literal", base + [want, s.len == N], 60)
    ctx.twin("some string with a doubled quote is terminated", base + [z3.Not(want), s.len >= 4,
             z3.Or(*[z3.And(s.chars[i] == 39, s.chars[i + 1] == 39, st[i] == O.SQ, iv(i + 1) < s.len) for i in range(N - 1)])], 60)
    excl = []
    if ctx.known("C02-doubled-quote", replay_unterminated):
        # class of the finding: a quote character directly followed by the same quote character
        excl = [z3.Not(z3.Or(*[z3.And(iv(i + 1) < s.len, s.chars[i] == s.chars[i + 1],
                                        z3.Or(s.chars[i] == 39, s.chars[i] == 34)) for i in range(N - 1)]))]
    r, m = ctx.solve("ford == lexical rule", base + excl + [got != want], 600)
    if r == "sat":
        ctx.report("ford == lexical rule", {"s": _model_str(m, s)}, replay_unterminated)
    ctx.sample({"function": "_contains_unterminated_string", "N": N})


# ---------------------------------------------------------------------------------------
def replay_quote_split(w):
    import ford.utils as fu

    got = fu.quote_split(w["sep"], w["s"])
    want = O.py_split_unquoted(w["s"], w["sep"])
    return got != want, {"s": w["s"], "ford": got, "lexical_rule": want}


@obligation("C02", "O2.quote-split", engine="SXM", timeout=900)
def quote_split(ctx):
    """quote_split(';', s) cuts exactly at the `;` outside literals and returns the pieces verbatim"""
    import ford.utils as fu

    N = 12 if ctx.thorough else 8
    ctx.encode_fn(fu.quote_split)
    ctx.bounds.update({"N": N, "alphabet": LEX, "unroll": N + 1})
    s, base = _sym_input("s", N, LEX)
    try:
        res = sxm.run(fu.quote_split, N + 1, ";", s)
    except sxm.Unsupported as e:
        return _dse_fallback(ctx, "quote_split", str(e))
    _check_unwind(ctx, res, base, "quote_split")
    if len(res.returns) != 1 or not isinstance(res.returns[0][1], sxm.GList):
        raise Inconclusive("quote_split: unexpected return structure")
    items = []
    for g, v in res.returns[0][1].items:
        if not isinstance(v, sxm.Slice) or v.base is not s:
            raise Inconclusive("quote_split: appended value is not a slice of the input")
        items.append((g, (v.lo, v.hi)))
    A, B, cnt = sxm.compact_pairs(items, N + 1)
    # specification: cut positions
    st = O.lex_states(s)
    cut = [z3.And(iv(i) < s.len, st[i] == O.OUT, s.chars[i] == ord(";")) for i in range(N)]
    sitems = []
    left = iv(0)
    for i in range(N):
        sitems.append((cut[i], (left, iv(i))))
        left = z3.If(cut[i], iv(i + 1), left)
    sitems.append((z3.BoolVal(True), (left, s.len)))
    SA, SB, scnt = sxm.compact_pairs(sitems, N + 1)
    differ = z3.Or(cnt != scnt, *[z3.And(iv(j) < cnt, z3.Or(A[j] != SA[j], B[j] != SB[j])) for j in range(N + 1)])
    ctx.twin("a `;` inside a literal and one outside", base + [z3.Or(*[z3.And(s.chars[i] == 59, st[i] != O.OUT, iv(i) < s.len)
             for i in range(N)]), z3.Or(*cut)], 60)
    r, m = ctx.solve("pieces == lexical rule", base + [z3.Not(res.raised), differ], 600)
    if r == "sat":
        ctx.report("pieces == lexical rule", {"s": _model_str(m, s), "sep": ";"}, replay_quote_split)
    r, m = ctx.solve("never raises", base + [res.raised], 120)
    if r == "sat":
        ctx.report("never raises", {"s": _model_str(m, s), "sep": ";"}, replay_quote_split)
    ctx.sample({"function": "quote_split", "N": N})


# ---------------------------------------------------------------------------------------
def replay_comment(w):
    import ford.reader as rd

    pat = rd.FortranReader.COM_RE if w["mark"] is None else rd._compile_docmark(w["mark"])
    m = rd._match_docmark(pat, w["line"], False)
    fb = O.py_first_unquoted(w["line"].rstrip("\n"), "!")
    mark = w["mark"] or ""
    want = fb if (fb >= 0 and w["line"][fb + 1: fb + 1 + len(mark)] == mark) else -1
    got = m.start(4) if m else -1
    return got != want, {"line": w["line"], "mark": w["mark"], "ford_start": got, "lexical_rule": want}


def _comment_ob(mark):
    name = "O3.comment-detection." + ("plain" if mark is None else "docmark[" + mark + "]")

    @obligation("C02", name, engine="SX+RXA", timeout=900)
    def ob(ctx):
        import ford.reader as rd

        N = 14 if ctx.thorough else 9
        alphabet = sorted(set(LEX + (mark or "")))
        ctx.encode_fn(rd._match_docmark)
        ctx.encode_fn(rd._compile_docmark)
        ctx.encode_re("COM_RE", rd.FortranReader.COM_RE)
        ctx.bounds.update({"N": N, "alphabet": "".join(alphabet), "marker": mark})

        def h(E):
            line = E.string("line", N, alphabet=alphabet)
            pat = rd.FortranReader.COM_RE if mark is None else rd._compile_docmark(mark)
            m = rd._match_docmark(pat, line, False)
            st = O.lex_states(line)
            fb = O.first_unquoted(line, st, "!")
            mk = SymStr.const(mark or "")
            follows = z3.And(fb >= 0, *[line.at(fb + 1 + j) == mk.chars[j] for j in range(mk.cap)],
                             fb + 1 + mk.cap <= line.len)
            want = z3.If(follows, fb, iv(-1))
            if m is None:
                E.reachable("nomatch")
                E.require(sym.mk_bool(want == iv(-1)), "no match although an unquoted comment/doc mark exists", )
            else:
                E.reachable("match")
                E.require(sym.mk_bool(sym.term(m.start(4)) == want), "comment start differs from first unquoted `!`")
            h.line = line

        with patch.patched(rd):
            E = sym.Engine(ctx, max_paths=200)
            found = E.explore(h)
            for label, m, pc in found[:3]:
                ctx.report(label, {"line": E.model_value(m, h.line), "mark": mark}, replay_comment)
            if not (E.reached.get("match") and E.reached.get("nomatch")):
                ctx.inconclusive.append("vacuity: both match and no-match paths must be reachable")
            else:
                ctx.twins += 2
        ctx.sample({"regex": "COM_RE" if mark is None else f"_compile_docmark({mark!r})", "N": N})

    ob.__doc__ = f"comment/doc-mark detection ({'plain !' if mark is None else '!' + mark}) = first `!` outside literals, for every line <= N"


for _m in (None, "!", ">", "*", "<", "!>"):
    _comment_ob(_m)


# ---------------------------------------------------------------------------------------
# O5: one logical line out of FortranReader.__next__
# ---------------------------------------------------------------------------------------
def replay_reader(w):
    """Run the real FortranReader on the witness lines (doc marks disabled) and compare the
    canonical statements with the reference joiner."""
    import os
    import tempfile
    import ford.reader as rd

    want = O.py_free_statements(w["lines"])
    if want is None:
        return False, "witness outside the scenario of the reference joiner"
    fd, p = tempfile.mkstemp(suffix=".f90")
    with os.fdopen(fd, "w") as f:
        f.write("".join(l + "\n" for l in w["lines"]))
    try:
        try:
            got = [O.py_canon(x) for x in rd.FortranReader(p, docmark="") if x != ""]
        except Exception as e:  # noqa
            got = ["EXC " + repr(e)]
    finally:
        os.remove(p)
    return got != want, {"lines": w["lines"], "ford": got, "lexical_rule": want}


def _run_reader_harness(ctx, h, max_paths, names):
    import ford.reader as rd
    import ford.utils as fu
    from fv import readerh

    ctx.encode_fn(rd.FortranReader.__next__)
    ctx.encode_fn(rd._match_docmark)
    ctx.encode_fn(rd._contains_unterminated_string)
    ctx.encode_fn(fu.quote_split)
    ctx.encode_re("COM_RE", rd.FortranReader.COM_RE)
    ctx.stubs.append("self.reader replaced by an iterator over the symbolic physical lines (file I/O stubbed)")
    ctx.stubs.append("_contains_unterminated_string and quote_split run as merged SXM summaries of their current source")
    with patch.patched(rd, fu, extra=readerh.reader_patches()):
        E = sym.Engine(ctx, max_paths=max_paths)
        found = E.explore(h)
        for label, m, pc in found[:3]:
            ctx.report(label, {"lines": [E.model_value(m, x) for x in h.lines]}, replay_reader)
        for nm in names:
            if not E.reached.get(nm):
                ctx.inconclusive.append(f"vacuity: path class '{nm}' not reached")
            else:
                ctx.twins += 1
    return E


@obligation("C02", "O5.reader.single-line", engine="SX+RXA+SXM", timeout=1800)
def reader_single(ctx):
    """next(FortranReader) on one physical line: comment removed at the first `!` outside literals,
    pieces cut at `;` outside literals, stripped, empties dropped, order kept"""
    from fv import readerh

    N = 7 if ctx.thorough else 5
    ctx.bounds.update({"lines": 1, "N": N, "alphabet": LEX, "docmarks": "disabled"})

    def h(E):
        L1 = E.string("L1", N, alphabet=LEX)
        h.lines = [L1]
        r = readerh.mk_reader([L1 + "\n"], docmark="")
        code, fb, st = readerh.strip_comment(L1)
        t = code.strip()
        # scenario: the line is not continued and does not start with `&`
        E.assume(sym.mk_bool(z3.Or(t.len == 0, z3.And(readerh.last_char(t) != ord("&"), t.at(iv(0)) != ord("&")))))
        try:
            first = next(r)
        except StopIteration:
            E.reachable("nothing")
            # nothing returned: every piece must be blank
            E.require(sym.mk_bool(z3.And(*[z3.Or(iv(i) >= code.len, z3.Or(code.at(iv(i)) == 32, code.at(iv(i)) == 9,
                      z3.And(code.at(iv(i)) == 59, st[i] == O.OUT))) for i in range(N)])), "statement lost")
            return
        # an empty piece (e.g. the text before a leading `;`) is not a statement
        got = [g_ for g_ in readerh.all_outputs(r, first) if not (g_ == "")]
        E.reachable("statements")
        if len(got) > 1:
            E.reachable("several")
        # specification pieces
        cut = [z3.And(iv(i) < code.len, st[i] == O.OUT, L1.chars[i] == 59) for i in range(N)]
        items, left = [], iv(0)
        for i in range(N + 1):
            hi = iv(i) if i < N else code.len
            g = cut[i] if i < N else z3.BoolVal(True)
            hi = z3.If(hi > code.len, code.len, hi)
            piece = code.slice_t(left, hi).strip()
            items.append((z3.And(g, piece.len > 0), (left, hi)))
            if i < N:
                left = z3.If(cut[i], iv(i + 1), left)
        A, B, cnt = sxm.compact_pairs(items, N + 1)
        E.require(sym.mk_bool(cnt == len(got)), "number of statements differs from the lexical rule")
        for j, g_ in enumerate(got):
            if isinstance(g_, str) and sym.OPAQUE in g_:
                raise Inconclusive("opaque formatted text reached a result")
            want = code.slice_t(z3.simplify(A[j]), z3.simplify(B[j])).strip()
            E.require(sym.mk_bool(SymStr.lift(g_).eq_t(want)), f"statement {j} differs from the lexical rule")

    _run_reader_harness(ctx, h, 3000, ["nothing", "statements", "several"])
    ctx.sample({"scenario": "one physical line", "N": N})


def z3_sep(lead):
    """one blank between the parts unless the continuation line starts with `&`"""
    return SymStr([sym.cv(" ")], z3.If(lead, iv(0), iv(1)))


def _continuation_ob(name, middle, N1q, N2q, N1t, N2t):
    @obligation("C02", "O5.reader.continuation." + name, engine="SX+RXA+SXM", timeout=3000)
    def ob(ctx):
        from fv import readerh

        N1, N2 = (N1t, N2t) if ctx.thorough else (N1q, N2q)
        ctx.bounds.update({"lines": 2 + len(middle), "N1": N1, "N2": N2, "alphabet": LEX, "middle_lines": middle,
                           "docmarks": "disabled"})
        ctx.assumptions.append("a `!` on a line that starts inside a continued literal, and literal continuation "
                               "without a leading `&`, are outside the scenario")

        def h(E):
            L1 = E.string("L1", N1, alphabet=LEX)
            L2 = E.string("L2", N2, alphabet=LEX)
            mids = list(middle)
            h.lines = [L1] + mids + [L2]
            r = readerh.mk_reader([L1 + "\n"] + [m + "\n" for m in mids] + [L2 + "\n"], docmark="")
            code1, fb1, st1 = readerh.strip_comment(L1)
            t1 = code1.strip()
            E.assume(sym.mk_bool(z3.And(t1.len > 0, readerh.last_char(t1) == ord("&"), t1.at(iv(0)) != ord("&"))))
            body1 = t1.slice_t(iv(0), t1.len - 1)
            stb = O.lex_states(body1)
            s1 = O.state_at_len(body1, stb)
            inlit = s1 != O.OUT
            if mids:
                # blank/comment lines can only stand between the parts of a statement outside a literal
                E.assume(sym.mk_bool(z3.Not(inlit)))
            code2, fb2, st2 = readerh.strip_comment(L2, s1)
            # in a literal: no `!` at all on the second line (FORD does not look for comments there)
            E.assume(sym.mk_bool(z3.Or(z3.Not(inlit), z3.And(*[z3.Or(iv(i) >= L2.len, L2.chars[i] != 33) for i in range(N2)]))))
            t2 = code2.strip()
            lead = t2.at(iv(0)) == ord("&")
            E.assume(sym.mk_bool(z3.And(t2.len > 0, readerh.last_char(t2) != ord("&"), z3.Or(z3.Not(inlit), lead))))
            rest2 = t2.slice_t(z3.If(lead, iv(1), iv(0)), t2.len)
            E.assume(sym.mk_bool(z3.Or(z3.Not(lead), rest2.strip().len > 0)))
            joined = body1 + z3_sep(lead) + rest2
            stj = O.lex_states(joined)
            jc = joined.chars
            E.assume(sym.mk_bool(z3.And(*[z3.Or(iv(i) >= joined.len, stj[i] != O.OUT, jc[i] != 59) for i in range(joined.cap)])))
            try:
                first = next(r)
            except StopIteration:
                E.reachable("nothing")
                E.require(False, "continued statement lost")
                return
            except ValueError:
                E.reachable("error")
                E.require(False, "reader rejects a valid continuation")
                return
            got = readerh.all_outputs(r, first)
            E.reachable("joined")
            if sym.bterm(inlit) is not None and E.decide(inlit):
                E.reachable("literal-continued")
            E.require(sym.mk_bool(z3.BoolVal(len(got) == 1)), "more than one statement from a continuation without `;`")
            a, b = readerh.canon(SymStr.lift(got[0])), readerh.canon(joined)
            E.require(sym.mk_bool(a.eq_t(b)), "joined statement differs from the lexical rule")

        _run_reader_harness(ctx, h, 6000, ["joined"] + ([] if middle else ["literal-continued"]))
        ctx.sample({"scenario": "two physical lines joined by &", "middle": middle, "N1": N1, "N2": N2})

    ob.__doc__ = ("two physical lines joined by `&` (leading `&` optional outside literals), "
                  f"with lines {middle!r} in between: the logical line equals the standard's join modulo blanks outside literals")


# since the reader locates the end of a continued literal character by character (fix 4667209) the step forks per character of the second
# line on the paths that start inside a literal: the thorough bounds of these three obligations are those of the quick tier
_continuation_ob("plain", [], 4, 4, 4, 4)
_continuation_ob("blank-between", ["  "], 4, 3, 4, 3)
_continuation_ob("comment-between", [" ! c"], 4, 3, 4, 3)


# ---------------------------------------------------------------------------------------
# O4: the parser's literal-masking loop (extracted from the current AST of FortranContainer.__init__)
# ---------------------------------------------------------------------------------------
def _masking_function():
    """compile `def masking(self, line)` from the real loop: the `while` whose test searches QUOTES_RE, with the
    initialisations that precede it"""
    import ast
    import inspect
    import textwrap
    import ford.sourceform as sf

    src = textwrap.dedent(inspect.getsource(sf.FortranContainer.__init__))
    fn = ast.parse(src).body[0]
    loops = [n for n in fn.body if isinstance(n, ast.For) and ast.unparse(n.iter) == "source"]
    if len(loops) != 1:
        raise Inconclusive("cannot locate `for line in source`")
    body = loops[0].body
    idx = [i for i, n in enumerate(body) if isinstance(n, ast.While) and "QUOTES_RE.search" in ast.unparse(n.test)]
    if not idx:
        # the loop may live in a method of its own, called as `line = self.<method>(line)` at the same place
        for n in body:
            if isinstance(n, ast.Assign) and ast.unparse(n.targets[0]) == "line" and isinstance(n.value, ast.Call) \
                    and isinstance(n.value.func, ast.Attribute) and ast.unparse(n.value.func.value) == "self" \
                    and [ast.unparse(a) for a in n.value.args] == ["line"] and not n.value.keywords:
                meth = getattr(sf.FortranContainer, n.value.func.attr, None)
                if meth is None:
                    continue
                msrc = textwrap.dedent(inspect.getsource(meth))
                mfn = ast.parse(msrc).body[0]
                if any(isinstance(x, ast.While) and "QUOTES_RE.search" in ast.unparse(x.test) for x in ast.walk(mfn)):
                    def masking(self, line, _m=meth):
                        line = _m(self, line)
                        return line, self.strings
                    return masking, msrc
    if len(idx) != 1:
        raise Inconclusive("cannot locate the literal-masking loop")
    i = idx[0]
    pre = []
    j = i - 1
    while j >= 0 and isinstance(body[j], ast.Assign) and ast.unparse(body[j].targets[0]) in ("self.strings", "search_from"):
        pre.insert(0, body[j])
        j -= 1
    if len(pre) < 2:
        raise Inconclusive("masking loop initialisation not found")
    stmts = pre + [body[i], ast.Return(value=ast.Tuple(elts=[ast.Name("line", ast.Load()), ast.Attribute(ast.Name("self", ast.Load()), "strings", ast.Load())], ctx=ast.Load()))]
    f = ast.FunctionDef(name="masking", args=ast.arguments(posonlyargs=[], args=[ast.arg("self"), ast.arg("line")], kwonlyargs=[], kw_defaults=[], defaults=[]),
                        body=stmts, decorator_list=[], type_params=[])
    mod = ast.Module(body=[f], type_ignores=[])
    ast.fix_missing_locations(mod)
    text = ast.unparse(mod)
    ns = {}
    exec(compile(mod, "<masking loop of FortranContainer.__init__>", "exec"), sf.__dict__, ns)
    return ns["masking"], text


def _py_unmask(masked, strings):
    out, pos = "", 0
    for k, lit in enumerate(strings):
        ph = f'"{k}"'
        p = masked.find(ph, pos)
        if p < 0:
            return None
        out += masked[pos:p] + lit
        pos = p + len(ph)
    return out + masked[pos:]


def replay_masking(w):
    import re as _re
    import ford.sourceform as sf
    from fv import standins

    masking, _ = _masking_function()
    try:
        masked, strings = masking(standins.Rec(strings=None), w["line"])
    except Exception as e:  # noqa
        return True, {"line": w["line"], "ford": "raised " + repr(e)}
    back = _py_unmask(masked, strings)
    stray = _re.fullmatch(r"""([^'"]|"[0-9]+")*""", masked) is None
    return back != w["line"] or stray, {"line": w["line"], "masked": masked, "strings": strings, "unmasked": back,
                                        "stray_quote_in_masked_line": stray}


@obligation("C02", "O4.literal-masking-loop", engine="SX+RXA", timeout=1800)
def masking(ctx):
    """the literal-masking loop of the parser: afterwards the line contains no literal text (only "<k>" placeholders) and putting
    strings[k] back gives the original line — for every line <= N whose literals are terminated"""
    import re as _re
    import ford.sourceform as sf
    from fv import standins, rxa

    fn, text = _masking_function()
    ctx.encode_text("literal-masking loop (FortranContainer.__init__)", text, "python-source")
    ctx.encode_re("QUOTES_RE", sf.QUOTES_RE)
    N = 6 if ctx.thorough else 5
    alphabet = "'\"a0"
    ctx.bounds.update({"N": N, "alphabet": alphabet})
    ctx.assumptions.append("every literal of the line is terminated (lexical DFA ends outside a literal)")
    ctx.assumptions.append("two literals of different quote kinds are never directly adjacent (not valid Fortran)")
    clean = _re.compile(r"""^([^'"]|"[0-9]+")*$""")

    def h(E):
        masking_fn = fn  # its globals are the module's dict: it sees the patched names at call time
        line = E.string("line", N, alphabet=alphabet)
        E.e.snapshot = lambda m: {"line": E.model_value(m, line)}
        st = O.lex_states(line)
        E.assume(sym.mk_bool(O.state_at_len(line, st) == O.OUT))
        # two character literals never touch in a Fortran statement (an operator or separator stands between them)
        ch = line.chars
        E.assume(sym.mk_bool(z3.And(*[z3.Not(z3.And(iv(i + 1) < line.len, st[i] != O.OUT, st[i + 1] == O.OUT,
                                                    z3.Or(ch[i + 1] == 39, ch[i + 1] == 34), ch[i + 1] != ch[i])) for i in range(N - 1)])))
        masked, strings = masking_fn(standins.Rec(strings=None), line)
        E.reachable("masked")
        if strings:
            E.reachable("with-literals")
        m_ = SymStr.lift(masked)
        # (1) round trip
        out, rest = SymStr.const(""), m_
        for k, lit in enumerate(strings):
            ph = f'"{k}"'
            pos = rest.find_t(ph)
            E.require(sym.mk_bool(pos != iv(-1)), f"placeholder {k} missing from the masked line")
            out = out + rest.slice_t(iv(0), pos) + lit
            rest = rest.slice_t(pos + len(ph), rest.len)
        out = out + rest
        E.require(sym.mk_bool(out.eq_t(line)), "putting the literals back does not give the original line")
        # (2) no literal text left
        mm = rxa.Matcher(rxa.prog_for(clean), m_.chars, m_.len)
        ok, caps, end = mm.match()
        E.require(sym.mk_bool(ok), "a quote character outside a placeholder survives masking")

    with patch.patched(sf):
        E = sym.Engine(ctx, max_paths=50000)
        found = E.explore(h)
        seen = set()
        for (label, m, pc), snap in zip(found, E.snapshots):
            if label in seen:
                continue
            seen.add(label)
            ctx.report(label, snap, replay_masking)
        for nm in ("masked", "with-literals"):
            if E.reached.get(nm):
                ctx.twins += 1
            else:
                ctx.inconclusive.append(f"vacuity: {nm}")
    ctx.sample({"loop": text[:300], "paths": E.paths})


# ---------------------------------------------------------------------------------------
# O6: a character literal continued over two lines: what follows the leading `&` is still inside the literal until ITS closing quote —
# the other quote character, `!`, `;` before that are plain text (finite-choice lines through the real reader)
# ---------------------------------------------------------------------------------------
from fv import choice as _choice6, parserh as _parserh6  # noqa: E402
from fv.choice import CV as _CV6  # noqa: E402

LIT_HEADS = [('msg = "don&', '"'), ("msg = 'say &", "'"), ('msg = "plain &', '"'), ("print *, 'a;b&", "'")]
LIT_TAILS = ["&'t stop! keep going\"", "&\"hi!\" now'", "& text\"", "&''quoted''! ok'", "& it's; here\"", "&x\"\"y! z\""]


def _lit_expected(head, quote, tail):
    """the one statement Fortran's lexical rules give (3.3.2.4): None when the pair is not a well-formed continued literal of that quote kind
    or when something follows the closing quote (trailing comments after a continued literal are outside this obligation)"""
    body = tail[1:]
    st, i = quote, 0
    closed_at = None
    while i < len(body):
        c = body[i]
        if c == quote:
            if i + 1 < len(body) and body[i + 1] == quote:
                i += 2
                continue
            closed_at = i
            break
        i += 1
    if closed_at is None or body[closed_at + 1:].strip():
        return None
    return head[:-1] + body


def replay_lit(w):
    import ford.reader as rd
    import os, tempfile
    d = tempfile.mkdtemp(prefix="fvc02-")
    p = os.path.join(d, "t.f90")
    with open(p, "w") as f:
        f.write("subroutine s()\n" + w["head"] + "\n" + w["tail"] + "\nend subroutine s\n")
    try:
        got = list(rd.FortranReader(p, "!", ">", "*", "|"))
    except Exception as e:  # noqa
        got = ["raised " + repr(e)[:120]]
    finally:
        os.remove(p)
        os.rmdir(d)
    want = ["subroutine s()", w["expected"], "end subroutine s"]
    return got != want, {"physical lines": [w["head"], w["tail"]], "reader delivers": got, "lexical rules": want}


@obligation("C02", "O6.reader.continued-literal", engine="SX(CV)", timeout=900)
def continued_literal(ctx):
    """two physical lines: a statement ending inside a character literal with `&`, continued by `&...` (symbolic choices holding the other
    quote character, `!`, `;`, doubled quotes before the closing quote): the reader delivers the one joined statement, nothing cut off as a
    comment and no spurious doc line"""
    import ford.reader as rd

    ctx.encode_fn(rd.FortranReader.__next__)
    ctx.encode_fn(rd._match_docmark)
    ctx.bounds.update({"first lines": [h_[0] for h_ in LIT_HEADS], "continuation lines": LIT_TAILS})

    def h(E):
        hd = _CV6.choice(E, "head", LIT_HEADS)
        tl = _CV6.choice(E, "tail", LIT_TAILS)
        want = _choice6.apply(lambda h_, t: _lit_expected(h_[0], h_[1], t), hd, tl)
        E.assume(_choice6.apply(lambda w_: w_ is not None, want) if isinstance(want, _CV6) else want is not None)
        E.e.snapshot = lambda m: {"head": _choice6.value_in_model(m, hd)[0], "tail": _choice6.value_in_model(m, tl),
                                  "expected": _choice6.value_in_model(m, want)}
        import ford.utils as fu
        from fv import readerh as _rh, patch as _pt
        lines = ["subroutine s()", hd[0], tl, "end subroutine s"]
        extra = {(rd, "_contains_unterminated_string"): _parserh6.pointwise(rd._contains_unterminated_string)}
        extra.update(_parserh6.helper_patches())
        with _pt.patched(rd, fu, extra=extra):
            r = _rh.mk_reader([l + "\n" for l in lines], docmark="!", predocmark=">", docmark_alt="*", predocmark_alt="|")
            outs = []
            for o in r:
                outs.append(o)
                if len(outs) > 6:
                    break
        E.reachable("read")
        E.require(len(outs) == 3, "the two physical lines do not give exactly one statement (text cut off as a comment / spurious doc line)")
        if len(outs) == 3:
            E.require(_choice6.apply(lambda g, w_: g == w_, outs[1], want), "the joined statement differs from the text of the continued literal")

    E = sym.Engine(ctx, max_paths=5000, incremental=True)
    found = E.explore(h)
    seen = set()
    for (label, m, pc), snap in zip(found, E.snapshots):
        if label in seen or not snap:
            continue
        seen.add(label)
        ctx.report(label, snap, replay_lit)
    if E.reached.get("read"):
        ctx.twins += 1
    else:
        ctx.inconclusive.append("vacuity: nothing read")
    ctx.sample({"paths": E.paths})



# ---------------------------------------------------------------------------------------
# O7: the text of a character literal comes out of reader AND parser verbatim, however the statement holding it is laid out
# ---------------------------------------------------------------------------------------
V_LITS = ["'(a,i0)'", "\";,&!\"", "'a,b'", "'it''s, really'", "\"say \"\"hi\"\", twice\"", "'x = \"1\", y'", "'! , ;'", "'plain'", "'a &'", "'Usage:  prog [options]'", "'ab   cd'"]
V_LAYOUTS = [
    ("one line", lambda L: ["character(len=*), parameter :: s = " + L]),
    ("after another statement on the line", lambda L: ["integer :: n = 1; character(len=*), parameter :: s = " + L]),
    ("continued before the literal", lambda L: ["character(len=*), parameter :: s = &", "   " + L]),
    ("continued before the literal, leading &", lambda L: ["character(len=*), parameter :: s = &", "   & " + L]),
    ("with a trailing comment", lambda L: ["character(len=*), parameter :: s = " + L + " ! a comment, with a comma"]),
    ("second of two entities", lambda L: ["character(len=*), parameter :: t = 'first,one', s = " + L]),
    ("literal broken in the middle", lambda L: ["character(len=*), parameter :: s = " + L[:3] + "&", "      &" + L[3:]]),
    # a comment may follow the closing quote of a literal continued from the previous line
    ("literal broken in the middle, comment after its end", lambda L: ["character(len=*), parameter :: s = " + L[:3] + "&", "      &" + L[3:] + " ! a comment, here"]),
    ("literal broken in the middle, documentation after its end", lambda L: ["character(len=*), parameter :: s = " + L[:3] + "&", "      &" + L[3:] + " !! documented"]),
    # the literal resumes directly after the leading &: blanks that follow it belong to the literal
    ("literal broken in front of its blanks", lambda L: ["character(len=*), parameter :: s = " + L[:L.index(" ")] + "&", "      &" + L[L.index(" "):]]
     if " " in L[1:-1] else ["character(len=*), parameter :: s = " + L, "! filler"]),
]


def _v_rewrites(lit):
    import re as _re
    return _re.sub(r" (?= )|(?<= ) ", "\xa0", lit)


def _v_observe(p):
    vs = [v for v in p.modules[0].variables if str(v.name).lower() == "s"]
    return vs[0].initial if len(vs) == 1 else "MISSING"


def replay_verbatim(w):
    import ford.sourceform as sf
    lines = ["module m"] + dict(V_LAYOUTS)[w["layout"]](w["literal"]) + ["end module m"]
    old = sf.namelist
    sf.namelist = sf.NameSelector()
    try:
        p = _parserh6.project_concrete({"a.f90": lines}, correlate=False, physical=("a.f90",))
        got = _v_observe(p)
    except Exception as e:  # noqa
        return True, {"physical lines": lines, "ford": "raised " + repr(e)[:200]}
    finally:
        sf.namelist = old
    want = _v_rewrites(w["literal"])
    return got != want, {"physical lines": lines, "initial value reported": got, "source literal (runs of blanks shown as non-breaking blanks)": want}


@obligation("C02", "O7.literal-text-verbatim-through-reader-and-parser", engine="SX(CV)", timeout=900)
def verbatim(ctx):
    """a declaration whose initial value is a symbolic literal (commas, `;`, `!`, `&`, both quote kinds, doubled quotes) in a symbolic
    layout (one line, after a `;`, continued, broken inside the literal, with a comment, after another literal): the value FORD reports is
    the source literal verbatim"""
    import ford.sourceform as sf
    import ford.reader as rd

    ctx.encode_fn(rd.FortranReader.__next__)
    ctx.encode_fn(sf.line_to_variables)
    ctx.encode_re("QUOTES_RE", sf.QUOTES_RE)
    ctx.bounds.update({"literals": V_LITS, "layouts": [l[0] for l in V_LAYOUTS]})

    def h(E):
        lit = _CV6.choice(E, "literal", V_LITS)
        lay = _CV6.choice(E, "layout", [l[0] for l in V_LAYOUTS]).concretize()   # the number of physical lines depends on the layout
        # a literal shorter than the break point or ending in & cannot be broken in the middle / `'a &'` would read as a continuation
        E.assume(_choice6.apply(lambda l: not (lay.startswith("literal broken") and (len(l) < 6 or "&" in l)), lit))
        E.e.snapshot = lambda m: {"literal": _choice6.value_in_model(m, lit), "layout": lay}
        n = len(dict(V_LAYOUTS)[lay]("'xxxxxxxx'"))
        body = [_choice6.apply(lambda l, i=i: dict(V_LAYOUTS)[lay](l)[i], lit) for i in range(n)]
        try:
            got = _parserh6.project({"a.f90": ["module m"] + body + ["end module m"]}, correlate=False, physical=("a.f90",), post=_v_observe)
        except (ValueError, IndexError, KeyError, AttributeError, TypeError) as e:
            E.reachable("raised")
            E.require(False, "FORD fails on a valid declaration: " + type(e).__name__)
            return
        E.reachable("parsed")
        E.require(_choice6.apply(lambda g, l: g == _v_rewrites(l), got, lit), "literal text is not preserved verbatim")

    E = sym.Engine(ctx, max_paths=20000, incremental=True)
    found = E.explore(h)
    seen = set()
    for (label, m, pc), snap in zip(found, E.snapshots):
        if label in seen or not snap:
            continue
        seen.add(label)
        ctx.report(label, snap, replay_verbatim)
    if E.reached.get("parsed"):
        ctx.twins += 1
    else:
        ctx.inconclusive.append("vacuity: parser never completed")
    ctx.sample({"paths": E.paths})
