"""C18 — rendered declarations say what the source says, and stay inert text (kernel)."""
import re

import z3

from fv import sym, choice, parserh, standins as S
from fv.choice import CV
from fv.core import obligation, Inconclusive
from fv.props import META

META["C18"] = {
    "explanation": "Kernel of C18: (a) the REAL parser (literal masking, line_to_variables re-insertion, parse_type, _parse_bind_C) runs on "
    "declarations whose character-literal initial values / bind names / kind selectors are finite-choice symbolic values "
    "drawn from HTML- and Markdown-significant texts (<, >, &, both quotes, doubled quotes, backslashes, repeated blanks, "
    "texts that look like FORD's own placeholders): the recorded initial value / bind name is the source literal verbatim up "
    "to the two documented rewrites; full_type / full_declaration reproduce the declaration; (b) template expressions that "
    "print source-derived literal text (`*.initial`) are escaped for EVERY truthiness of the operands (Jinja AST -> SMT).",
    "outside": ["escaping at other template sites", "markdown processing of doc text", "page structure"],
    "assumptions": ["documented rewrite: runs of blanks -> non-breaking blanks"],
}

LITS = ["'C:\\usr\\share\\ford'", "'\\frac{\\alpha}{\\beta}'", "'<b>bold</b>'", "\"a < b & c > d\"", "'it''s'", "\"say \"\"hi\"\"\"", "'a  b   c'", "'back\\slash'", "'\"0\"'", "\"'1'\"",
        "'&amp;'", "'*not emphasised*'", "'[[link]]'", "''", "' '", "'x = \"1\"'", "'!not a comment'", "'a;b'", "'(a,i0)'", "\";,&!\"", "'x,y , z'"]


def rewrites(lit):
    # runs of blanks become non-breaking blanks; nothing else changes (backslashes stay single)
    return re.sub(r" (?= )|(?<= ) ", "\xa0", lit)


DECLS = [
    ("character(len=*), parameter :: s = {L}", 1),
    ("character(len=*), parameter :: u = 'abcdefgh', s = {L}", 2),
    ("character(len=*), parameter :: u = \"a longer literal first\", t = 'x', s = {L}", 3),
    ("character(len=20) :: s = {L}", 1),
    ("character(len=*), parameter :: t = \"1\", s = {L}", 2),
    ("character(len=*), parameter :: t = '0' // \"1\", s = {L}", 2),
    ("CHARACTER(LEN=*), PARAMETER :: S = {L}", 1),
    ("character(len=*), parameter :: s = {L} // '<i>'", 1, "{L}//'<i>'"),
    ("character(len=*), parameter :: s(2) = [{L}, '<include>']", 1, "[{L}, '<include>']"),
    ("character(len=*), parameter :: s(3) = [{L}, \"two\", {L}]", 1, "[{L}, \"two\", {L}]"),
]
DECLS = [d if len(d) == 3 else (d[0], d[1], "{L}") for d in DECLS]


def _initial_of(f):
    m = f.modules[0]
    return [v.initial for v in m.variables]


def replay_literal(w):
    try:
        f = parserh.parse_concrete(["module m", w["decl"], "end module m"])
    except Exception as e:  # noqa
        return True, {"declaration": w["decl"], "ford": "raised " + repr(e)[:200]}
    got = _initial_of(f)[-1]
    return got != w["expected"], {"declaration": w["decl"], "ford_initial": got, "source_literal_with_documented_rewrites": w["expected"]}


@obligation("C18", "O1.literal-round-trip", engine="SX(CV)", timeout=1800)
def literal(ctx):
    """initial value of a character declaration = the source literal verbatim (up to the documented rewrites), for every
    literal of the table in every declaration form (also next to literals that look like masking placeholders)"""
    import ford.sourceform as sf

    ctx.encode_fn(sf.line_to_variables)
    ctx.encode_fn(sf.FortranContainer.__init__)
    ctx.encode_re("QUOTES_RE", sf.QUOTES_RE)
    ctx.encode_re("NBSP_RE", sf.NBSP_RE)
    ctx.bounds.update({"literals": LITS, "declaration_forms": len(DECLS)})

    def h(E):
        lit = CV.choice(E, "lit", LITS)
        d = CV.choice(E, "decl", DECLS)
        decl = choice.apply(lambda t, l: t.replace("{L}", l), d[0], lit)
        h.state = (decl, lit)
        E.e.snapshot = lambda m: {"decl": choice.value_in_model(m, decl),
                                  "expected": choice.value_in_model(m, d[2]).replace("{L}", rewrites(choice.value_in_model(m, lit)))}
        try:
            f = parserh.parse(["module m", decl, "end module m"])
        except (ValueError, IndexError, KeyError, AttributeError, TypeError) as e:
            E.reachable("raised")
            E.require(False, "parser fails on a valid declaration: " + type(e).__name__)
            return
        inits = _initial_of(f)
        E.reachable("parsed")
        E.require(choice.apply(lambda n, k: n == k, len(inits), d[1]), "number of declared entities differs")
        want = choice.apply(lambda l, t: t.replace("{L}", rewrites(l)), lit, d[2])
        h.want = want
        E.require(choice.apply(lambda g, w_: g == w_, inits[-1], want), "initial value differs from the source literal")

    E = sym.Engine(ctx, max_paths=20000, incremental=True)
    found = E.explore(h)
    seen = set()
    for (label, m, pc), snap in zip(found, E.snapshots):
        if label in seen:
            continue
        seen.add(label)
        ctx.report(label, snap, replay_literal)
    if E.reached.get("parsed"):
        ctx.twins += 1
    else:
        ctx.inconclusive.append("vacuity: parser never completed")
    ctx.sample({"literals": LITS[:6], "paths": E.paths})


# ---------------------------------------------------------------------------------------
BINDS = [("subroutine s() bind(c, name='c_name')", "c, name='c_name'"), ("subroutine s() bind(C, NAME=\"Mixed<&>\")", "C, NAME=\"Mixed<&>\""),
         ("subroutine s() bind(c)", "c"), ("subroutine s()  bind ( c , name = 'sp ace' )", "c , name = 'sp ace'"),
         ("function s() bind(c, name='f') result(r)", "c, name='f'")]


def replay_bind(w):
    f = parserh.parse_concrete(["module m", "contains", w["stmt"], "end", "end module m"])
    p = (f.modules[0].subroutines + f.modules[0].functions)[0]
    return (p.bindC or "").strip() != w["expected"], {"statement": w["stmt"], "ford_bindC": p.bindC, "source_text": w["expected"]}


@obligation("C18", "O1b.bind-name-round-trip", engine="SX(CV)", timeout=600)
def bind(ctx):
    """the bind(...) text of a procedure heading is recorded verbatim (literal re-inserted)"""
    import ford.sourceform as sf

    ctx.encode_fn(sf.FortranProcedure._parse_bind_C)
    ctx.encode_re("SUBROUTINE_RE", sf.FortranContainer.SUBROUTINE_RE)
    ctx.encode_re("FUNCTION_RE", sf.FortranContainer.FUNCTION_RE)

    kf = ctx.known("C18-bind-before-result", replay_bind)

    def h(E):
        b = CV.choice(E, "bind", BINDS)
        h.b = b
        if kf:
            E.assume(choice.apply(lambda t: not ("bind" in t and "result" in t and t.index("bind") < t.index("result")), b[0]))
        f = parserh.parse(["module m", "contains", b[0], "end", "end module m"])
        ps = list(f.modules[0].subroutines) + list(f.modules[0].functions)
        E.reachable("parsed")
        E.require(choice.apply(lambda n: n == 1, len(ps)), "procedure missing")
        E.require(choice.apply(lambda g, w_: (g or "").strip() == w_, ps[0].bindC, b[1]), "bind text differs from the source")

    E = sym.Engine(ctx, max_paths=2000, incremental=True)
    found = E.explore(h)
    for (label, m, pc), A in list(zip(found, E.autosnaps))[:2]:
        st, exp = choice.value_in_model(m, A["b"])
        ctx.report(label, {"stmt": st, "expected": exp}, replay_bind)
    if E.reached.get("parsed"):
        ctx.twins += 1
    else:
        ctx.inconclusive.append("vacuity: parser never completed")
    ctx.bounds.update({"bind_forms": len(BINDS)})
    ctx.sample({"forms": [b[0] for b in BINDS]})


# ---------------------------------------------------------------------------------------
# (b) template escaping of source-derived literal text
# ---------------------------------------------------------------------------------------
def _tagged(e, sh, nodes):
    """abstract value of a Jinja expression: (is_raw_source: z3 Bool, truthy: z3 Bool)"""
    if isinstance(e, nodes.Getattr) and e.attr == "initial":
        t = sh.setdefault("initial_truthy", z3.Bool("initial_is_nonempty"))
        return t, t
    if isinstance(e, nodes.Const):
        return z3.BoolVal(False), z3.BoolVal(bool(e.value))
    if isinstance(e, nodes.Filter):
        raw, tr = _tagged(e.node, sh, nodes) if e.node is not None else (z3.BoolVal(False), z3.BoolVal(False))
        if e.name in ("e", "escape", "forceescape"):
            return z3.BoolVal(False), tr
        if e.name in ("safe",):
            return raw, tr
        return raw, tr  # other filters (trim, lower, ...) keep markup
    if isinstance(e, nodes.Or):
        lr, lt = _tagged(e.left, sh, nodes)
        rr, rt = _tagged(e.right, sh, nodes)
        return z3.If(lt, lr, rr), z3.Or(lt, rt)
    if isinstance(e, nodes.And):
        lr, lt = _tagged(e.left, sh, nodes)
        rr, rt = _tagged(e.right, sh, nodes)
        return z3.If(lt, rr, lr), z3.And(lt, rt)
    if isinstance(e, nodes.CondExpr):
        tr_, tt = _tagged(e.test, sh, nodes)
        ar, at = _tagged(e.expr1, sh, nodes)
        br, bt = _tagged(e.expr2, sh, nodes) if e.expr2 is not None else (z3.BoolVal(False), z3.BoolVal(False))
        return z3.If(tt, ar, br), z3.If(tt, at, bt)
    if isinstance(e, (nodes.Concat,)):
        parts = [_tagged(x, sh, nodes) for x in e.nodes]
        return z3.Or(*[p[0] for p in parts]), z3.Or(*[p[1] for p in parts])
    if isinstance(e, nodes.Add):
        a, b = _tagged(e.left, sh, nodes), _tagged(e.right, sh, nodes)
        return z3.Or(a[0], b[0]), z3.Or(a[1], b[1])
    # anything else: not source literal text
    k = len(sh)
    return z3.BoolVal(False), sh.setdefault(f"u{k}", z3.Bool(f"unknown_truthy_{k}"))


ENUM_SITE_NOTE = "enumerator values (integer constant expressions) are printed unescaped; they cannot contain markup"


def replay_escape(w):
    import ford.output as out

    tpl = out.env.from_string("{{ " + w["expr"] + " }}")
    text = "<i>&amp</i>"
    v = S.Rec(initial=text, name="x")
    html = tpl.render(var=v, variable=v)
    return text in html, {"expression": w["expr"], "rendered": html}


@obligation("C18", "O3.template-escaping", engine="JX", timeout=600)
def escaping(ctx):
    """every template expression that prints `<x>.initial` (source literal text) is escaped for every truthiness of its operands"""
    import glob
    import os
    import ford.output as out
    from jinja2 import nodes

    tdir = os.path.join(os.path.dirname(out.__file__), "templates")
    sites = 0
    for path in sorted(glob.glob(os.path.join(tdir, "*.html"))):
        src = open(path).read()
        ctx.encode_text("templates/" + os.path.basename(path), src, "jinja-template")
        tree = out.env.parse(src)
        for o in tree.find_all(nodes.Output):
            for e in o.nodes:
                if isinstance(e, nodes.TemplateData):
                    continue
                if not any(isinstance(g, nodes.Getattr) and g.attr == "initial" for g in [e] + list(e.find_all(nodes.Getattr))):
                    continue
                line = src.splitlines()[e.lineno - 1]
                m = [x for x in re.findall(r"\{\{(.*?)\}\}", line) if "initial" in x]
                expr = m[0].strip() if m else ""
                # enumerator rows: integer constant expressions
                if "enum" in "".join(src.splitlines()[max(0, e.lineno - 12): e.lineno]).lower():
                    ctx.assumptions.append(ENUM_SITE_NOTE)
                    continue
                sites += 1
                sh = {}
                raw, _ = _tagged(e, sh, nodes)
                label = f"{os.path.basename(path)}:{e.lineno} `{expr}` never raw"
                ctx.twin(label + " (value can be non-empty)", [sh.get("initial_truthy", z3.BoolVal(True))], 10)
                r, mdl = ctx.solve(label, [raw], 30)
                if r == "sat":
                    ctx.report(label, {"template": os.path.basename(path), "line": e.lineno, "expr": expr}, replay_escape)
    if sites < 2:
        ctx.inconclusive.append(f"only {sites} `.initial` print sites found")
    ctx.bounds.update({"sites": sites, "operands": "every truthiness"})
    ctx.sample({"sites": sites})


# ---------------------------------------------------------------------------------------
FULL = [
    ("integer :: v", "integer"), ("INTEGER :: V", "integer"), ("integer v", "integer"),
    ("real(8) :: v", "real(kind=8)"), ("real*8 v", "real(kind=8)"), ("real(kind=8) :: v", "real(kind=8)"), ("REAL ( KIND = 8 ) :: V", "real(kind=8)"),
    ("real(dp), intent(in), optional :: v", "real(kind=dp)"),
    ("character(len=10) :: v", "character(len=10)"), ("character(10) :: v", "character(len=10)"), ("character*10 v", "character(len=10)"),
    ("character(10, 1) :: v", "character(kind=1, len=10)"), ("character(n, 4) :: v", "character(kind=4, len=n)"), ("character(10, kind=1) :: v", "character(kind=1, len=10)"),
    ("character(len=*), parameter :: v = 'x'", "character(len=*), parameter"), ("character(kind=ck, len=5) :: v", "character(kind=ck, len=5)"),
    ("type(t) :: v", "type(t)"), ("TYPE(T) :: V", "type(T)"), ("class(t), pointer :: v", "class(t), pointer"),
    ("real, dimension(3), allocatable :: v", "real, dimension(3), allocatable"), ("real :: v(3)", "real, (3)"),
    ("double precision :: v", "double precision"), ("doubleprecision v", "doubleprecision"),
    ("logical, save :: v = .true.", "logical, save"), ("complex(kind=8), target :: v", "complex(kind=8), target"),
    ("procedure(iface), pointer :: v", "procedure(iface), pointer"),
]


def replay_full(w):
    f = parserh.parse_concrete(["module m", w["decl"], "end module m"])
    v = f.modules[0].variables[0]
    got = v.full_declaration
    return got != w["expected"], {"declaration": w["decl"], "ford_full_declaration": got, "expected": w["expected"]}


@obligation("C18", "O2.full-declaration", engine="SX(CV)", timeout=900)
def full_decl(ctx):
    """the text shown for a variable's type and attributes (full_declaration) says what the declaration says, the same for every
    equivalent spelling (kind/len spellings, letter case of keywords, blanks)"""
    import ford.sourceform as sf

    ctx.encode_fn(sf.parse_type)
    ctx.encode_fn(sf.line_to_variables)
    ctx.encode_text("FortranVariable.full_type/full_declaration", __import__("inspect").getsource(sf.FortranVariable), "python-source")
    ctx.bounds.update({"declarations": len(FULL)})

    def h(E):
        d = CV.choice(E, "decl", FULL)
        E.e.snapshot = lambda m: {"decl": choice.value_in_model(m, d)[0], "expected": choice.value_in_model(m, d)[1]}
        try:
            n, got = parserh.parse(["module m", d[0], "end module m"],
                                   post=lambda f: (len(f.modules[0].variables), f.modules[0].variables[0].full_declaration if f.modules[0].variables else None))
        except (ValueError, IndexError, KeyError, AttributeError, TypeError) as e:
            E.reachable("raised")
            E.require(False, "parser fails on a valid declaration: " + type(e).__name__)
            return
        E.reachable("parsed")
        E.require(choice.apply(lambda k: k == 1, n), "variable missing")
        E.require(choice.apply(lambda g, w_: g == w_, got, d[1]), "displayed declaration differs from the source declaration")

    E = sym.Engine(ctx, max_paths=5000, incremental=True)
    found = E.explore(h)
    seen = set()
    for (label, m, pc), snap in zip(found, E.snapshots):
        if label in seen:
            continue
        seen.add(label)
        ctx.report(label, snap, replay_full)
    if E.reached.get("parsed"):
        ctx.twins += 1
    else:
        ctx.inconclusive.append("vacuity: parser never completed")
    ctx.sample({"declarations": [d[0] for d in FULL[:6]]})


# ---------------------------------------------------------------------------------------
# O2b: the declaration shown for a function RESULT ("Return Value") is the one the source gives, however header and
# declaration spell the result name
# ---------------------------------------------------------------------------------------
HEADS = [("function tally(items) result(total)", "total"), ("function tally(items) result(Total)", "total"),
         ("FUNCTION TALLY(ITEMS) RESULT(TOTAL)", "total"), ("pure function tally(items) result(total)", "total"),
         ("function tally(items)", "tally"), ("FUNCTION TALLY(ITEMS)", "tally"), ("Function Tally(items)", "tally"),
         ("recursive function tally(items) result(total)", "total")]
RDECLS = [("integer(kind=8), dimension(3) :: {n}", "integer(kind=8), dimension(3)"), ("INTEGER(KIND=8), DIMENSION(3) :: {N}", "integer(kind=8), dimension(3)"),
          ("character(len=12) :: {n}", "character(len=12)"), ("character(len=12) :: {C}", "character(len=12)"),
          ("complex(8) {n}", "complex(kind=8)"), ("type(t) :: {N}", "type(t)"), ("logical, pointer :: {C}", "logical, pointer")]


def _rprog(head, decl):
    return ["module m", "contains", head, "integer :: items", decl, "end function", "end module m"]


def _robserve(f):
    fn = f.modules[0].functions[0]
    rv = fn.retvar
    shown = rv.full_declaration if hasattr(rv, "full_declaration") else None
    return shown, len([v for v in fn.variables])


def replay_result(w):
    f = parserh.parse_concrete(_rprog(w["head"], w["decl"]))
    shown, nvars = _robserve(f)
    return (shown or "").lower() != w["expected"].lower() or nvars != 0, {"function": w["head"], "declaration": w["decl"], "ford_return_value": shown,
                                                  "declared": w["expected"], "other local variables listed": nvars}


@obligation("C18", "O2b.result-declaration", engine="SX(CV)", timeout=900)
def result_decl(ctx):
    """function header (result clause or not, letter case) x declaration of the result in the body (letter case of the name,
    type spellings): the return value is shown with the declared type/kind/attributes and is not listed as a local variable"""
    import ford.sourceform as sf

    ctx.encode_fn(sf.FortranFunction._initialize)
    ctx.encode_fn(sf.FortranFunction._cleanup)
    ctx.bounds.update({"headers": len(HEADS), "result declarations": len(RDECLS)})

    def h(E):
        hd = CV.choice(E, "head", HEADS)
        dc = CV.choice(E, "decl", RDECLS)
        decl = choice.apply(lambda d, h_: d[0].replace("{n}", h_[1]).replace("{N}", h_[1].upper()).replace("{C}", h_[1].capitalize()), dc, hd)
        E.e.snapshot = lambda m: {"head": choice.value_in_model(m, hd)[0], "decl": choice.value_in_model(m, decl),
                                  "expected": choice.value_in_model(m, dc)[1]}
        shown, nvars = parserh.parse(_rprog(hd[0], decl), post=_robserve)
        E.reachable("parsed")
        # letter case of keywords/attributes is kept as written in the source: compare case-insensitively
        E.require(choice.apply(lambda g, w_: (g or "").lower() == w_.lower(), shown, dc[1]), "the return value is not shown with its declared type")
        E.require(choice.apply(lambda k: k == 0, nvars), "the result variable is (also) listed as an ordinary local variable")

    E = sym.Engine(ctx, max_paths=5000, incremental=True)
    found = E.explore(h)
    seen = set()
    for (label, m, pc), snap in zip(found, E.snapshots):
        if label in seen or not snap:
            continue
        seen.add(label)
        ctx.report(label, snap, replay_result)
    if E.reached.get("parsed"):
        ctx.twins += 1
    else:
        ctx.inconclusive.append("vacuity: parser never completed")
    ctx.sample({"paths": E.paths})


# ---------------------------------------------------------------------------------------
# O2c: the prefix of a procedure statement (pure / impure / elemental / recursive / non_recursive / module and, for functions, the
# result type) is reported as declared
# ---------------------------------------------------------------------------------------
PREFIXES = [("", []), ("pure", ["pure"]), ("impure", ["impure"]), ("elemental", ["elemental"]), ("impure elemental", ["impure", "elemental"]),
            ("elemental impure", ["impure", "elemental"]), ("pure elemental", ["pure", "elemental"]), ("recursive", ["recursive"]),
            ("non_recursive", ["non_recursive"]), ("IMPURE ELEMENTAL", ["impure", "elemental"]), ("Non_Recursive", ["non_recursive"]),
            ("pure recursive", ["pure", "recursive"])]
RTYPES = [("", None), ("integer", "integer"), ("real(8)", "real(kind=8)"), ("type(module_data)", "type(module_data)"),
          ("real(pure_kind)", "real(kind=pure_kind)"), ("type(recursive_list)", "type(recursive_list)"), ("character(len=8)", "character(len=8)"),
          ("type(elemental_t)", "type(elemental_t)")]


def _pprog(prefix, rtype, kind):
    mk = lambda pf, rt: " ".join(x for x in (pf, rt if kind == "function" else "", kind, "work(x)") if x)
    head = choice.apply(mk, prefix, rtype) if isinstance(prefix, CV) or isinstance(rtype, CV) else mk(prefix, rtype)
    return ["module m", "contains", head, "real :: x", "end " + kind + " work", "end module m"]


def _pobserve(f):
    m = f.modules[0]
    p = (list(m.functions) + list(m.subroutines))[0]
    rv = getattr(p, "retvar", None)
    return sorted(a.lower() for a in p.attribs), (rv.full_declaration if hasattr(rv, "full_declaration") else None), p.name


def replay_prefix(w):
    f = parserh.parse_concrete(_pprog(w["prefix"], w["rtype"], w["kind"]))
    attribs, shown, name = _pobserve(f)
    bad = attribs != sorted(w["attribs"]) or (w["expected_type"] is not None and (shown or "").lower() != w["expected_type"].lower()) or name != "work"
    return bad, {"statement": _pprog(w["prefix"], w["rtype"], w["kind"])[2], "ford_prefixes": attribs, "declared_prefixes": sorted(w["attribs"]),
                 "ford_result_type": shown, "declared_result_type": w["expected_type"]}


def _prefix_ob(kind):
    @obligation("C18", "O2c.procedure-prefix." + kind, engine="SX(CV)", timeout=900)
    def ob(ctx):
        import ford.sourceform as sf

        ctx.encode_fn(sf._list_of_procedure_attributes)
        ctx.encode_fn(sf.FortranFunction._initialize if kind == "function" else sf.FortranSubroutine._initialize)
        ctx.bounds.update({"prefix spellings": len(PREFIXES), "result types": len(RTYPES) if kind == "function" else 0})

        def h(E):
            pf = CV.choice(E, "prefix", PREFIXES)
            rt = CV.choice(E, "rtype", RTYPES) if kind == "function" else ("", None)
            E.e.snapshot = lambda m: {"prefix": choice.value_in_model(m, pf)[0], "attribs": choice.value_in_model(m, pf)[1], "kind": kind,
                                      "rtype": choice.value_in_model(m, rt)[0], "expected_type": choice.value_in_model(m, rt)[1]}
            attribs, shown, name = parserh.parse(_pprog(pf[0], rt[0], kind), post=_pobserve)
            E.reachable("parsed")
            E.require(choice.apply(lambda g, w_: list(g) == sorted(w_), attribs, pf[1]), "reported prefixes differ from the declared ones")
            if kind == "function":
                E.require(choice.apply(lambda g, w_: w_ is None or (g or "").lower() == w_.lower(), shown, rt[1]),
                          "the result type is not the one written in the function statement")
            E.require(choice.apply(lambda n: n == "work", name), "procedure name mangled")

        E = sym.Engine(ctx, max_paths=5000, incremental=True)
        found = E.explore(h)
        seen = set()
        for (label, m, pc), snap in zip(found, E.snapshots):
            if label in seen or not snap:
                continue
            seen.add(label)
            ctx.report(label, snap, replay_prefix)
        if E.reached.get("parsed"):
            ctx.twins += 1
        else:
            ctx.inconclusive.append("vacuity: parser never completed")
        ctx.sample({"paths": E.paths})

    ob.__doc__ = f"{kind} statement with symbolic prefix keywords (and result type): FORD reports exactly the declared prefixes, the declared result type and the name"


_prefix_ob("function")
_prefix_ob("subroutine")



# ---------------------------------------------------------------------------------------
# O2d: a separate attribute statement naming several variables: each variable gets its own array spec, a bare name gets none
# ---------------------------------------------------------------------------------------
ATTR_STMTS = [("allocatable :: work(:,:), scratch", {"work": "real, allocatable, (:,:)", "scratch": "real, allocatable"}),
              ("allocatable :: scratch, work(:,:)", {"work": "real, allocatable, (:,:)", "scratch": "real, allocatable"}),
              ("ALLOCATABLE WORK(:,:), SCRATCH", {"work": "real, allocatable, (:,:)", "scratch": "real, allocatable"}),
              ("pointer :: work(:), scratch", {"work": "real, pointer, (:)", "scratch": "real, pointer"}),
              ("dimension work(3), scratch(2,2)", {"work": "real, dimension(3)", "scratch": "real, dimension(2,2)"}),
              ("allocatable :: work(:)", {"work": "real, allocatable, (:)", "scratch": "real"})]


def _attr_observe(f):
    m = f.modules[0]
    return {str(v.name).lower(): (v.full_declaration or "").lower().replace(" ", "") for v in m.variables}


def replay_attr_stmt(w):
    f = parserh.parse_concrete(["module m", "real :: work, scratch", w["stmt"], "end module m"])
    got = _attr_observe(f)
    want = {k: v.lower().replace(" ", "") for k, v in w["expected"].items()}
    return got != want, {"statement": w["stmt"], "ford": got, "declared": want}


@obligation("C18", "O2d.multi-name-attribute-statement", engine="SX(CV)", timeout=600)
def attr_stmt(ctx):
    """`real :: work, scratch` followed by a symbolic ALLOCATABLE / POINTER / DIMENSION statement naming both: the declaration shown for
    each variable carries exactly its own array spec"""
    import ford.sourceform as sf

    ctx.encode_fn(sf.FortranCodeUnit.process_attribs)
    ctx.encode_fn(sf.FortranContainer.__init__)
    ctx.bounds.update({"statements": [s_[0] for s_ in ATTR_STMTS]})

    def h(E):
        st = CV.choice(E, "stmt", ATTR_STMTS)
        E.e.snapshot = lambda m: {"stmt": choice.value_in_model(m, st)[0], "expected": choice.value_in_model(m, st)[1]}
        got = parserh.parse(["module m", "real :: work, scratch", st[0], "end module m"], post=_attr_observe)
        E.reachable("parsed")
        for name in ("work", "scratch"):
            E.require(choice.apply(lambda g, w_, name=name: g == w_[name].lower().replace(" ", ""), got.get(name), st[1]),
                      f"{name}: the declaration shown differs from the source (array spec of another name?)")

    E = sym.Engine(ctx, max_paths=2000, incremental=True)
    found = E.explore(h)
    seen = set()
    for (label, m, pc), snap in zip(found, E.snapshots):
        if label in seen or not snap:
            continue
        seen.add(label)
        ctx.report(label, snap, replay_attr_stmt)
    if E.reached.get("parsed"):
        ctx.twins += 1
    else:
        ctx.inconclusive.append("vacuity: parser never completed")
    ctx.sample({"paths": E.paths})


# ---------------------------------------------------------------------------------------
# O2e: the specification written after an entity's NAME (array spec, coarray spec, character length, in every combination) is shown
# verbatim next to that name; the name itself is the text before the first of `(`, `[`, `*`
# ---------------------------------------------------------------------------------------
ENTITY_HEADS = ["character :: ", "character(len=5) :: ", "character, intent(in) :: ", "character ", "CHARACTER(LEN=5), SAVE :: "]
ENTITY_SPECS = ["*(*)", "*(10)", "(2)*(3)", "*7", "(3)[*]", "[n(1),*]", "*(len(c))", "(3)", "(2*n)", "(2*n)[*]", "(0:*)", ""]
ENTITY_NAMES = ["v", "Msg", "LABEL_2"]


def _espec_observe(f):
    vs = list(f.modules[0].variables)
    return [(v.name, v.dimension) for v in vs]


def replay_espec(w):
    f = parserh.parse_concrete(["module m", w["decl"], "end module m"])
    got = [[str(n), str(d)] for n, d in _espec_observe(f)]
    return got != [[w["name"], w["spec"]]], {"declaration": w["decl"], "ford (name, specification after the name)": got,
                                               "source": [[w["name"], w["spec"]]]}


@obligation("C18", "O2e.entity-specification-after-the-name", engine="SX(CV)", timeout=900)
def entity_spec(ctx):
    """character declaration in a symbolic heading spelling, of a symbolic name followed by a symbolic entity specification (`*(*)`,
    `(2)*(3)`, `(3)[*]`, `[n(1),*]`, ...): one variable, with exactly that name and exactly that specification text"""
    import ford.sourceform as sf

    ctx.encode_fn(sf.line_to_variables)
    ctx.encode_fn(sf.FortranVariable.__init__)
    ctx.bounds.update({"headings": len(ENTITY_HEADS), "specifications": len(ENTITY_SPECS), "names": len(ENTITY_NAMES)})

    def h(E):
        hd = CV.choice(E, "head", ENTITY_HEADS)
        sp = CV.choice(E, "spec", ENTITY_SPECS)
        nm = CV.choice(E, "name", ENTITY_NAMES)
        decl = choice.apply(lambda a, b, c: a + b + c, hd, nm, sp)
        E.e.snapshot = lambda m: {"decl": choice.value_in_model(m, decl), "name": choice.value_in_model(m, nm), "spec": choice.value_in_model(m, sp)}
        try:
            obs = parserh.parse(["module m", decl, "end module m"], post=_espec_observe)
        except (ValueError, IndexError, KeyError, AttributeError, TypeError) as e:
            E.reachable("raised")
            E.require(False, "parser fails on a valid declaration: " + type(e).__name__)
            return
        E.reachable("parsed")
        if len(obs) != 1:
            E.require(False, "not exactly one variable reported")
            return
        E.require(choice.apply(lambda g, w_: str(g) == w_, obs[0][0], nm), "the name is cut at the wrong place")
        E.require(choice.apply(lambda g, w_: str(g) == w_, obs[0][1], sp), "the specification after the name is not shown verbatim")

    E = sym.Engine(ctx, max_paths=5000, incremental=True)
    found = E.explore(h)
    seen = set()
    for (label, m, pc), snap in zip(found, E.snapshots):
        if label in seen or not snap:
            continue
        seen.add(label)
        ctx.report(label, snap, replay_espec)
    if E.reached.get("parsed"):
        ctx.twins += 1
    else:
        ctx.inconclusive.append("vacuity: parser never completed")
    ctx.sample({"paths": E.paths})


# ---------------------------------------------------------------------------------------
# O2f: the "Return Value" heading of every page that documents a function shows the whole declaration of the result: type, attributes AND
# the shape written after the result's name — on procedure pages and on the pages of interface bodies and abstract interfaces alike
# ---------------------------------------------------------------------------------------
RV_DECLS = [("real, allocatable :: r(:, :)", ["real", "allocatable", "(:,:)"]), ("real, dimension(3) :: r", ["real", "dimension(3)"]),
            ("character(len=5) :: r(2)", ["character", "len=5", "(2)"]), ("integer, pointer :: r(:)", ["integer", "pointer", "(:)"]),
            ("type(shape_t) :: r(4)", ["shape_t", "(4)"])]
RV_HOSTS = ["module function", "interface body", "abstract interface"]


def _rv_files(decl, host):
    fn = ["function make_it(n) result(r)", "  !! makes it", "  integer, intent(in) :: n", "  " + decl, "end function make_it"]
    src = ["module things", "  !! things", "  type shape_t", "    integer :: c", "  end type shape_t"]
    if host == "module function":
        src += ["contains"] + fn
    elif host == "interface body":
        src += ["  interface"] + ["  import :: shape_t" if x.startswith("  integer, intent") and "shape_t" in decl else None for x in []] + fn + ["  end interface"]
    else:
        src += ["  abstract interface"] + fn + ["  end interface"]
    src += ["end module things"]
    if host != "module function" and "shape_t" in decl:
        i = src.index("  integer, intent(in) :: n")
        src.insert(i, "  import :: shape_t")
    return {"things.f90": "\n".join(src) + "\n"}


def replay_return_value(w):
    import os
    import re as _re
    import shutil
    from fv import fordrun
    d, outdir, rc, log = fordrun.run_ford(_rv_files(w["decl"], w["host"]), {"search": "false", "graph": "false", "display": "public\n         private"})
    try:
        if rc != 0:
            return True, {"declaration": w["decl"], "host": w["host"], "ford failed": log[-300:]}
        found = []
        for root, _, fs in os.walk(outdir):
            for fn in fs:
                if not fn.endswith(".html"):
                    continue
                text = open(os.path.join(root, fn), encoding="utf-8", errors="replace").read()
                for m in _re.finditer(r"<h3>\s*Return Value.*?<small>(.*?)</small>", text, _re.S):
                    shown = _re.sub(r"\s+", "", _re.sub(r"<[^>]*>", "", m.group(1))).lower()
                    found.append((os.path.relpath(os.path.join(root, fn), outdir), shown))
    finally:
        shutil.rmtree(d, ignore_errors=True)
    missing = [(pg, shown, [p_ for p_ in w["parts"] if p_.lower() not in shown]) for pg, shown in found]
    missing = [x for x in missing if x[2]]
    return (not found) or bool(missing), {"declaration of the result": w["decl"], "function is a": w["host"], "Return Value headings": found,
                                           "parts of the declaration not shown": missing}


@obligation("C18", "O2f.return-value-heading-on-every-page", engine="SX(CV)", timeout=900)
def return_value_heading(ctx):
    """a function (module function, interface body or abstract interface: symbolic) whose result is declared in a symbolic form (shape after
    the name, dimension attribute, character length, derived type): every generated page with a "Return Value" heading shows the type,
    every attribute and the shape"""
    import glob
    import os
    import ford.output as out

    tdir = os.path.join(os.path.dirname(out.__file__), "templates")
    for t in sorted(glob.glob(os.path.join(tdir, "*.html"))):
        src = open(t).read()
        if "Return Value" in src:
            ctx.encode_text("templates/" + os.path.basename(t), src, "jinja-template")
    ctx.bounds.update({"result declarations": [d[0] for d in RV_DECLS], "hosts": RV_HOSTS})
    ctx.stubs.append("one real `python -m ford` run per (declaration, host): the templates are rendered by the real code")

    def h(E):
        di = CV.choice(E, "decl", list(range(len(RV_DECLS)))).concretize()
        host = CV.choice(E, "host", RV_HOSTS).concretize()
        snap = {"decl": RV_DECLS[di][0], "parts": RV_DECLS[di][1], "host": host}
        E.e.snapshot = lambda m: dict(snap)
        from fv import patch as _p
        with _p.suspended():
            bad, detail = replay_return_value(snap)
        E.reachable("rendered")
        E.require(not bad, "a page's Return Value heading does not show the whole declaration of the result")

    E = sym.Engine(ctx, max_paths=200, incremental=True)
    found = E.explore(h)
    seen = set()
    for (label, m, pc), snap in zip(found, E.snapshots):
        if not snap or (snap["decl"], snap["host"]) in seen:
            continue
        seen.add((snap["decl"], snap["host"]))
        ctx.report(label, snap, replay_return_value)
    if E.reached.get("rendered"):
        ctx.twins += 1
    else:
        ctx.inconclusive.append("vacuity: nothing rendered")
    ctx.sample({"paths": E.paths})



# ---------------------------------------------------------------------------------------
# O1c: the literal shown as an initial value is the source literal also when the statement holding it is laid out over several physical
# lines and read by the real reader (shared harness with C02 O7)
# ---------------------------------------------------------------------------------------
@obligation("C18", "O1c.literal-through-the-reader", engine="SX(CV)", timeout=900)
def literal_through_reader(ctx):
    """a declaration whose initial value is a symbolic literal in a symbolic layout (one line, after a `;`, continued before or inside the
    literal, broken in front of the literal's own blanks, with a trailing comment), read by the real reader: the value shown is the source literal"""
    from fv.props import c02
    c02.verbatim(ctx)
