"""C07 — cross-references resolve to the entity Fortran scoping designates (project level)."""
import z3

from fv import sym, choice, parserh
from fv.choice import CV
from fv.core import obligation
from fv.props import META

META["C07"] = {
    "explanation": "C07 on symbolic projects: the REAL parser and Project.correlate run on small multi-file projects in which the USE "
    "statement of the referencing scope (plain / ONLY / renames with and without ONLY, letter-case variants, none) and the "
    "referenced name (spellings in several letter cases; names declared in the used module, in the host, privately, or "
    "nowhere) are symbolic finite choices.  For every combination the entity FORD links (derived type of a variable, "
    "interface of a procedure pointer, parent type, bound procedure target, called procedure) must be the one Fortran's "
    "scoping rules designate: use-associated names of the innermost scope first, then host association, private and "
    "undeclared names stay unresolved text.",
    "outside": ["scope shapes not in the scenario catalogue", "submodule chains longer than one level", "external projects (C16)"],
    "assumptions": ["oracle: fv/props/c07.py::designated (F2008 11.2.2, 16.5.1.4)"],
}

GEOMETRY = ["module geometry", "private :: Secret, SECRET_IFACE", "type circle", "integer :: c", "end type circle", "type, private :: hidden", "integer :: c",
            "end type hidden", "type secret", "integer :: c", "end type secret", "abstract interface", "subroutine area_iface()", "end subroutine area_iface", "end interface",
            "interface", "subroutine ext_proc()", "end subroutine ext_proc", "end interface",
            "end module geometry"]
PUB = {"circle": "type", "area_iface": "absint", "ext_proc": "proc"}
HOST = {"shape": "type", "host_iface": "absint"}

USES = [
    ("implicit none", "none", []),
    ("use geometry", "all", []),
    ("USE GEOMETRY", "all", []),
    ("use geometry, only: circle, area_iface", "only", [("circle", "circle"), ("area_iface", "area_iface")]),
    ("use geometry, only: Circle, Area_Iface", "only", [("circle", "circle"), ("area_iface", "area_iface")]),
    ("use geometry, only: disc => circle, fn => area_iface", "only", [("disc", "circle"), ("fn", "area_iface")]),
    ("use geometry, only: Disc => Circle, Fn => Area_Iface", "only", [("disc", "circle"), ("fn", "area_iface")]),
    ("use geometry, only: Shape => circle, Host_Iface => area_iface", "only", [("shape", "circle"), ("host_iface", "area_iface")]),
    ("use geometry, only: hidden", "only", []),
    ("use geometry, disc => circle", "all", [("disc", "circle")]),
    ("use geometry, only: area_iface", "only", [("area_iface", "area_iface")]),
]
TYPE_REFS = [("type(circle) :: v", "circle"), ("type(Circle) :: v", "circle"), ("TYPE(CIRCLE) :: V", "circle"), ("type(disc) :: v", "disc"),
             ("type(DISC) :: v", "disc"), ("type(shape) :: v", "shape"), ("type(Shape) :: v", "shape"), ("class(shape), pointer :: v", "shape"),
             ("type(hidden) :: v", "hidden"), ("type(nowhere) :: v", "nowhere"), ("type(secret) :: v", "secret"), ("type(Secret) :: v", "secret")]
PROC_REFS = [("procedure(area_iface), pointer :: p", "area_iface"), ("procedure(Area_Iface), pointer :: p", "area_iface"),
             ("procedure(fn), pointer :: p", "fn"), ("PROCEDURE(FN), POINTER :: P", "fn"), ("procedure(host_iface), pointer :: p", "host_iface"),
             ("procedure(Host_Iface), pointer :: p", "host_iface"), ("procedure(nowhere), pointer :: p", "nowhere")]


def designated(mode, pairs, name, kind):
    """(owner module, entity name) Fortran designates for `name` referenced inside host_mod::draw, or None"""
    want_kinds = {"type": ("type",), "proc": ("absint", "proc")}[kind]
    acc = {}
    if mode == "all":
        acc = {n: n for n in PUB}
        for l, r in pairs:
            if r in PUB:
                acc.pop(r, None)
        for l, r in pairs:
            if r in PUB:
                acc[l] = r
    elif mode == "only":
        acc = {l: r for l, r in pairs if r in PUB}
    if name in acc and PUB[acc[name]] in want_kinds:
        return ("geometry", acc[name])
    if name in acc:
        return None  # the name denotes something of another kind in this scope: no link of this kind
    if name in HOST and HOST[name] in want_kinds:
        return ("host_mod", name)
    return None


def _host(use, tref, pref):
    return ["module host_mod", "type shape", "integer :: s", "end type shape", "abstract interface", "subroutine host_iface()",
            "end subroutine host_iface", "end interface", "contains", "subroutine draw()", use, tref, pref, "end subroutine draw",
            "end module host_mod"]


def _owner(ent):
    par = getattr(ent, "parent", None)
    while par is not None and getattr(par, "obj", None) not in ("module", "submodule", "program", "sourcefile"):
        par = getattr(par, "parent", None)
    return str(getattr(par, "name", "?")).lower()


def _resolved(x):
    """(owner, name) of the linked entity, None when x is still text"""
    if isinstance(x, str) or x is None:
        return None
    return (_owner(x), str(x.name).lower())


def _observe(p):
    draw = [s for m in p.modules if str(m.name).lower() == "host_mod" for s in m.subroutines][0]
    vs = list(draw.variables)  # declaration order: v, p (names may be symbolic spellings)
    if len(vs) != 2:
        return ("MISSING", "MISSING")
    return (vs[0].proto[0], vs[1].proto[0])


SETTINGS = dict(proc_internals=True, display=["public", "private", "protected"])


def replay_use_resolution(w):
    p = parserh.project_concrete({"a.f90": list(GEOMETRY), "b.f90": _host(w["use"], w["tref"], w["pref"])}, **SETTINGS)
    tv, pv = _observe(p)
    got = {"type": _resolved(tv), "proc": _resolved(pv)}
    got = {k: (list(v) if v else None) for k, v in got.items()}
    return got != w["expected"], {"use": w["use"], "refs": [w["tref"], w["pref"]], "ford": got, "fortran_scoping": w["expected"]}


@obligation("C07", "P1.use-and-host-resolution", engine="SX(CV)", timeout=1800)
def use_resolution(ctx):
    """type(NAME) / procedure(NAME) inside a module procedure: NAME resolves through the procedure's USE statement
    (renames, ONLY, case-insensitively) first, then through the host module, else stays text"""
    import ford.sourceform as sf
    import ford.fortran_project as fp

    ctx.encode_fn(sf.FortranCodeUnit.correlate)
    ctx.encode_fn(sf.FortranModule.get_used_entities)
    ctx.encode_fn(sf.FortranVariable.correlate)
    ctx.encode_fn(fp.Project.correlate)
    ctx.encode_fn(fp.find_used_modules)
    ctx.stubs.append("FortranReader replaced by the symbolic statement lists of two files")
    ctx.bounds.update({"use_forms": len(USES), "type_refs": len(TYPE_REFS), "proc_refs": len(PROC_REFS)})

    def h(E):
        u = CV.choice(E, "use", USES)
        t = CV.choice(E, "tref", TYPE_REFS)
        q = CV.choice(E, "pref", PROC_REFS)
        h.state = (u, t, q)
        p = parserh.project({"a.f90": list(GEOMETRY), "b.f90": _host(u[0], t[0], q[0])}, **SETTINGS)
        tv, pv = _observe(p)
        E.reachable("correlated")
        want_t = choice.apply(lambda mode, pairs, name: designated(mode, pairs, name, "type"), u[1], u[2], t[1])
        want_p = choice.apply(lambda mode, pairs, name: designated(mode, pairs, name, "proc"), u[1], u[2], q[1])
        h.want = (want_t, want_p)
        E.require(choice.apply(lambda g, w_: _resolved(g) == w_, tv, want_t), "derived type of a variable resolved to the wrong entity")
        E.require(choice.apply(lambda g, w_: _resolved(g) == w_, pv, want_p), "interface of a procedure pointer resolved to the wrong entity")

    E = sym.Engine(ctx, max_paths=50000, incremental=True)
    found = E.explore(h)
    seen = set()
    for (label, m, pc), A in list(zip(found, E.autosnaps)):
        if label in seen:
            continue
        seen.add(label)
        u, t, q = A["state"]
        wt, wp = (choice.value_in_model(m, x) for x in A["want"])
        ctx.report(label, {"use": choice.value_in_model(m, u)[0], "tref": choice.value_in_model(m, t)[0],
                           "pref": choice.value_in_model(m, q)[0],
                           "expected": {"type": list(wt) if wt else None, "proc": list(wp) if wp else None}}, replay_use_resolution)
    if E.reached.get("correlated"):
        ctx.twins += 1
    else:
        ctx.inconclusive.append("vacuity: correlate never completed")
    ctx.sample({"paths": E.paths})


# ---------------------------------------------------------------------------------------
# P2: host association, sibling and child scopes inside one module
# ---------------------------------------------------------------------------------------
LOCAL_REFS = [("type(tlocal) :: x", "tlocal"), ("type(TLocal) :: x", "tlocal"), ("type(tmod) :: x", "tmod"), ("type(TMOD) :: x", "tmod"),
              ("type(nowhere) :: x", "nowhere"), ("integer :: x", None)]
CALLS = [("call helper()", "helper"), ("CALL HELPER()", "helper"), ("call modonly()", "modonly"), ("call nowhere()", "nowhere"),
         ("continue", None)]


def _scoping_program(ra, rb, rz, ca, cb):
    return ["module m", "type tmod", "integer :: c", "end type tmod", rz, "contains",
            "subroutine sa()", "type tlocal", "integer :: c", "end type tlocal", ra, ca, "contains",
            "subroutine helper()", "end subroutine helper", "end subroutine sa",
            "subroutine sb()", rb, cb, "end subroutine sb",
            "subroutine helper()", "end subroutine helper",
            "subroutine modonly()", "end subroutine modonly",
            "end module m"]


def scope_rule(scope, name, kind):
    """entity designated for `name` referenced in scope sa / sb / m: (declaring scope, name) or None"""
    if name is None:
        return None
    types = {"sa": {"tlocal": "sa"}, "sb": {}, "m": {}}
    procs = {"sa": {"helper": "sa"}, "sb": {}, "m": {}}
    mod_types, mod_procs = {"tmod": "m"}, {"helper": "m", "modonly": "m", "sa": "m", "sb": "m"}
    loc = (types if kind == "type" else procs)[scope]
    if name in loc:
        return (loc[name], name)
    host = mod_types if kind == "type" else mod_procs
    if name in host:
        return (host[name], name)
    return None


def _decl_scope(ent):
    par = getattr(ent, "parent", None)
    return str(getattr(par, "name", "?")).lower()


def _res2(x):
    if isinstance(x, str) or x is None:
        return None
    return (_decl_scope(x), str(x.name).lower())


def _observe2(p):
    m = p.modules[0]
    sa = [s for s in m.subroutines][0]
    sb = [s for s in m.subroutines][1]
    def proto(vs):
        vs = list(vs)
        if len(vs) != 1:
            return "MISSING"
        pr = getattr(vs[0], "proto", None)
        return pr[0] if pr else None
    def call(c):
        c = list(c)
        return c[0] if c else None
    return {"sa.x": proto(sa.variables), "sb.x": proto(sb.variables), "m.x": proto(m.variables),
            "sa.call": call(sa.calls), "sb.call": call(sb.calls)}


def replay_scoping(w):
    prog = _scoping_program(*w["slots"])
    p = parserh.project_concrete({"a.f90": prog}, **SETTINGS)
    obs = _observe2(p)
    got = {k: (list(_res2(v)) if _res2(v) else None) for k, v in obs.items()}
    return got != w["expected"], {"program": prog, "ford": got, "fortran_scoping": w["expected"]}


@obligation("C07", "P2.host-sibling-child-scopes", engine="SX(CV)", timeout=1800)
def scoping(ctx):
    """references inside two sibling module procedures and the module itself: a declaration local to a procedure is
    visible there only (not in the sibling, not in the host); an internal procedure hides the module procedure of the same name"""
    import ford.sourceform as sf

    ctx.encode_fn(sf.FortranCodeUnit.correlate)
    ctx.encode_fn(sf.FortranCodeUnit._find_chain_item)
    ctx.encode_fn(sf.FortranVariable.correlate)
    ctx.stubs.append("FortranReader replaced by the symbolic statement list")
    kf = {k: ctx.known(k, replay_scoping) for k in ("C07-sibling-type-leak", "C07-host-proc-overrides-internal", "C07-child-type-leaks-to-host")}

    def h(E):
        ra = CV.choice(E, "ra", LOCAL_REFS)
        rb = CV.choice(E, "rb", LOCAL_REFS)
        rz = CV.choice(E, "rz", LOCAL_REFS)
        ca = CV.choice(E, "ca", CALLS)
        cb = CV.choice(E, "cb", CALLS)
        h.state = (ra, rb, rz, ca, cb)
        if kf["C07-sibling-type-leak"]:
            E.assume(choice.apply(lambda n: n != "tlocal", rb[1]))
        if kf["C07-child-type-leaks-to-host"]:
            E.assume(choice.apply(lambda n: n != "tlocal", rz[1]))
        if kf["C07-host-proc-overrides-internal"]:
            E.assume(choice.apply(lambda n: n != "helper", ca[1]))
        p = parserh.project({"a.f90": _scoping_program(ra[0], rb[0], rz[0], ca[0], cb[0])}, **SETTINGS)
        obs = _observe2(p)
        E.reachable("correlated")
        want = {"sa.x": choice.apply(lambda n: scope_rule("sa", n, "type"), ra[1]),
                "sb.x": choice.apply(lambda n: scope_rule("sb", n, "type"), rb[1]),
                "m.x": choice.apply(lambda n: scope_rule("m", n, "type"), rz[1]),
                "sa.call": choice.apply(lambda n: scope_rule("sa", n, "proc"), ca[1]),
                "sb.call": choice.apply(lambda n: scope_rule("sb", n, "proc"), cb[1])}
        h.want = want
        for k in want:
            E.require(choice.apply(lambda g, w_: _res2(g) == w_, obs[k], want[k]), f"{k}: resolved to the wrong entity")

    E = sym.Engine(ctx, max_paths=50000, incremental=True)
    found = E.explore(h)
    seen = set()
    for (label, m, pc), A in list(zip(found, E.autosnaps)):
        if label in seen:
            continue
        seen.add(label)
        slots = [choice.value_in_model(m, x)[0] for x in A["state"]]
        exp = {k: (list(choice.value_in_model(m, v)) if choice.value_in_model(m, v) else None) for k, v in A["want"].items()}
        ctx.report(label, {"slots": slots, "expected": exp}, replay_scoping)
    if E.reached.get("correlated"):
        ctx.twins += 1
    else:
        ctx.inconclusive.append("vacuity: correlate never completed")
    ctx.sample({"paths": E.paths})


# ---------------------------------------------------------------------------------------
# P2b: a USE statement inside one module procedure is in effect there only
# ---------------------------------------------------------------------------------------
USE_O = [("implicit none", ()), ("use {o}, only: tmod", ("tmod",)), ("USE {O}, ONLY: TOTHER", ("tother",)), ("use {o}", ("tmod", "tother"))]
# the other module is the project's own whatever it is called: also when named like a module FORD knows as external (mpi)
OTHER_NAMES = ["other", "mpi"]
USE_REFS = [("type(tmod) :: x", "tmod"), ("type(tother) :: x", "tother"), ("TYPE(TOther) :: X", "tother"), ("type(nowhere) :: x", "nowhere")]
OWN_L = [(("integer :: d0", "integer :: d1", "integer :: d2"), False), (("type tlocal", "integer :: c", "end type tlocal"), True)]


def _use_local_files(ua, ub, ra, rb, rz, oa, on="other"):
    fill = lambda u: choice.apply(lambda u_, o_: u_.replace("{o}", o_).replace("{O}", o_.upper()), u, on)
    ua, ub = fill(ua), fill(ub)
    return {"o.f90": [choice.apply(lambda o_: "module " + o_, on), "type tmod", "integer :: c", "end type tmod", "type tother", "integer :: c", "end type tother",
                      choice.apply(lambda o_: "end module " + o_, on)],
            "m.f90": ["module m", "type tmod", "integer :: c", "end type tmod", rz, "contains",
                      "subroutine sa()", ua, oa[0], oa[1], oa[2], ra, "end subroutine sa",
                      "subroutine sb()", ub, rb, "end subroutine sb",
                      "end module m"]}


def use_local_rule(imported, name, on="other"):
    """type designated for `name` in a scope that use-associates `imported` from module other and is hosted by module m"""
    if name in imported:
        return (on, name)
    return ("m", "tmod") if name == "tmod" else None


def _observe2b(p):
    m = [x for x in p.modules if _choice_true(x.name, "m")][0]
    sa, sb = list(m.subroutines)[:2]
    def proto(vs):
        vs = [v for v in vs if _choice_true(v.name, "x")]
        if len(vs) != 1:
            return "MISSING"
        pr = getattr(vs[0], "proto", None)
        return pr[0] if pr else None
    return {"sa.x": proto(sa.variables), "sb.x": proto(sb.variables), "m.x": proto(m.variables)}


def replay_use_local(w):
    files = _use_local_files(*w["slots"])
    p = parserh.project_concrete(files, **SETTINGS)
    obs = _observe2b(p)
    got = {k: (list(_res2(v)) if _res2(v) else None) for k, v in obs.items()}
    return got != w["expected"], {"files": files, "ford": got, "fortran_scoping": w["expected"]}


@obligation("C07", "P2b.use-in-procedure-stays-local", engine="SX(CV)", timeout=1800)
def use_local(ctx):
    """two sibling module procedures, each with or without a USE of another module (whole / ONLY) that declares a type named like the
    host's: a name is use-associated only in the procedure holding the USE; the sibling and the host keep their own resolution"""
    import ford.sourceform as sf

    ctx.encode_fn(sf.FortranCodeUnit.correlate)
    ctx.encode_fn(sf.FortranVariable.correlate)
    ctx.stubs.append("FortranReader replaced by the symbolic statement list")
    ctx.bounds.update({"use forms": len(USE_O), "references": len(USE_REFS), "procedure with/without own type": 2})

    def h(E):
        ua = CV.choice(E, "ua", USE_O)
        ub = CV.choice(E, "ub", USE_O)
        ra = CV.choice(E, "ra", USE_REFS)
        rb = CV.choice(E, "rb", USE_REFS)
        rz = CV.choice(E, "rz", USE_REFS)
        oa = CV.choice(E, "oa", OWN_L)
        on = CV.choice(E, "on", OTHER_NAMES).concretize()   # a concrete name per path: entities are observed by their module's name
        h.state = (ua, ub, ra, rb, rz, oa)
        h.on = on
        p = parserh.project(_use_local_files(ua[0], ub[0], ra[0], rb[0], rz[0], oa[0], on), **SETTINGS)
        obs = _observe2b(p)
        E.reachable("correlated")
        want = {"sa.x": choice.apply(use_local_rule, ua[1], ra[1], on),
                "sb.x": choice.apply(use_local_rule, ub[1], rb[1], on),
                "m.x": choice.apply(lambda n: use_local_rule((), n), rz[1])}
        h.want = want
        for k in want:
            E.require(choice.apply(lambda g, w_: _res2(g) == w_, obs[k], want[k]), f"{k}: resolved to the wrong entity")

    E = sym.Engine(ctx, max_paths=50000, incremental=True)
    found = E.explore(h)
    seen = set()
    for (label, m, pc), A in list(zip(found, E.autosnaps)):
        if label in seen:
            continue
        seen.add(label)
        slots = [choice.value_in_model(m, x)[0] for x in A["state"]]
        slots[5] = list(slots[5])
        slots.append(choice.value_in_model(m, A["on"]))
        exp = {k: (list(choice.value_in_model(m, v)) if choice.value_in_model(m, v) else None) for k, v in A["want"].items()}
        ctx.report(label, {"slots": slots, "expected": exp}, replay_use_local)
    if E.reached.get("correlated"):
        ctx.twins += 1
    else:
        ctx.inconclusive.append("vacuity: correlate never completed")
    ctx.sample({"paths": E.paths})


# ---------------------------------------------------------------------------------------
# P3: USE statements in nested scopes; entities reached through a re-exporting module
# (depends on modules being correlated in dependency order whatever scope holds the USE)
# ---------------------------------------------------------------------------------------
NOUSE = "implicit none"
USE_Z = [(NOUSE, False), ("use z_facade", True), ("USE Z_FACADE, only: t", True)]
OWN_T = [(("integer :: dummy0", "integer :: dummy1", "integer :: dummy2"), False), (("type t", "integer :: own", "end type t"), True)]


def _nested_files(um, uo, ui, own):
    return {
        "y.f90": ["module y_base", "type t", "integer :: c", "end type t", "end module y_base"],
        "z.f90": ["module z_facade", "use y_base", "end module z_facade"],
        # named so that it is read FIRST: only the dependency order makes it correlate after z_facade
        "a.f90": ["module a_user", um, own[0], own[1], own[2], "contains", "subroutine outer()", uo, "contains",
                  "subroutine inner()", ui, "type(t) :: v", "end subroutine inner", "end subroutine outer", "end module a_user"],
    }


def nested_rule(um, uo, ui, own):
    if um or uo or ui:
        return ("y_base", "t") if (ui or uo or um) else None
    return ("a_user", "t") if own else None


def nested_rule2(um, uo, ui, own):
    """innermost scope with a declaration of t wins: use association in inner/outer/module scope hides ... the module's own t only
    when the USE stands in a scope nested inside the module (a module cannot both declare t and use-associate t)"""
    if ui or uo:
        return ("y_base", "t")
    if um:
        return ("y_base", "t")
    return ("a_user", "t") if own else None


def _nested_observe(p):
    a = [m for m in p.modules if _choice_true(m.name, "a_user")][0]
    inner = a.subroutines[0].subroutines[0]
    vs = list(inner.variables)
    return vs[0].proto[0] if len(vs) == 1 else "MISSING"


def _choice_true(name, want):
    r = choice.apply(lambda n: str(n).lower() == want, name)
    return r is True


def replay_nested(w):
    p = parserh.project_concrete(_nested_files(*w["slots"]), **SETTINGS)
    got = _resolved(_nested_observe(p))
    got = list(got) if got else None
    return got != w["expected"], {"files": _nested_files(*w["slots"]), "ford": got, "fortran_scoping": w["expected"]}


@obligation("C07", "P3.use-in-nested-scopes", engine="SX(CV)", timeout=1800)
def nested(ctx):
    """`type(t)` inside an internal procedure: a USE of a re-exporting module in the internal procedure, its host procedure or the
    module makes the re-exported type visible there, whichever file is read first"""
    import ford.sourceform as sf
    import ford.fortran_project as fp

    ctx.encode_fn(fp.Project.correlate)
    ctx.encode_fn(sf.FortranCodeUnit.correlate)
    ctx.bounds.update({"use placements": "module / host procedure / internal procedure, each absent or in 2 spellings", "own type": "yes/no"})

    def h(E):
        um = CV.choice(E, "um", USE_Z)
        uo = CV.choice(E, "uo", USE_Z)
        ui = CV.choice(E, "ui", USE_Z)
        own = CV.choice(E, "own", OWN_T)
        # a module that use-associates t cannot declare its own t
        E.assume(choice.apply(lambda a, b: not (a and b), um[1], own[1]))
        E.e.snapshot = lambda m: {"slots": [choice.value_in_model(m, um)[0], choice.value_in_model(m, uo)[0], choice.value_in_model(m, ui)[0],
                                            list(choice.value_in_model(m, own)[0])],
                                  "expected": (lambda r: list(r) if r else None)(choice.value_in_model(m, h.want))}
        h.want = choice.apply(nested_rule2, um[1], uo[1], ui[1], own[1])
        p = parserh.project(_nested_files(um[0], uo[0], ui[0], own[0]), **SETTINGS)
        got = _nested_observe(p)
        E.reachable("correlated")
        E.require(choice.apply(lambda g, w_: _resolved(g) == w_, got, h.want), "type reached through a USE in a nested scope resolved wrongly")

    E = sym.Engine(ctx, max_paths=50000, incremental=True)
    found = E.explore(h)
    seen = set()
    for (label, m, pc), snap in zip(found, E.snapshots):
        if label in seen:
            continue
        seen.add(label)
        ctx.report(label, snap, replay_nested)
    if E.reached.get("correlated"):
        ctx.twins += 1
    else:
        ctx.inconclusive.append("vacuity: correlate never completed")
    ctx.sample({"paths": E.paths})


# ---------------------------------------------------------------------------------------
# P4: the target of a type-bound procedure binding
# ---------------------------------------------------------------------------------------
BINDS7 = [("procedure :: area => helper", "helper"), ("procedure :: area", "area"), ("PROCEDURE :: AREA => HELPER", "helper"),
          ("procedure, nopass :: area => Helper", "helper"), ("procedure :: area => nowhere", None),
          # a deferred binding has no target, whatever else is called `area` in the module
          ("procedure(area_iface), deferred :: area", None), ("PROCEDURE(AREA_IFACE), DEFERRED :: AREA", None),
          ("procedure(area_iface), deferred, nopass :: area", None)]


def _bind_program(b):
    return ["module m", "type, abstract :: shape", "integer :: c", "contains", b, "end type shape",
            "abstract interface", "subroutine area_iface()", "end subroutine area_iface", "end interface",
            "contains", "subroutine area()", "end subroutine area", "subroutine helper()", "end subroutine helper", "end module m"]


def _observe_bind(p):
    m = p.modules[0]
    t = m.types[0]
    bp = list(t.boundprocs)
    if len(bp) != 1:
        return "MISSING", None
    tgt = list(bp[0].bindings)
    claimed = [str(s.name).lower() for s in m.subroutines if getattr(s, "binding", None)]
    return (tgt[0] if tgt else None), claimed


def replay_bind7(w):
    p = parserh.project_concrete({"a.f90": _bind_program(w["binding"])}, **SETTINGS)
    tgt, claimed = _observe_bind(p)
    got = _res2(tgt)
    want = ("m", w["target"]) if w["target"] else None
    ok_claim = claimed == ([w["target"]] if w["target"] else [])
    return (list(got) if got else None) != (list(want) if want else None) or not ok_claim, {
        "binding": w["binding"], "ford_target": got, "fortran_target": want, "procedures reported as type-bound": claimed}


@obligation("C07", "P4.binding-targets", engine="SX(CV)", timeout=900)
def binding_targets(ctx):
    """type-bound procedure statement with symbolic spelling: a specific binding links to the module procedure it names (case-insensitively),
    an unknown name stays text, a DEFERRED binding has no target even when a procedure of the same name exists; only the target is
    reported as type-bound"""
    import ford.sourceform as sf

    ctx.encode_fn(sf.FortranBoundProcedure.correlate)
    ctx.encode_fn(sf.FortranBoundProcedure._initialize)
    ctx.bounds.update({"binding spellings": len(BINDS7)})

    def h(E):
        b = CV.choice(E, "binding", BINDS7)
        E.e.snapshot = lambda m: {"binding": choice.value_in_model(m, b)[0], "target": choice.value_in_model(m, b)[1]}
        tgt, claimed = parserh.project({"a.f90": _bind_program(b[0])}, post=_observe_bind, **SETTINGS)
        E.reachable("correlated")
        E.require(choice.apply(lambda g, w_: _res2(g) == (("m", w_) if w_ else None), tgt, b[1]), "binding resolved to the wrong target")
        E.require(choice.apply(lambda w_: (claimed or []) == ([w_] if w_ else []), b[1]), "a procedure that is not the binding's target is reported as type-bound")

    E = sym.Engine(ctx, max_paths=2000, incremental=True)
    found = E.explore(h)
    seen = set()
    for (label, m, pc), snap in zip(found, E.snapshots):
        if label in seen or not snap:
            continue
        seen.add(label)
        ctx.report(label, snap, replay_bind7)
    if E.reached.get("correlated"):
        ctx.twins += 1
    else:
        ctx.inconclusive.append("vacuity: correlate never completed")
    ctx.sample({"paths": E.paths})


# ---------------------------------------------------------------------------------------
# P5: interface name of a procedure pointer / dummy procedure when an abstract interface of the host and a procedure of an
# inner scope share a name: the innermost declaration wins (F2008 16.5.1.4 host association)
# ---------------------------------------------------------------------------------------
PP_REFS = [("procedure(hook), pointer :: pp", "hook"), ("PROCEDURE(HOOK), POINTER :: PP", "hook"), ("procedure(modonly), pointer :: pp", "modonly"),
           ("procedure(nowhere), pointer :: pp", "nowhere"), ("integer :: pp", None)]


def _pp_program(ra, rb, rz, rd="integer :: pp"):
    return ["module m", "abstract interface", "subroutine hook(n)", "integer :: n", "end subroutine hook", "end interface", rz, "contains",
            "subroutine sa()", ra, "contains", "subroutine hook(x)", "real :: x", "end subroutine hook", "end subroutine sa",
            "subroutine sb()", rb, "end subroutine sb", "subroutine modonly()", "end subroutine modonly",
            # a dummy procedure named like a module procedure, described by an interface block: the innermost declaration of that name
            "subroutine sd(modonly)", "interface", "subroutine modonly(k)", "integer :: k", "end subroutine modonly", "end interface", rd,
            "end subroutine sd", "end module m"]


def pp_rule(scope, name):
    if name is None:
        return None
    if scope == "sa" and name == "hook":
        return ("sa", "hook", "FortranSubroutine")          # the internal procedure hides the host's abstract interface
    if scope == "sd" and name == "modonly":
        return ("sd", "modonly", "dummy argument")          # the dummy procedure hides the module procedure
    if name == "hook":
        return ("m", "hook", "absinterface")
    if name == "modonly":
        return ("m", "modonly", "FortranSubroutine")
    return None


def _pp_res(x):
    return x


def _pp_observe(p):
    m = p.modules[0]
    sa, sb = m.subroutines[0], m.subroutines[1]
    sd = [x for x in m.subroutines if str(x.name).lower() == "sd"][0]
    def proto(vs):
        vs = [v for v in vs if choice.apply(lambda n: str(n).lower(), v.name) == "pp"]
        if len(vs) != 1:
            return "MISSING"
        pr = getattr(vs[0], "proto", None)
        return pr[0] if pr else None
    absint = []
    for ai in m.absinterfaces:
        absint.append(ai)
        if getattr(ai, "procedure", None) is not None:
            absint.append(ai.procedure)

    def res(x):
        if isinstance(x, str) or x is None or x == "MISSING":
            return None if x != "MISSING" else "MISSING"
        if any(x is a_ for a_ in absint):
            return ("m", str(x.name).lower(), "absinterface")
        # the dummy procedure itself, or the interface body that describes it
        if any(x is a_ or getattr(x, "procedure", None) is a_ for a_ in (getattr(getattr(x, "parent", None), "args", None) or [])):
            return (_decl_scope(x), str(x.name).lower(), "dummy argument")
        return (_decl_scope(x), str(x.name).lower(), type(x).__name__)
    return {"sa.pp": choice.apply(res, proto(sa.variables)), "sb.pp": choice.apply(res, proto(sb.variables)), "m.pp": choice.apply(res, proto(m.variables)),
            "sd.pp": choice.apply(res, proto(sd.variables))}


def replay_pp(w):
    p = parserh.project_concrete({"a.f90": _pp_program(*w["slots"])}, **SETTINGS)
    obs = _pp_observe(p)
    got = {k: (list(_pp_res(v)) if _pp_res(v) else None) for k, v in obs.items()}
    return got != w["expected"], {"program": _pp_program(*w["slots"]), "ford": got, "fortran_scoping": w["expected"]}


@obligation("C07", "P5.procedure-pointer-interface-names", engine="SX(CV)", timeout=900)
def pp_names(ctx):
    """procedure(NAME) declarations in a module procedure that has an internal procedure NAME, in its sibling and in the module, where the
    module also declares an abstract interface NAME: the internal procedure wins inside its host procedure, the abstract interface elsewhere"""
    import ford.sourceform as sf

    ctx.encode_fn(sf.FortranVariable.correlate)
    ctx.encode_fn(sf.FortranCodeUnit.correlate)
    ctx.bounds.update({"reference spellings": len(PP_REFS)})

    def h(E):
        ra = CV.choice(E, "ra", PP_REFS)
        rb = CV.choice(E, "rb", PP_REFS)
        rz = CV.choice(E, "rz", PP_REFS)
        rd = CV.choice(E, "rd", PP_REFS)
        want = {"sa.pp": choice.apply(lambda n: pp_rule("sa", n), ra[1]), "sb.pp": choice.apply(lambda n: pp_rule("sb", n), rb[1]),
                "m.pp": choice.apply(lambda n: pp_rule("m", n), rz[1]), "sd.pp": choice.apply(lambda n: pp_rule("sd", n), rd[1])}
        E.e.snapshot = lambda m: {"slots": [choice.value_in_model(m, x)[0] for x in (ra, rb, rz, rd)],
                                  "expected": {k: (list(choice.value_in_model(m, v)) if choice.value_in_model(m, v) else None) for k, v in want.items()}}
        obs = parserh.project({"a.f90": _pp_program(ra[0], rb[0], rz[0], rd[0])}, post=_pp_observe, **SETTINGS)
        E.reachable("correlated")
        for k in want:
            E.require(choice.apply(lambda g, w_: _pp_res(g) == w_, obs[k], want[k]), f"{k}: interface resolved to the wrong entity")

    E = sym.Engine(ctx, max_paths=20000, incremental=True)
    found = E.explore(h)
    seen = set()
    for (label, m, pc), snap in zip(found, E.snapshots):
        if label in seen or not snap:
            continue
        seen.add(label)
        ctx.report(label, snap, replay_pp)
    if E.reached.get("correlated"):
        ctx.twins += 1
    else:
        ctx.inconclusive.append("vacuity: correlate never completed")
    ctx.sample({"paths": E.paths})
