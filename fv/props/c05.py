"""C05 — the site documents exactly the entities selected by the display options (kernel)."""
import z3

from fv import sym, standins as S
from fv.core import obligation
from fv.props import META

META["C05"] = {
    "explanation": "Kernel of C05: the real prune methods (FortranCodeUnit.prune, FortranType.prune, FortranBlockData.prune) "
    "with the real filter_display/_should_display/iterator, and the real _set_display, are executed symbolically on stand-in "
    "entities for EVERY combination of display subset, hide_undoc, proc_internals, child permission and documented-or-not: "
    "a child is kept iff it is selected; `visible` is set and prune() recurses exactly on the kept children that own pages.",
    "outside": ["rendered HTML / search index (absence of tracer words)", "graph nodes and links to hidden entities",
                "more than two children per list (children are treated independently by the code)"],
    "assumptions": ["stand-ins created with object.__new__(RealClass); attributes the methods read are symbolic"],
}

PERMS = ["public", "private", "protected"]


class Child:
    def __init__(self, E, name):
        self.name = name
        self.permission = S.enum_str(E, name + "_perm", PERMS)
        self.documented = z3.Bool(name + "_doc")
        self.doc_list = S.SymTruthy(self.documented)
        self.visible = False
        self.pruned = 0

    def prune(self):
        self.pruned += 1


def _standin(E, cls, lists, nchild, obj):
    import ford.sourceform as sf

    o = object.__new__(cls)
    o.obj = obj
    o.settings = S.Rec(hide_undoc=E.boolean("hide_undoc"))
    o.meta = S.Rec(proc_internals=E.boolean("proc_internals"))
    o.display = S.SymSubset(E, "display", PERMS)
    kids = {}
    for l in lists:
        kids[l] = [Child(E, f"{l}{i}") for i in range(nchild.get(l, 0))]
        setattr(o, l, list(kids[l]))
    return o, kids


def _witness(E, m, o, kids):
    return {
        "cls": type(o).__name__, "obj": o.obj,
        "hide_undoc": E.model_value(m, o.settings.hide_undoc), "proc_internals": E.model_value(m, o.meta.proc_internals),
        "display": o.display.value(m),
        "children": {l: [{"permission": S.enum_value(m, c.permission),
                          "documented": z3.is_true(m.eval(c.documented, model_completion=True))} for c in cs]
                     for l, cs in kids.items()},
    }


ALL_LISTS = ["functions", "subroutines", "types", "interfaces", "absinterfaces", "variables", "modprocedures",
             "modsubroutines", "modfunctions", "boundprocs", "common", "enums", "namelists"]
PAGE_KINDS = {"functions", "subroutines", "types", "modprocedures", "modfunctions", "modsubroutines", "interfaces",
              "absinterfaces", "boundprocs"}
RECURSE_KINDS = {"functions", "subroutines", "types", "modprocedures", "modfunctions", "modsubroutines"}


def replay_prune(w):
    """Build the same stand-in with concrete values, run the real prune natively, compare with
    the selection rule."""
    import ford.sourceform as sf

    cls = getattr(sf, w["cls"])
    o = object.__new__(cls)
    o.obj = w["obj"]
    o.settings = S.Rec(hide_undoc=w["hide_undoc"])
    o.meta = S.Rec(proc_internals=w["proc_internals"])
    o.display = list(w["display"])
    kids = {}

    class C:
        def __init__(self, d):
            self.permission, self.doc_list, self.visible, self.pruned = d["permission"], (["x"] if d["documented"] else []), False, 0

        def prune(self):
            self.pruned += 1

    for l, cs in w["children"].items():
        kids[l] = [C(d) for d in cs]
        setattr(o, l, list(kids[l]))
    o.prune()
    bad = []
    internals_off = w["obj"] == "proc" and not w["proc_internals"] and issubclass(cls, sf.FortranCodeUnit)
    for l, cs in kids.items():
        after = getattr(o, l)
        for c in cs:
            sel = (not (w["hide_undoc"] and not c.doc_list)) and c.permission in w["display"]
            if l in FILTERED.get(w["cls"], ()) or internals_off and l in CLEARED:
                want = sel and not (internals_off and l in CLEARED)
                if (c in after) != want:
                    bad.append((l, c.permission, bool(c.doc_list), "kept" if c in after else "dropped"))
                if l in PAGE_KINDS and c.visible != (c in after):
                    bad.append((l, "visible", c.visible))
                if l in RECURSE_KINDS and (c.pruned > 0) != (c in after):
                    bad.append((l, "prune-recursion", c.pruned))
    return bool(bad), {"violations": bad[:5], "witness": w}


CLEARED = {"functions", "subroutines", "types", "interfaces", "absinterfaces", "variables"}
FILTERED = {
    "FortranModule": {"functions", "subroutines", "types", "interfaces", "absinterfaces", "variables"},
    "FortranSubmodule": {"functions", "subroutines", "types", "interfaces", "absinterfaces", "variables", "modprocedures",
                         "modsubroutines", "modfunctions"},
    "FortranSubroutine": {"functions", "subroutines", "types", "interfaces", "absinterfaces", "variables"},
    "FortranProgram": {"functions", "subroutines", "types", "interfaces", "absinterfaces", "variables"},
    "FortranFunction": {"functions", "subroutines", "types", "interfaces", "absinterfaces", "variables"},
    "FortranModuleProcedureImplementation": {"functions", "subroutines", "types", "interfaces", "absinterfaces", "variables"},
    "FortranType": {"boundprocs", "variables"},
    "FortranBlockData": {"types", "variables"},
}


_SAMPLE = """module m
type t
integer :: c
end type t
interface
module subroutine ms()
end subroutine ms
end interface
contains
subroutine s()
end subroutine s
function f()
end function f
end module m
submodule (m) sm
contains
module procedure ms
end procedure ms
end submodule sm
program p
end program p
block data bd
integer :: q
end block data bd
"""
_OBJ = {}


def real_obj(clsname):
    """the `obj` tag the real constructors give to instances of the class (read off a real parse)"""
    if not _OBJ:
        from fv import cascade

        f = cascade.parse_source(_SAMPLE)
        stack = [f]
        while stack:
            e = stack.pop()
            _OBJ.setdefault(type(e).__name__, getattr(e, "obj", None))
            for l in ("modules", "submodules", "programs", "blockdata", "subroutines", "functions", "types", "modprocedures"):
                stack.extend(getattr(e, l, []) or [])
    return _OBJ.get(clsname)


def _prune_ob(clsname, obj, lists, nchild_q, nchild_t):
    @obligation("C05", f"O2.prune.{clsname}", engine="SX", timeout=1800)
    def ob(ctx):
        import ford.sourceform as sf

        cls = getattr(sf, clsname)
        robj = real_obj(clsname)
        if robj is None:
            ctx.inconclusive.append(f"cannot obtain a real {clsname} instance to read its `obj` tag")
            return
        obj_ = robj
        ctx.encode_fn(cls.prune, clsname + ".prune")
        ctx.encode_fn(sf.FortranBase._should_display)
        ctx.encode_fn(sf.FortranBase.filter_display)
        ctx.encode_fn(sf.FortranBase.iterator)
        nchild = nchild_t if ctx.thorough else nchild_q
        ctx.bounds.update({"children_per_list": nchild, "display": "every subset of public/private/protected",
                           "hide_undoc": "both", "proc_internals": "both"})
        ctx.stubs.append("children are recorders with symbolic permission / documented flag; their prune() counts calls")
        filtered = FILTERED[clsname]

        def h(E):
            o, kids = _standin(E, cls, lists, nchild, obj_)
            h.state = (o, kids)
            internals_off = z3.BoolVal(False)
            if obj_ == "proc" and issubclass(cls, sf.FortranCodeUnit):
                internals_off = z3.Not(sym.bterm(o.meta.proc_internals))
            o.prune()
            E.reachable("pruned")
            for l, cs in kids.items():
                after = getattr(o, l)
                for c in cs:
                    sel = z3.And(z3.Or(z3.Not(sym.bterm(o.settings.hide_undoc)), c.documented),
                                 o.display.contains_t(c.permission))
                    if l in CLEARED:
                        sel = z3.And(sel, z3.Not(internals_off))
                    kept = any(x is c for x in after)
                    if l in filtered:
                        E.require(sym.mk_bool(sel == z3.BoolVal(kept)), f"{l}: kept != selected")
                    if kept:
                        E.reachable("kept")
                    else:
                        E.reachable("dropped")
                    if l in PAGE_KINDS and l in filtered:
                        E.require(sym.mk_bool(z3.BoolVal(bool(c.visible) == kept)), f"{l}: visible != kept")
                    if l in RECURSE_KINDS and l in filtered:
                        E.require(sym.mk_bool(z3.BoolVal((c.pruned > 0) == kept)), f"{l}: prune() recursion != kept")

        E = sym.Engine(ctx, max_paths=20000)
        found = E.explore(h)
        seen = set()
        for label, m, pc in found:
            if label in seen:
                continue
            seen.add(label)
            ctx.report(label, _witness(E, m, *h.state), replay_prune)
        for nm in ("kept", "dropped"):
            if not E.reached.get(nm):
                ctx.inconclusive.append(f"vacuity: no path with a {nm} child")
            else:
                ctx.twins += 1
        ctx.sample({"class": clsname, "lists": lists, "paths": E.paths})

    ob.__doc__ = f"{clsname}.prune keeps exactly the selected children, sets visible and recurses exactly on them"


CU = ["functions", "subroutines", "types", "interfaces", "absinterfaces", "variables"]
_prune_ob("FortranModule", "module", CU, {l: 1 for l in CU}, {"functions": 2, "subroutines": 1, "types": 1, "interfaces": 1, "absinterfaces": 1, "variables": 2})
_prune_ob("FortranSubroutine", "proc", CU, {l: 1 for l in CU}, {"functions": 2, "subroutines": 1, "types": 1, "interfaces": 1, "absinterfaces": 1, "variables": 2})
_prune_ob("FortranProgram", "program", CU, {l: 1 for l in CU}, {"functions": 1, "subroutines": 2, "types": 1, "interfaces": 1, "absinterfaces": 1, "variables": 2})
_prune_ob("FortranFunction", "proc", CU, {"functions": 1, "types": 1, "variables": 1}, {l: 1 for l in CU})
_prune_ob("FortranModuleProcedureImplementation", "proc", CU, {"subroutines": 1, "types": 1, "variables": 1}, {l: 1 for l in CU})
SM = CU + ["modprocedures", "modsubroutines", "modfunctions"]
_prune_ob("FortranSubmodule", "submodule", SM, {l: 1 for l in ["functions", "types", "variables", "modprocedures", "modsubroutines", "modfunctions"]},
          {l: 1 for l in SM if l != "absinterfaces"})
_prune_ob("FortranType", "type", ["boundprocs", "variables"], {"boundprocs": 2, "variables": 2}, {"boundprocs": 3, "variables": 3})
_prune_ob("FortranBlockData", "blockdata", ["types", "variables"], {"types": 2, "variables": 2}, {"types": 3, "variables": 3})


# ---------------------------------------------------------------------------------------
WORDS = ["public", "private", "protected", "none", "other", "PUBLIC", "None"]


def replay_set_display(w):
    import ford.sourceform as sf

    cls = sf.FortranSourceFile if w["is_file"] else sf.FortranModule
    o = object.__new__(cls)
    o.parent = S.Rec(display=list(w["parent_display"])) if w["has_parent"] else None
    o.display = list(w["own_display"])
    o.meta = S.Rec(display=list(w["meta_display"]))
    o._set_display()
    W = [x.lower() for x in w["meta_display"]]
    if w["is_file"]:
        W = [x for x in W if x != "none"]
    inherited = w["parent_display"] if w["has_parent"] else w["own_display"]
    if "none" in W:
        want = set()
    elif not (set(W) & set(PERMS)):
        want = set(inherited)
    else:
        want = set(W) & set(PERMS)
    got = set(x for x in o.display if x in PERMS)
    return got != want, {"ford": sorted(got), "documented_rule": sorted(want), "witness": w}


def _set_display_ob(nwords):
    @obligation("C05", f"O1.set-display.{nwords}-words", engine="SX", timeout=900)
    def ob(ctx):
        import ford.sourceform as sf

        ctx.encode_fn(sf.FortranBase._set_display)
        ctx.bounds.update({"meta.display words": nwords, "vocabulary": WORDS, "parent": "present/absent", "file": "yes/no"})

        for is_file in (False, True):
            for has_parent in (False, True):
                def h(E, is_file=is_file, has_parent=has_parent):
                    cls = sf.FortranSourceFile if is_file else sf.FortranModule
                    o = object.__new__(cls)
                    pd = S.SymSubset(E, "pdisp", PERMS)
                    od = S.SymSubset(E, "odisp", PERMS)
                    o.parent = S.Rec(display=pd) if has_parent else None
                    o.display = od
                    words = [S.enum_str(E, f"w{i}", WORDS) for i in range(nwords)]
                    o.meta = S.Rec(display=list(words))
                    h.state = (words, pd, od)
                    o._set_display()
                    E.reachable("done")
                    low = [x.lower() for x in words]
                    has = lambda w_: z3.Or(*[x.eq_t(w_) for x in low]) if low else z3.BoolVal(False)
                    none_ = z3.BoolVal(False) if is_file else has("none")
                    anyperm = z3.Or(*[has(p) for p in PERMS])
                    inh = pd if has_parent else od
                    for p in PERMS:
                        want = z3.If(none_, z3.BoolVal(False), z3.If(anyperm, has(p), inh.member[p]))
                        d = o.display
                        if isinstance(d, S.SymSubset):
                            got = d.member[p]
                        else:
                            got = z3.Or(*[sym.SymStr.lift(x).eq_t(p) for x in d]) if d else z3.BoolVal(False)
                        E.require(sym.mk_bool(got == want), f"display membership of '{p}' differs from the documented rule")

                E = sym.Engine(ctx, max_paths=5000)
                found = E.explore(h)
                for label, m, pc in found[:2]:
                    words, pd, od = h.state
                    ctx.report(label, {"is_file": is_file, "has_parent": has_parent, "meta_display": [S.enum_value(m, x) for x in words],
                                       "parent_display": pd.value(m), "own_display": od.value(m)}, replay_set_display)
                if E.reached.get("done"):
                    ctx.twins += 1
                else:
                    ctx.inconclusive.append("vacuity: _set_display never completed")
        ctx.sample({"function": "_set_display", "words": nwords})

    ob.__doc__ = f"_set_display with {nwords} metadata words: `none` empties (ignored for files), unknown words inherit, else override"


for _n in (0, 1, 2):
    _set_display_ob(_n)


# ---------------------------------------------------------------------------------------
@obligation("C05", "O4.links-only-to-visible-entities", engine="SX", timeout=300)
def links_visible(ctx):
    """FortranBase.__str__ (what templates print for an entity) and graph nodes give a hyperlink iff the entity is visible and has a URL"""
    import ford.sourceform as sf
    import ford.graphs as gr

    ctx.encode_fn(sf.FortranBase.__str__)
    ctx.encode_fn(gr.BaseNode.__init__)

    def h(E):
        vis = E.boolean("visible")
        has_url = E.boolean("has_url")
        o = object.__new__(sf.FortranSubroutine)
        o.name = "target"
        o.visible = vis
        o.parent = None
        o.obj = "proc"
        if has_url:
            o.external_url = "https://example.org/proc/target.html"
            E.reachable("with-url")
        text = sf.FortranBase.__str__(o)
        E.reachable("printed")
        linked = "<a " in text and "href" in text
        want = z3.And(sym.bterm(vis), z3.BoolVal(bool(has_url)))
        E.require(sym.mk_bool(z3.BoolVal(linked) == want), "entity printed as a link although hidden (or as text although visible)")
        # graph node for the same entity
        gd = S.Rec(parent_dir="", show_proc_parent=False)
        n = object.__new__(gr.BaseNode)
        n.attribs = {}
        try:
            gr.BaseNode.__init__(n, o if not has_url else str.__str__("<a href='https://example.org/x.html'>target</a>"), gd)
        except Exception:  # noqa
            return
        E.reachable("node")

    E = sym.Engine(ctx, max_paths=200, incremental=True)
    found = E.explore(h)
    seen = set()
    for label, m, pc in found:
        if label in seen:
            continue
        seen.add(label)
        ctx.report(label, {"visible": z3.is_true(m.eval(z3.Bool("visible"), model_completion=True)),
                           "has_url": z3.is_true(m.eval(z3.Bool("has_url"), model_completion=True))}, replay_links_visible)
    for nm in ("printed", "with-url"):
        if E.reached.get(nm):
            ctx.twins += 1
        else:
            ctx.inconclusive.append(f"vacuity: {nm}")
    ctx.sample({"cases": "visible x has_url"})


def replay_links_visible(w):
    import ford.sourceform as sf

    o = object.__new__(sf.FortranSubroutine)
    o.name, o.visible, o.parent, o.obj = "target", w["visible"], None, "proc"
    if w["has_url"]:
        o.external_url = "https://example.org/proc/target.html"
    text = sf.FortranBase.__str__(o)
    linked = "<a " in text
    return linked != (w["visible"] and w["has_url"]), {"printed": text, "visible": w["visible"], "has_url": w["has_url"]}


# ---------------------------------------------------------------------------------------
# O5: composition — the real parser, correlate() and prune on a symbolic project: what stays listed is exactly what the
# `display` setting selects, with the accessibility Fortran's rules give each entity
# ---------------------------------------------------------------------------------------
from fv import parserh as _parserh, choice as _choice  # noqa: E402
from fv.choice import CV as _CV  # noqa: E402

DISPLAYS = [["public"], ["public", "protected"], ["private"], ["protected"], ["public", "private", "protected"], ["private", "protected"]]
D0 = [("implicit none", "public"), ("private", "private"), ("PRIVATE", "private"), ("public", "public")]
SB_ACC = [("implicit none", None), ("private :: sb", "private"), ("public :: sb", "public"), ("PRIVATE SB", "private")]


VC_SPELL = ["integer, private :: vc", "integer, PRIVATE :: vc", "INTEGER, Private, save :: vc", "integer,private::vc"]
VD_SPELL = ["integer, protected :: vd", "integer, PROTECTED :: vd", "real, Protected :: vd"]


def _o5_files(d0, sbacc, vc="integer, private :: vc", vd="integer, protected :: vd"):
    return {
        "a.f90": ["module shapes_m", d0, sbacc,
                  "integer :: va", "integer, public :: vb", vc, vd,
                  "type ta", "integer :: c", "end type ta", "type, private :: tb", "integer :: c", "end type tb",
                  "type, public :: tc", "integer :: c", "end type tc",
                  "type, private, extends(ta) :: td", "integer :: d", "end type td", "type, extends(ta), public :: te", "integer :: e", "end type te",
                  "type, abstract, private :: tf", "integer :: f", "end type tf",
                  "interface", "module subroutine ms()", "end subroutine ms", "end interface",
                  "contains", "subroutine sa()", "end subroutine sa", "subroutine sb()", "end subroutine sb",
                  "end module shapes_m"],
        "b.f90": ["submodule (shapes_m) shapes_impl", "real :: cached", "integer, parameter :: kk = 1",
                  "type tsub", "integer :: c", "end type tsub",
                  "contains", "module subroutine ms()", "end subroutine ms", "subroutine helper()", "end subroutine helper",
                  "end submodule shapes_impl"],
    }


def o5_expected(default, sbacc, display):
    """names that stay listed per container list (F2008 5.3.2: explicit attribute/statement, else the module default; nothing
    declared in a submodule is accessible from outside: private)"""
    acc = {"va": default, "vb": "public", "vc": "private", "vd": "protected", "ta": default, "tb": "private", "tc": "public", "td": "private", "te": "public", "tf": "private",
           "sa": default, "sb": sbacc or default}
    keep = lambda names: sorted(n for n in names if acc[n] in display)
    sub = lambda names: sorted(names) if "private" in display else []
    return {"module.variables": keep(["va", "vb", "vc", "vd"]), "module.types": keep(["ta", "tb", "tc", "td", "te", "tf"]),
            "module.subroutines": keep(["sa", "sb"]),
            "submodule.variables": sub(["cached", "kk"]), "submodule.types": sub(["tsub"]), "submodule.subroutines": sub(["helper"])}


def _o5_observe(p):
    m = [x for x in p.modules if str(x.name).lower() == "shapes_m"][0]
    s = p.submodules[0]
    nm = lambda lst: sorted(str(e.name).lower() for e in lst)
    return {"module.variables": nm(m.variables), "module.types": nm(m.types), "module.subroutines": nm(m.subroutines),
            "submodule.variables": nm(s.variables), "submodule.types": nm(s.types), "submodule.subroutines": nm(s.subroutines)}


def replay_o5(w):
    import ford.sourceform as sf
    old = sf.namelist
    sf.namelist = sf.NameSelector()
    try:
        p = _parserh.project_concrete(_o5_files(w["d0"], w["sbacc"], w.get("vc", VC_SPELL[0]), w.get("vd", VD_SPELL[0])), display=list(w["display"]), proc_internals=True)
        got = _o5_observe(p)
    finally:
        sf.namelist = old
    diff = {k: (got[k], w["expected"][k]) for k in got if got[k] != w["expected"][k]}
    return bool(diff), {"display": w["display"], "default statement": w["d0"], "access statement": w["sbacc"],
                        "differences (ford keeps, selected by display)": diff}


@obligation("C05", "O5.parsed-project-selection", engine="SX(CV)", timeout=1800)
def parsed_selection(ctx):
    """real parser + correlate + prune on a module and its submodule: for every display setting, module default and access
    statement the entities still listed are exactly those whose Fortran accessibility is selected (submodule contents: private)"""
    import ford.sourceform as sf
    import ford.fortran_project as fp

    ctx.encode_fn(sf.FortranContainer.__init__)
    ctx.encode_fn(sf.FortranCodeUnit.prune)
    ctx.encode_fn(sf.FortranBase.filter_display)
    ctx.encode_fn(sf.FortranBase._set_display)
    ctx.encode_fn(fp.Project.correlate)
    ctx.stubs.append("FortranReader replaced by the symbolic statement lists of two files")
    ctx.bounds.update({"display settings": len(DISPLAYS), "default statements": len(D0), "access statements": len(SB_ACC)})

    def h(E):
        d0 = _CV.choice(E, "d0", D0)
        sb = _CV.choice(E, "sbacc", SB_ACC)
        vc = _CV.choice(E, "vc", VC_SPELL)
        vd = _CV.choice(E, "vd", VD_SPELL)
        disp = _CV.choice(E, "display", list(range(len(DISPLAYS))))
        display = disp.concretize()  # the setting is a list of words handed to ProjectSettings: one path per setting
        want = _choice.apply(lambda a, b: o5_expected(a, b, DISPLAYS[display]), d0[1], sb[1])
        E.e.snapshot = lambda m: {"d0": _choice.value_in_model(m, d0)[0], "sbacc": _choice.value_in_model(m, sb)[0],
                                  "vc": _choice.value_in_model(m, vc), "vd": _choice.value_in_model(m, vd),
                                  "display": DISPLAYS[display], "expected": _choice.value_in_model(m, want)}
        got = _parserh.project(_o5_files(d0[0], sb[0], vc, vd), post=_o5_observe, display=list(DISPLAYS[display]), proc_internals=True)
        E.reachable("pruned")
        for k in sorted(got):
            E.require(_choice.apply(lambda w_, g=got[k], k=k: g == w_[k], want), f"{k}: listed entities differ from the display selection")

    E = sym.Engine(ctx, max_paths=20000, incremental=True)
    found = E.explore(h)
    seen = set()
    for (label, m, pc), snap in zip(found, E.snapshots):
        if label in seen or not snap:
            continue
        seen.add(label)
        ctx.report(label, snap, replay_o5)
    if E.reached.get("pruned"):
        ctx.twins += 1
    else:
        ctx.inconclusive.append("vacuity: project never pruned")
    ctx.sample({"paths": E.paths})


# ---------------------------------------------------------------------------------------
# O6: the entity-level `display` override written in the entity's documentation, in every documented spelling of a multi-valued key
# ---------------------------------------------------------------------------------------
DISPLAY_DOCS = [(["display: private"], ["private"]), (["display: public", "display: private"], ["public", "private"]),
                (["display: public", "    private"], ["public", "private"]), (["Display: public", "display: protected", "display: private"], ["public", "protected", "private"]),
                (["display: public", "    protected"], ["public", "protected"]), (["display: none"], ["none"]), ([], None)]


def _o6_prog(doc):
    return {"a.f90": ["module shapes"] + ["!! " + l for l in doc] + ["!!", "!! The shapes module."] +
            ["integer, public :: vpub", "integer, private :: vpriv", "integer, protected :: vprot",
             # the override is inherited by the contents of the module's contents: components of its types
             "type, public :: tpub", "integer, public :: cpub", "integer, private :: cpriv", "end type tpub",
             "type, private :: tpriv", "integer, public :: dpub", "integer, private :: dpriv", "end type tpriv",
             "end module shapes"]}


def o6_expected(override, project_display):
    sel = project_display if override is None else override
    if "none" in [x.lower() for x in sel]:
        return []
    sel = [x.lower() for x in sel]
    acc = {"vpub": "public", "vpriv": "private", "vprot": "protected", "tpub": "public", "tpriv": "private"}
    comps = {"tpub": {"cpub": "public", "cpriv": "private"}, "tpriv": {"dpub": "public", "dpriv": "private"}}
    out = [n for n, a in acc.items() if a in sel]
    for t, cs in comps.items():
        if acc[t] in sel:
            out.extend(f"{t}%{c}" for c, a in cs.items() if a in sel)
    return sorted(out)


def _o6b_observe(p):
    m = p.modules[0]
    out = [str(v.name).lower() for v in m.variables] + [str(t.name).lower() for t in m.types]
    for t in m.types:
        out.extend(f"{str(t.name).lower()}%{str(c.name).lower()}" for c in t.variables)
    return sorted(out)


def replay_o6b(w):
    import ford.sourceform as sf
    old = sf.namelist
    sf.namelist = sf.NameSelector()
    try:
        p = _parserh.project_concrete(_o6_prog(w["doc"]), display=list(w["project_display"]))
        got = _o6b_observe(p)
    finally:
        sf.namelist = old
    return got != w["expected"], {"documentation lines": w["doc"], "project display": w["project_display"], "variables listed": got,
                                  "selected by the override (or the project setting)": w["expected"]}


@obligation("C05", "O6.display-override-spellings", engine="SX(CV)", timeout=900)
def display_override(ctx):
    """module documentation carrying a `display` override in a symbolic spelling (one value, repeated key, continuation lines, three values,
    none, absent) under a symbolic project setting: the module lists exactly the variables and types, and its types exactly the components, that the override (else the project setting) selects"""
    import ford.sourceform as sf
    import ford.utils as fu

    ctx.encode_fn(fu.meta_preprocessor)
    ctx.encode_fn(sf.FortranBase._set_display)
    ctx.encode_fn(sf.FortranBase.read_metadata)
    ctx.bounds.update({"override spellings": len(DISPLAY_DOCS), "project settings": 2})

    def h(E):
        d = _CV.choice(E, "doc", list(range(len(DISPLAY_DOCS)))).concretize()   # the number of doc lines differs per spelling
        pd = _CV.choice(E, "project_display", [["public", "protected"], ["private"]]).concretize()
        doc, override = DISPLAY_DOCS[d]
        want = o6_expected(override, pd)
        E.e.snapshot = lambda m: {"doc": doc, "project_display": pd, "expected": want}
        got = _parserh.project(_o6_prog(doc), post=_o6b_observe, display=list(pd))
        E.reachable("pruned")
        E.require(list(got) == list(want), "the display override in the documentation is not honoured as written")

    E = sym.Engine(ctx, max_paths=500, incremental=True)
    found = E.explore(h)
    seen = set()
    for (label, m, pc), snap in zip(found, E.snapshots):
        if not snap or str(snap["doc"]) in seen:
            continue
        seen.add(str(snap["doc"]))
        ctx.report(label, snap, replay_o6b)
    if E.reached.get("pruned"):
        ctx.twins += 1
    else:
        ctx.inconclusive.append("vacuity: project never pruned")
    ctx.sample({"paths": E.paths})


# ---------------------------------------------------------------------------------------
# O7: a template that builds an href from the URL of an entity it reaches THROUGH A REFERENCE (proc.module, x.procedure, ...) rather
# than through one of the pruned lists does so only under a guard that implies `<that entity>.visible` (unselected entities have no page)
# ---------------------------------------------------------------------------------------
SUBMOD_PROJECT = {"shapes.f90": [
    "module shapes", "  !! Shapes module", "  implicit none", "  private", "  public :: area, perimeter", "  interface",
    "    module function area(r) result(a)", "      !! Area interface", "      real, intent(in) :: r", "      real :: a", "    end function area",
    "    module subroutine perimeter(r, p)", "      !! Perimeter interface", "      real, intent(in) :: r", "      real, intent(out) :: p",
    "    end subroutine perimeter", "  end interface", "end module shapes", "",
    "submodule (shapes) shapes_impl", "  !! Implementation submodule", "  implicit none", "contains",
    "  module function area(r) result(a)", "    !! Area implementation", "    real, intent(in) :: r", "    real :: a", "    a = 3.14 * r * r", "  end function area",
    "  module procedure perimeter", "    !! Perimeter implementation", "    p = 6.28 * r", "  end procedure perimeter", "end submodule shapes_impl"]}


def _reference_url_sites():
    """[(template, line, expression text, guard, visible-variable)] for every `<chain>.get_url()` whose chain has two or more parts"""
    import os
    import glob
    import ford.output as out
    from jinja2 import nodes

    sites = []
    tdir = os.path.join(os.path.dirname(out.__file__), "templates")
    for path in sorted(glob.glob(os.path.join(tdir, "*.html"))):
        src = open(path).read()
        tree = out.env.parse(src)
        atoms = {}

        def key(e):
            return repr(e)

        def chain(e):
            parts = []
            while isinstance(e, nodes.Getattr):
                parts.append(e.attr)
                e = e.node
            if isinstance(e, nodes.Name):
                parts.append(e.name)
                return list(reversed(parts))
            return None

        def truth(e):
            if isinstance(e, nodes.Not):
                return z3.Not(truth(e.node))
            if isinstance(e, nodes.And):
                return z3.And(truth(e.left), truth(e.right))
            if isinstance(e, nodes.Or):
                return z3.Or(truth(e.left), truth(e.right))
            k = key(e)
            if k not in atoms:
                atoms[k] = z3.Bool(f"{os.path.basename(path)}:atom{len(atoms)}")
            return atoms[k]

        def visit(n, conds):
            if isinstance(n, nodes.If):
                c = truth(n.test)
                for b in n.body:
                    visit(b, conds + [c])
                neg = [z3.Not(c)]
                for el in n.elif_:
                    ce = truth(el.test)
                    for b in el.body:
                        visit(b, conds + neg + [ce])
                    neg.append(z3.Not(ce))
                for b in n.else_:
                    visit(b, conds + neg)
                return
            if isinstance(n, nodes.CondExpr):
                c = truth(n.test)
                visit(n.expr1, conds + [c])
                if n.expr2 is not None:
                    visit(n.expr2, conds + [z3.Not(c)])
                return
            if isinstance(n, nodes.Call) and isinstance(n.node, nodes.Getattr) and n.node.attr == "get_url":
                ch = chain(n.node.node)
                if ch is not None and len(ch) >= 2:
                    vis = truth(nodes.Getattr(n.node.node, "visible", "load"))
                    sites.append((os.path.basename(path), n.lineno, ".".join(ch) + ".get_url()", z3.And(*conds) if conds else z3.BoolVal(True), vis))
            for c in n.iter_child_nodes():
                visit(c, conds)

        visit(tree, [])
    return sites


def replay_reference_url(w):
    import shutil
    from fv import fordrun
    files = {k: "\n".join(v) + "\n" for k, v in SUBMOD_PROJECT.items()}
    d, outdir, rc, log = fordrun.run_ford(files, {"search": "false", "graph": "false"})
    try:
        broken = fordrun.broken_links(outdir) if rc == 0 else [("ford failed", log[-300:])]
    finally:
        shutil.rmtree(d, ignore_errors=True)
    return bool(broken), {"project": "module with separate module procedures implemented in a submodule, default display (the implementations are not selected)",
                          "links to pages that are not generated": broken[:6]}


@obligation("C05", "O7.reference-urls-guarded-by-visible", engine="JX", timeout=300)
def reference_urls(ctx):
    """every template expression `<a>.<b>....get_url()` (the URL of an entity reached through a reference, not through a pruned list):
    its guard implies `<a>.<b>....visible`, for every truthiness of the other operands"""
    sites = _reference_url_sites()
    ctx.encode_text("templates/*.html get_url sites", "\n".join(f"{t}:{l} {e}" for t, l, e, _, _ in sites), "jinja-template")
    ctx.bounds.update({"sites": len(sites), "operands": "every truthiness"})
    if not sites:
        ctx.inconclusive.append("no `<chain>.get_url()` site found in the templates: obligation needs review")
        return
    for tname, line, expr, guard, vis in sites:
        ctx.twin(f"{tname}:{line} {expr} can be reached", [guard])
        r, m = ctx.solve(f"{tname}:{line}: {expr} used ⇒ entity visible", [guard, z3.Not(vis)])
        if r == "sat":
            ctx.report(f"{tname}:{line}: the URL of an entity reached through `{expr[:-10]}` is used although the entity may be unselected",
                       {"site": f"{tname}:{line}", "expression": expr}, replay_reference_url)
    ctx.sample({"sites": [f"{t}:{l} {e}" for t, l, e, _, _ in sites]})
