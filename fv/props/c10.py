"""C10 — distinct entities never share a page, anchor or copied file (kernel: NameSelector)."""
import z3

from fv import sym, patch, standins as S
from fv.core import obligation
from fv.props import META
from fv.sym import SymStr, iv

META["C10"] = {
    "explanation": "Kernel of C10: the real NameSelector.get_name (with the real get_dir) is executed symbolically on two or three "
    "stand-in entities whose names are symbolic strings of every name kind (identifier in any letter case, operator(..), "
    "assignment(=), unnamed): distinct entities in one output directory obtain stems that differ even when compared "
    "case-insensitively, a second request returns the same stem, and the stem contains no path separator.",
    "outside": ["copy of source files into src/<basename> (file-system behaviour)", "names longer than the bound",
                "number of pages written vs. files on disk"],
    "assumptions": ["names are Fortran identifiers, operator(<op>), assignment(=) or empty (what the parser can produce)",
                    "NameSelector._counts is replaced by an association-list dict stand-in with symbolic keys"],
}

OPS = ["<", "<=", ">", ">=", "==", "/=", "+", "-", "*", "/", "**", "//", ".lt.", ".gt.", ".x.", ".LT."]
IDCH = "aAb_1"
OPCH = "<>/*=+."


def _name(E, tag, kind, n):
    if kind == "ident":
        s = E.string(tag, n, alphabet=IDCH, min_len=1)
        E.assume(sym.mk_bool(z3.Or(s.chars[0] == ord("a"), s.chars[0] == ord("A"), s.chars[0] == ord("b"))))
        return s
    if kind == "opname":
        # one of the operator / defined-io generic names the parser can produce, chosen symbolically
        return S.enum_str(E, tag, ["operator(" + o + ")" for o in OPS] + ["assignment(=)", "read(formatted)", "write(formatted)"])
    if kind.startswith("operator"):
        k = int(kind[len("operator"):] or 1)  # operator length is concrete: keeps positions concrete
        op = E.string(tag, k, alphabet=OPCH, min_len=k)
        return SymStr.const("operator(") + op + ")"
    if kind == "assignment":
        return SymStr.const("assignment(=)")
    return SymStr.const("")


def _item(cls, parent, name):
    it = object.__new__(cls)
    it.name = name
    it.parent = parent
    it.obj = {"FortranSubroutine": "proc", "FortranType": "type", "FortranInterface": "interface", "FortranModule": "module"}[cls.__name__]
    return it


def replay_names(w):
    import ford.sourceform as sf

    ns = sf.NameSelector()
    par = object.__new__(sf.FortranModule)
    items = [_item(getattr(sf, c), par, n) for c, n in zip(w["classes"], w["names"])]
    stems = [ns.get_name(i) for i in items]
    again = [ns.get_name(i) for i in items]
    bad = []
    for i in range(len(items)):
        if again[i] != stems[i]:
            bad.append(("unstable", w["names"][i]))
        if "/" in stems[i] or "\\" in stems[i]:
            bad.append(("separator", stems[i]))
        for j in range(i):
            if items[i].get_dir() == items[j].get_dir() and stems[i].lower() == stems[j].lower():
                bad.append(("collision", w["names"][j], w["names"][i], stems[j], stems[i]))
    return bool(bad), {"stems": stems, "violations": bad}


def _pair_ob(kinds, classes):
    nm = "+".join(kinds) + ":" + "+".join(c.replace("Fortran", "") for c in classes)

    @obligation("C10", f"O1.nameselector.{nm}", engine="SX", timeout=1800)
    def ob(ctx):
        import ford.sourceform as sf

        n = 4 if ctx.thorough else 3
        ctx.encode_fn(sf.NameSelector.get_name)
        ctx.encode_fn(sf.FortranBase.get_dir)
        ctx.bounds.update({"entities": len(kinds), "name_length": n, "identifier_alphabet": IDCH, "operator_alphabet": OPCH})

        def h(E):
            ns = sf.NameSelector()
            ns._counts = S.SymDict()
            par = object.__new__(sf.FortranModule)
            names = [_name(E, f"n{i}", k, n) for i, k in enumerate(kinds)]
            items = [_item(getattr(sf, c), par, nmx) for c, nmx in zip(classes, names)]
            h.names = names
            stems = [ns.get_name(i) for i in items]
            again = [ns.get_name(i) for i in items]
            E.reachable("named")
            for i in range(len(items)):
                E.require(sym.mk_bool(SymStr.lift(again[i]).eq_t(stems[i])), "stem not stable on second request")
                E.require(sym.mk_bool(SymStr.lift(stems[i]).find_t("/") == iv(-1)), "stem contains a path separator")
                for j in range(i):
                    if items[i].get_dir() == items[j].get_dir():
                        a, b = SymStr.lift(stems[i]).lower(), SymStr.lift(stems[j]).lower()
                        E.require(sym.mk_bool(z3.Not(a.eq_t(b))), "two entities of one directory share a stem (ignoring case)")

        with patch.patched(sf):
            E = sym.Engine(ctx, max_paths=20000)
            found = E.explore(h)
            seen = set()
            for label, m, pc in found:
                if label in seen:
                    continue
                seen.add(label)
                ctx.report(label, {"names": [(S.enum_value(m, x) if hasattr(x, "enum_index") else E.model_value(m, x))
                                             if isinstance(x, SymStr) else x for x in h.names],
                                   "classes": list(classes)}, replay_names)
            if E.reached.get("named"):
                ctx.twins += 1
            else:
                ctx.inconclusive.append("vacuity: get_name never completed")
        ctx.sample({"kinds": kinds, "classes": classes, "paths": E.paths})

    ob.__doc__ = f"NameSelector: distinct entities ({', '.join(kinds)}) in one directory get distinct stems, also ignoring case"


_pair_ob(("ident", "ident"), ("FortranSubroutine", "FortranSubroutine"))
_pair_ob(("ident", "ident"), ("FortranType", "FortranSubroutine"))
_pair_ob(("operator1", "operator1"), ("FortranInterface", "FortranInterface"))
_pair_ob(("opname", "opname"), ("FortranInterface", "FortranInterface"))
_pair_ob(("opname", "ident"), ("FortranInterface", "FortranInterface"))
_pair_ob(("assignment", "operator1"), ("FortranInterface", "FortranInterface"))
_pair_ob(("empty", "empty"), ("FortranInterface", "FortranInterface"))
_pair_ob(("empty", "ident"), ("FortranInterface", "FortranInterface"))
_pair_ob(("ident", "ident", "ident"), ("FortranSubroutine", "FortranSubroutine", "FortranSubroutine"))


# ---------------------------------------------------------------------------------------
# O1b: equal names across entity classes: whenever the real get_dir() puts two entities in one
# directory they must get different stems (classes paired exhaustively, names symbolic in case)
# ---------------------------------------------------------------------------------------
XCLASSES = ["FortranModule", "FortranSubmodule", "FortranProgram", "FortranSubroutine", "FortranFunction", "FortranType",
            "FortranInterface", "FortranBlockData", "FortranModuleProcedureImplementation"]


def _xitem(sf, clsname, name):
    cls = getattr(sf, clsname)
    it = object.__new__(cls)
    it.name = name
    it.parent = object.__new__(sf.FortranModule)
    from fv.props.c05 import real_obj
    it.obj = real_obj(clsname) or {"FortranInterface": "interface"}.get(clsname, "proc")
    if clsname == "FortranInterface":
        it.generic = True
    return it


def replay_xnames(w):
    import ford.sourceform as sf

    ns = sf.NameSelector()
    a, b = _xitem(sf, w["classes"][0], w["names"][0]), _xitem(sf, w["classes"][1], w["names"][1])
    sa, sb = ns.get_name(a), ns.get_name(b)
    bad = a.get_dir() == b.get_dir() and a.get_dir() is not None and sa.lower() == sb.lower()
    return bad, {"classes": w["classes"], "names": w["names"], "dirs": [a.get_dir(), b.get_dir()], "stems": [sa, sb]}


@obligation("C10", "O1b.same-name-across-classes", engine="SX", timeout=1800)
def xclasses(ctx):
    """for every pair of entity classes: two entities with the same name (any letter case) that the real get_dir()
    places in one directory obtain different stems"""
    import ford.sourceform as sf

    ctx.encode_fn(sf.NameSelector.get_name)
    ctx.encode_fn(sf.FortranBase.get_dir)
    ctx.bounds.update({"class_pairs": len(XCLASSES) ** 2, "names": "solver in 3 letter cases, independently"})
    npairs = 0
    for ca in XCLASSES:
        for cb in XCLASSES:
            def h(E, ca=ca, cb=cb):
                ns = sf.NameSelector()
                ns._counts = S.SymDict()
                na = S.enum_str(E, "na", ["solver", "Solver", "SOLVER"])
                nb = S.enum_str(E, "nb", ["solver", "Solver", "SOLVER"])
                a, b = _xitem(sf, ca, na), _xitem(sf, cb, nb)
                h.state = (na, nb)
                sa, sb = ns.get_name(a), ns.get_name(b)
                E.reachable("named")
                if a.get_dir() is not None and a.get_dir() == b.get_dir():
                    E.reachable("same-dir")
                    x, y = SymStr.lift(sa).lower(), SymStr.lift(sb).lower()
                    E.require(sym.mk_bool(z3.Not(x.eq_t(y))), "two entities of one directory share a stem (ignoring case)")

            with patch.patched(sf):
                E = sym.Engine(ctx, max_paths=2000, incremental=True)
                found = E.explore(h)
                for label, m, pc in found[:1]:
                    na, nb = h.state
                    ctx.report(label, {"classes": [ca, cb], "names": [S.enum_value(m, na), S.enum_value(m, nb)]}, replay_xnames)
                if E.reached.get("same-dir"):
                    npairs += 1
    if npairs < 5:
        ctx.inconclusive.append(f"vacuity: only {npairs} class pairs share a directory")
    else:
        ctx.twins += 1
    ctx.sample({"classes": XCLASSES, "pairs_sharing_a_directory": npairs})


# ---------------------------------------------------------------------------------------
# P1: on a parsed and correlated (symbolic) project, distinct entities have distinct URLs (page or page#anchor)
# ---------------------------------------------------------------------------------------
from fv import choice as _choice, parserh as _parserh  # noqa: E402
from fv.choice import CV as _CV  # noqa: E402

N1 = ["init", "Init", "setup"]
N2 = ["init", "INIT", "solve"]
BODY = ["saxpy", "daxpy", "axpy_impl"]
PSET10 = dict(proc_internals=True, display=["public", "private", "protected"])


def _url_files(n1, n2, b1, b2, tname):
    return {
        "a.f90": ["module mod_a", "interface axpy", f"subroutine {b1}(x)" if isinstance(b1, str) else _choice.apply(lambda b: f"subroutine {b}(x)", b1),
                  "real :: x", "end subroutine", f"subroutine {b2}(x)" if isinstance(b2, str) else _choice.apply(lambda b: f"subroutine {b}(x)", b2),
                  "double precision :: x", "end subroutine", "end interface axpy",
                  _choice.apply(lambda t: f"type {t}", tname), "integer :: init", "contains", "procedure :: run", "end type",
                  # a second type re-using a component name (numbered `init~2`) next to components spelled like numbered names
                  "type pt", "integer :: init", "integer :: init2", "integer :: init_2", "contains", "procedure :: run", "procedure :: run2 => run",
                  "generic :: gen => run", "generic :: operator(+) => run2", "end type",
                  # an extension inherits the bindings (generic ones too): they are shown on ITS page
                  "type, extends(pt) :: pt3", "integer :: z", "end type pt3",
                  "interface operator(+)", "module procedure run", "end interface", "interface operator(==)", "module procedure run", "end interface",
                  "interface operator(=)", "module procedure run", "end interface", "interface assignment(=)", "module procedure run", "end interface",
                  "interface operator(<)", "module procedure run", "end interface", "interface operator(<=)", "module procedure run", "end interface",
                  "interface operator (-)", "module procedure run", "end interface", "interface assignment ( = )", "module procedure run", "end interface",
                  "contains", _choice.apply(lambda n: f"subroutine {n}()", n1), "integer :: init", "contains",
                  "subroutine helper()", "end subroutine helper", "end subroutine",
                  "subroutine run(self)", "class(*) :: self", "end subroutine run", "end module mod_a"],
        "b.f90": ["module mod_b", "contains", _choice.apply(lambda n: f"subroutine {n}()", n2), "end subroutine",
                  "subroutine helper()", "end subroutine helper", "end module mod_b"],
        # separate module procedures implemented in a submodule in both statement forms, named like ordinary procedures elsewhere
        "c.f90": ["module mod_c", "interface", "module subroutine solve()", "end subroutine solve", "module subroutine init()", "end subroutine init",
                  "end interface", "end module mod_c",
                  "submodule (mod_c) mod_c_impl", "contains", "module procedure solve", "end procedure solve",
                  "module subroutine init()", "end subroutine init", "end submodule mod_c_impl"],
    }


def _all_entities(p):
    out = []

    def walk(e):
        out.append(e)
        for l in ("modules", "submodules", "programs", "subroutines", "functions", "types", "interfaces", "absinterfaces", "variables",
                  "boundprocs", "args", "routines", "modprocedures", "modsubroutines", "modfunctions"):
            v = getattr(e, l, None)
            if l == "routines":
                try:
                    v = list(v) if v is not None else None
                except TypeError:
                    v = None
            if isinstance(v, (list, tuple)):
                for x in v:
                    if hasattr(x, "get_url") and not any(x is y for y in out):
                        walk(x)
        pr = getattr(e, "procedure", None)
        if pr is not None and hasattr(pr, "get_url") and not any(pr is y for y in out):
            walk(pr)
    for f in p.files:
        walk(f)
    return out


def _page_files(p):
    """(entity, URL, file the real page class writes to) for every entity that gets a page of its own"""
    import pathlib
    import ford.output as out
    res = []
    lists = [(p.types, out.TypePage), (p.absinterfaces, out.AbsIntPage), (p.procedures, None), (p.submodprocedures, None), (p.modules, out.ModulePage),
             (p.submodules, out.ModulePage), (p.programs, out.ProgPage), (p.blockdata, out.BlockPage), (p.namelists, out.NamelistPage)]
    for lst, cls in lists:
        for e in lst:
            if cls is None:
                cls_ = out.ProcedurePage if e.obj == "proc" else (out.GenericInterfacePage if getattr(e, "generic", False) else out.InterfacePage)
            else:
                cls_ = cls
            pg = object.__new__(cls_)
            pg.obj, pg.out_dir = e, pathlib.Path("/out")
            res.append((e, e.get_url(), _choice.apply(str, pg.outfile) if isinstance(pg.outfile, _CV) else str(pg.outfile)))
    return res


def _shown_on(p):
    """(type, item shown on the type's page, URL of the item, is the item listed by the type whose page its URL names?) for the components and
    bindings (own and inherited) of every type.  An inherited item that is the parent's own object links to the parent's page, where it is listed;
    a copy made for the extending type must link to the extending type's page"""
    out = []
    owners = {}
    for t in p.types:
        owners[str(t.get_url())] = t
    for t in p.types:
        for c in list(getattr(t, "variables", []) or []) + list(getattr(t, "boundprocs", []) or []):
            cu = c.get_url()
            o = owners.get(str(cu).split("#")[0]) if cu is not None and not isinstance(cu, _CV) else None
            listed = o is not None and any(c is x for x in list(getattr(o, "variables", []) or []) + list(getattr(o, "boundprocs", []) or []))
            out.append((t, c, cu, listed or isinstance(cu, _CV)))
    return out


def _on_its_page(item_url, listed):
    return item_url is not None and bool(listed)


def _describe(e):
    par = getattr(e, "parent", None)
    return f"{type(e).__name__}:{getattr(par, 'name', '')}/{getattr(e, 'name', '')}"


def replay_urls(w):
    import io, contextlib
    with contextlib.redirect_stdout(io.StringIO()), contextlib.redirect_stderr(io.StringIO()):
        p = _parserh.project_concrete(_url_files(*w["slots"]), **PSET10)
    ents = _all_entities(p)
    seen, dup = {}, []
    for e in ents:
        u = e.get_url()
        if u is None:
            continue
        k = u.lower()
        # an interface and its single procedure share a page by design; the same object reached twice is not a clash
        if k in seen and seen[k] is not e and not _same_page_by_design(seen[k], e):
            dup.append((u, _describe(seen[k]), _describe(e)))
        seen.setdefault(k, e)
    for e, url, outfile in _page_files(p):
        if outfile != "/out/" + str(url):
            dup.append((str(url), _describe(e), "page written to " + outfile))
    for t, c, cu, listed in _shown_on(p):
        if not _on_its_page(cu, listed):
            dup.append((str(cu), _describe(c), f"is shown on the page of {t.name}, but the page its URL names does not list it"))
    anchors = [(e, getattr(e, "parent", None), e.anchor) for e in ents if getattr(e, "parent", None) is not None]
    for i in range(len(anchors)):
        for j in range(i):
            a, b = anchors[i], anchors[j]
            if a[1] is b[1] and a[0] is not b[0] and not _same_page_by_design(a[0], b[0]) and a[2] == b[2]:
                dup.append(("#" + a[2], _describe(a[0]), _describe(b[0])))
    return bool(dup), {"files": _url_files(*w["slots"]), "shared_urls": dup[:5]}


def _same_page_by_design(a, b):
    """a non-generic interface and the procedure it declares are one documented item"""
    import ford.sourceform as sf
    for x, y in ((a, b), (b, a)):
        if isinstance(x, sf.FortranInterface) and not x.generic and getattr(x, "procedure", None) is y:
            return True
    return False


@obligation("C10", "P1.distinct-urls-on-a-project", engine="SX(CV)", timeout=1800)
def urls(ctx):
    """parsed + correlated symbolic project (procedure / type / interface-body names chosen symbolically, reused across modules and in
    different letter case): two different entities never get the same URL (ignoring case), page or page#anchor"""
    import io, contextlib
    import ford.sourceform as sf

    ctx.encode_fn(sf.FortranBase.get_url)
    ctx.encode_fn(sf.FortranBase.get_dir)
    ctx.encode_fn(sf.NameSelector.get_name)
    ctx.encode_text("FortranProcedure.ident/get_dir", __import__("inspect").getsource(sf.FortranProcedure), "python-source")
    ctx.bounds.update({"names": {"procedure in mod_a": N1, "procedure in mod_b": N2, "interface bodies": BODY, "type": ["init", "shape"]}})

    def h(E):
        n1 = _CV.choice(E, "n1", N1)
        n2 = _CV.choice(E, "n2", N2)
        b1 = _CV.choice(E, "b1", BODY[:2])
        b2 = _CV.choice(E, "b2", BODY[1:])
        tn = _CV.choice(E, "tn", ["init", "shape"])
        E.assume(_choice.apply(lambda a, b: a != b, b1, b2))
        # one scope cannot declare a procedure and a type of the same name
        E.assume(_choice.apply(lambda a, t: a.lower() != t.lower(), n1, tn))
        E.e.snapshot = lambda m: {"slots": [_choice.value_in_model(m, x) for x in (n1, n2, b1, b2, tn)]}
        with contextlib.redirect_stdout(io.StringIO()), contextlib.redirect_stderr(io.StringIO()):
            urls_, anchors, pagefiles, shown = _parserh.project(_url_files(n1, n2, b1, b2, tn), post=lambda p: (
                [(e, e.get_url()) for e in _all_entities(p)],
                [(e, getattr(e, "parent", None), e.anchor) for e in _all_entities(p) if getattr(e, "parent", None) is not None],
                _page_files(p), _shown_on(p)), post_modules=(__import__("ford.output").output,), **PSET10)
        E.reachable("urls")
        # the URL of a component / binding (own or inherited) is an anchor of the page of the type that shows it
        for t, c, cu, listed in shown:
            E.require(_on_its_page(cu, listed), "the URL of an item shown on a type's page names a page that does not list the item")
        # the file a page is written to is the file its entity's URL names
        for e, url, outfile in pagefiles:
            E.require(_choice.apply(lambda u, f: f == "/out/" + u, url, outfile), "an entity's page is written to another file than its URL names")
        # items summarised on their parent's page carry `id=anchor`: distinct children of one parent need distinct anchors
        for i in range(len(anchors)):
            for j in range(i):
                a, b = anchors[i], anchors[j]
                if a[1] is b[1] and a[0] is not b[0] and not _same_page_by_design(a[0], b[0]):
                    E.require(_choice.apply(lambda x, y: x != y, a[2], b[2]), "two different items of one parent share an anchor id")
        urls_ = [(e, u) for e, u in urls_ if u is not None]
        for i in range(len(urls_)):
            for j in range(i):
                a, b = urls_[i], urls_[j]
                if _same_page_by_design(a[0], b[0]):
                    continue
                E.require(_choice.apply(lambda x, y: str(x).lower() != str(y).lower(), a[1], b[1]),
                          "two different entities share one URL")

    E = sym.Engine(ctx, max_paths=50000, incremental=True)
    found = E.explore(h)
    seen = set()
    for (label, m, pc), snap in zip(found, E.snapshots):
        if label in seen:
            continue
        seen.add(label)
        ctx.report(label, snap, replay_urls)
    if E.reached.get("urls"):
        ctx.twins += 1
    else:
        ctx.inconclusive.append("vacuity: no URLs computed")
    ctx.sample({"paths": E.paths})



# ---------------------------------------------------------------------------------------
# O3: the copied sources (file-system stub shared with C19, see fv/props/c19.py)
# ---------------------------------------------------------------------------------------
@obligation("C10", "O3.source-file-copies", engine="SX+file-system stub", timeout=900)
def source_copies(ctx):
    """Documentation.writeout with incl_src on the in-memory file system: every source file of the project (Fortran files and extra file
    types, in sub-directories too) is served at src/<name> with its own bytes - the target of the 'Source File' link of its entities"""
    from fv.props import c19
    ctx.known("C10-src-copy-same-basename", replay_same_basename)
    c19.writeout_obligation(ctx, "sources")


def replay_same_basename(w):
    """real run: two source files with the same base name in different directories"""
    import os, shutil
    from fv import fordrun
    files = {"a/util.f90": "module ma\n!! in a\nend module ma\n", "b/util.f90": "module mb\n!! in b\nend module mb\n"}
    d, outdir, rc, log = fordrun.run_ford(files, {"incl_src": "true", "search": "false"})
    try:
        served = None
        p = os.path.join(outdir, "src", "util.f90")
        if os.path.exists(p):
            served = open(p).read()
        copies = sorted(os.listdir(os.path.join(outdir, "src"))) if os.path.isdir(os.path.join(outdir, "src")) else []
    finally:
        shutil.rmtree(d, ignore_errors=True)
    bad = rc == 0 and len(copies) < 2
    return bad, {"sources": sorted(files), "copied to src/": copies, "src/util.f90 serves": (served or "")[:20]}


# ---------------------------------------------------------------------------------------
# O4: the graph files saved with `graph_dir` are output files of documented entities too: one file per graph, never shared
# ---------------------------------------------------------------------------------------
G_OPS = ["+", "-", "*", "//", "==", ".dot."]
G_FILES = ["a-b.f90", "a_b.f90", "a.b.f90", "a+b.f90"]
SAVED_GRAPHS = ("usesgraph", "usedbygraph", "inhergraph", "inherbygraph", "callsgraph", "calledbygraph", "afferentgraph", "efferentgraph")


def _g_files(op1, op2, f1, f2):
    return {f1: ["module vec_a", "type t", "integer :: c", "end type t",
                 f"interface operator({op1})", "module procedure vone", "end interface",
                 f"interface operator({op2})", "module procedure vtwo", "end interface", "contains",
                 "function vone(a, b)", "integer, intent(in) :: a, b", "integer :: vone", "end function vone",
                 "function vtwo(a, b)", "integer, intent(in) :: a, b", "integer :: vtwo", "end function vtwo",
                 "subroutine run()", "call helper()", "end subroutine run", "subroutine helper()", "end subroutine helper", "end module vec_a"],
            f2: ["module vec_b", "use vec_a, only: helper", "type t", "integer :: c", "end type t", "contains",
                 "subroutine run()", "call helper()", "end subroutine run", "end module vec_b"]}


def _g_observe(p):
    """(entity description, graph attribute, name of the file the graph is saved to) for every graph FORD saves per entity"""
    import ford.graphs as gr
    from fv.props.c12 import _Rec

    oldd, oldg = gr.Digraph, gr.graphviz_installed
    gr.Digraph, gr.graphviz_installed = _Rec, False
    try:
        gm = gr.GraphManager("/out/graphs", "..", False, False, save_graphs=True)
        for lst in (p.types, p.procedures, p.submodprocedures, p.modules, p.submodules, p.programs, p.files, p.blockdata):
            for e in lst:
                gm.register(e)
        gm.graph_all()
    finally:
        gr.Digraph, gr.graphviz_installed = oldd, oldg
    out = []
    for e in gm.graph_objs:
        for attr in SAVED_GRAPHS:
            g = getattr(e, attr, None)
            if g is not None:
                out.append((f"{type(e).__name__} {e.name}", attr, str(g.imgfile)))
    return out


def _g_bad(obs):
    bad = []
    byfile = {}
    for ent, attr, f in obs:
        byfile.setdefault(f, []).append((ent, attr))
        if not f or "/" in f or f in (".", ".."):
            bad.append(f"{ent}.{attr}: file name {f!r} is not a plain file name")
    for f, who in byfile.items():
        if len(who) > 1:
            bad.append(f"{who} are all saved to {f!r}")
    return bad


def replay_graph_files(w):
    import ford.sourceform as sf
    old = sf.namelist
    sf.namelist = sf.NameSelector()
    try:
        p = _parserh.project_concrete(_g_files(*w["slots"]), graph=True, **PSET10)
        obs = _g_observe(p)
    finally:
        sf.namelist = old
    bad = _g_bad(obs)
    return bool(bad) or len(obs) < 10, {"files": _g_files(*w["slots"]), "saved graph files": sorted(o[2] for o in obs), "shared or unusable": bad}


@obligation("C10", "O4.saved-graph-files", engine="SX(CV)", timeout=900)
def saved_graph_files(ctx):
    """two modules in two source files (symbolic file names differing in punctuation) with two operator interfaces (symbolic operators), types
    and procedures of equal names: every per-entity graph the real GraphManager creates is saved to a file of its own"""
    import ford.graphs as gr
    import ford.sourceform as sf

    ctx.encode_fn(gr.FortranGraph.__init__)
    ctx.encode_fn(gr.GraphManager.graph_all)
    ctx.encode_fn(gr.GraphManager.output_graphs)
    ctx.encode_fn(sf.NameSelector.get_name)
    ctx.bounds.update({"operators": G_OPS, "file names": G_FILES})
    ctx.stubs.append("graphviz's Digraph replaced by a recorder (no `dot` in the sandbox); the file name is computed in FortranGraph.__init__")

    def h(E):
        o1 = _CV.choice(E, "op1", G_OPS).concretize()
        o2 = _CV.choice(E, "op2", G_OPS).concretize()
        f1 = _CV.choice(E, "f1", G_FILES).concretize()
        f2 = _CV.choice(E, "f2", G_FILES).concretize()
        if o1 == o2 or f1 >= f2:
            E.assume(False)
            return
        E.e.snapshot = lambda m: {"slots": [o1, o2, f1, f2]}
        obs = _parserh.project(_g_files(o1, o2, f1, f2), post=_g_observe, graph=True, **PSET10)
        E.reachable("graphs created")
        E.require(len(obs) >= 10, "per-entity graphs are missing")
        bad = _g_bad(obs)
        E.require(not bad, "two graphs are saved to the same file: " + "; ".join(bad)[:200])

    E = sym.Engine(ctx, max_paths=2000, incremental=True)
    found = E.explore(h)
    seen = set()
    for (label, m, pc), snap in zip(found, E.snapshots):
        if not snap or label[:40] in seen:
            continue
        seen.add(label[:40])
        ctx.report(label, snap, replay_graph_files)
    if E.reached.get("graphs created"):
        ctx.twins += 1
    else:
        ctx.inconclusive.append("vacuity: no graph created")
    ctx.sample({"paths": E.paths})
