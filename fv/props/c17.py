"""C17 — static pages mirror the page directory, in the documented order (tree-building kernel)."""
import os
import pathlib
import posixpath

import z3

from fv import sym, choice, parserh, patch
from fv.choice import CV
from fv.core import obligation
from fv.props import META

META["C17"] = {
    "explanation": "Tree-building half of C17.  The REAL get_page_tree / PageNode run on a virtual page directory (the file "
    "system is the stubbed environment: pathlib.Path and os.listdir of ford.pagetree answer from an in-memory tree; the "
    "Markdown converter is an identity stub) whose file CONTENTS are symbolic: every page independently has a title or not, "
    "the top index.md carries one of several ordered_subpage lists (none, partial, complete, naming index.md, a directory, a "
    "duplicate, a missing file) and copy_subdir or not, the sub-directory's index.md likewise.  For every combination the "
    "resulting tree must be the one the user guide describes: one page per titled Markdown file at the same relative path "
    "(.md -> .html), a directory with a titled index.md is a sub-tree, pages listed in ordered_subpage first and the rest "
    "alphabetically, hidden (.x) and backup (x~) entries ignored, other files recorded for copying next to their page, a "
    "page without title reported and skipped without losing its siblings, the hierarchy of every page is its chain of parents.",
    "outside": ["written HTML, page navigation markup",
                "|page| |media| |url| aliases and relative links (python-markdown tree processors, pathlib.resolve)",
                "directory shapes other than the skeleton (two levels of sub-directories, 11 entries)"],
    "assumptions": ["os.listdir order is arbitrary in reality; the code sorts it, the stub returns it reversed-sorted to make "
                    "a missing sort visible"],
}

DIR = object()
TITLED = "title: {t}\n\nbody of {t}\n"
UNTITLED = "author: nobody\n\nno title here\n"
# ordered_subpage options of the top index.md: (metadata lines, names in the list, raises?)
OSP_TOP = [([], [], False),
           (["ordered_subpage: beta.md"], ["beta.md"], False),
           (["ordered_subpage: beta.md", "ordered_subpage: alpha.md"], ["beta.md", "alpha.md"], False),
           (["ordered_subpage: guide", "ordered_subpage: alpha.md"], ["guide", "alpha.md"], False),
           (["ordered_subpage: index.md", "ordered_subpage: beta.md"], ["beta.md"], False),
           (["ordered_subpage: beta.md", "ordered_subpage: beta.md"], ["beta.md"], False),
           (["ordered_subpage: notes.txt", "ordered_subpage: beta.md"], ["notes.txt", "beta.md"], False),
           (["ordered_subpage: beta.md", "ordered_subpage: api_index.md", "ordered_subpage: alpha.md"], ["beta.md", "api_index.md", "alpha.md"], False),
           # the continuation-line form of a multi-valued key, with trailing blanks (values are stripped)
           (["ordered_subpage: beta.md", "                 guide  ", "                 alpha.md "], ["beta.md", "guide", "alpha.md"], False),
           (["ordered_subpage: missing.md"], ["missing.md"], True)]
OSP_GUIDE = [([], []), (["ordered_subpage: zz.md"], ["zz.md"]), (["ordered_subpage: deep", "ordered_subpage: zz.md"], ["deep", "zz.md"])]
COPY_TOP = [([], []), (["copy_subdir: assets"], ["assets"])]


def _index(title, extra):
    return "title: " + title + "\n" + "".join(l + "\n" for l in extra) + "\nbody\n"


class VFS:
    """in-memory page directory: posix path -> DIR | file content (str or CV)"""

    def __init__(self, entries):
        self.e = dict(entries)
        self.links = dict(LINKS)   # directory -> target it is a symbolic link to

    def listdir(self, p):
        p = str(p).rstrip("/")
        names = {k[len(p) + 1:].split("/")[0] for k in self.e if k.startswith(p + "/")}
        # NOT sorted ascending by default: the code under test must not rely on the OS order
        names = sorted(names)
        if LISTDIR_ORDER[0] == "descending":
            names.reverse()
        elif LISTDIR_ORDER[0] == "rotated":
            names = names[len(names) // 2:] + names[:len(names) // 2]
        return names


LINKS = {}
LISTDIR_ORDER = ["descending"]   # "ascending" | "descending" | "rotated": the order in which the stubbed OS enumerates a directory


class _Unused:
    def _(self):
        return None


_FS = [None]


class VPath(pathlib.PurePosixPath):
    def exists(self):
        return str(self) in _FS[0].e

    def is_dir(self):
        return _FS[0].e.get(str(self)) is DIR

    def is_file(self):
        return self.exists() and not self.is_dir()

    def read_text(self, encoding=None):
        v = _FS[0].e[str(self)]
        if v is DIR:
            raise IsADirectoryError(str(self))
        return v

    def resolve(self):
        """symbolic links of the VFS (a table directory -> target) are followed for the longest matching prefix"""
        links = getattr(_FS[0], "links", None) or {}
        me = str(self)
        for src in sorted(links, key=len, reverse=True):
            if me == src or me.startswith(src + "/"):
                return type(self)(links[src] + me[len(src):])
        return self

    def absolute(self):
        return self


class _OS:
    path = posixpath
    PathLike = os.PathLike

    @staticmethod
    def listdir(p):
        return _FS[0].listdir(p)


class _MD:
    base_url = "."

    def reset(self):
        return self

    def convert(self, text, path=None):
        # the directory the page's relative links are computed from travels with the text (see _observe)
        return f"{path}\x00{text}"


def _tree(E, thorough):
    t_alpha = CV.choice(E, "alpha", [True, False])
    t_beta = CV.choice(E, "beta", [True, False])
    t_guide = CV.choice(E, "guide", [True, False])
    t_zz = CV.choice(E, "zz", [True, False]) if thorough else True
    osp = CV.choice(E, "osp", list(range(len(OSP_TOP))))
    ospg = CV.choice(E, "ospg", list(range(len(OSP_GUIDE))))
    cp = CV.choice(E, "copy", list(range(len(COPY_TOP))))
    page = lambda name, t: choice.apply(lambda has: TITLED.format(t=name) if has else UNTITLED, t)
    entries = {
        "top": DIR,
        "top/index.md": choice.apply(lambda o, c: _index("Top", OSP_TOP[o][0] + COPY_TOP[c][0]), osp, cp),
        "top/alpha.md": page("Alpha", t_alpha), "top/beta.md": page("Beta", t_beta), "top/api_index.md": TITLED.format(t="ApiIndex"),
        "top/notes.txt": "plain", "top/.hidden.md": TITLED.format(t="Hidden"), "top/backup.md~": TITLED.format(t="Backup"),
        "top/assets": DIR, "top/assets/img.png": "png",
        "top/guide": DIR,
        "top/guide/index.md": choice.apply(lambda has, o: _index("Guide", OSP_GUIDE[o][0]) if has else UNTITLED, t_guide, ospg),
        "top/guide/aa.md": TITLED.format(t="Aa"), "top/guide/zz.md": page("Zz", t_zz), "top/guide/fig.png": "png",
        "top/guide/deep": DIR, "top/guide/deep/index.md": TITLED.format(t="Deep"), "top/guide/deep/d.md": TITLED.format(t="D"),
    }
    return (t_alpha, t_beta, t_guide, t_zz, osp, ospg, cp), entries


def expected_tree(alpha, beta, guide, zz, osp, ospg, cp):
    """what the user guide (writing_pages.rst) describes, written from the documentation: list of
    (page path, title, files recorded for copying, titles of the parents) in table-of-contents order, or 'ERROR'"""
    if OSP_TOP[osp][2]:
        return "ERROR"

    def order(listed, present):
        out = []
        for n in listed:
            if n != "index.md" and n not in out:
                out.append(n)
        for n in sorted(present):
            if n != "index.md" and n not in out:
                out.append(n)
        return [n for n in out if not n.startswith(".") and not n.endswith("~")]

    pages = [("index.html", "Top", None, [])]
    top_files = []
    for n in order(OSP_TOP[osp][1], ["index.md", "alpha.md", "api_index.md", "beta.md", "notes.txt", ".hidden.md", "backup.md~", "assets", "guide"]):
        if n == "alpha.md" and alpha:
            pages.append(("alpha.html", "Alpha", [], ["Top"]))
        elif n == "beta.md" and beta:
            pages.append(("beta.html", "Beta", [], ["Top"]))
        elif n == "api_index.md":
            pages.append(("api_index.html", "ApiIndex", [], ["Top"]))
        elif n == "notes.txt":
            top_files.append(n)
        elif n == "guide" and guide:
            gfiles = []
            sub = [("guide/index.html", "Guide", None, ["Top"])]
            for g in order(OSP_GUIDE[ospg][1], ["index.md", "aa.md", "zz.md", "fig.png", "deep"]):
                if g == "aa.md":
                    sub.append(("guide/aa.html", "Aa", [], ["Top", "Guide"]))
                elif g == "zz.md" and zz:
                    sub.append(("guide/zz.html", "Zz", [], ["Top", "Guide"]))
                elif g == "fig.png":
                    gfiles.append(g)
                elif g == "deep":
                    sub.append(("guide/deep/index.html", "Deep", [], ["Top", "Guide"]))
                    sub.append(("guide/deep/d.html", "D", [], ["Top", "Guide", "Deep"]))
            sub[0] = (sub[0][0], sub[0][1], gfiles, sub[0][3])
            pages += sub
        # `assets` has no index.md: reported, no page
    pages[0] = (pages[0][0], pages[0][1], top_files, [])
    return pages


def _observe(node):
    if node is None:
        return None
    out = []
    for n in node:
        out.append((str(n.path), n.title, list(n.files), [h.title for h in n.hierarchy]))
    return out


def _conversion_dirs(node, page_root):
    """[(page path, directory its Markdown was converted for, relative to <output>/page)]: must be the directory the page is written to"""
    import posixpath
    out = []
    for n in node:
        conv = str(n.contents).split("\x00", 1)[0]
        out.append((str(n.path), posixpath.relpath(conv, str(page_root)), posixpath.dirname(str(n.path)) or "."))
    return out


def _run(entries, warnings):
    import ford.pagetree as pt
    import ford.utils as fu
    import ford.settings as st

    _FS[0] = VFS(entries)
    extra = {(pt, "Path"): VPath, (pt, "os"): _OS, (pt, "warn"): (lambda m, *a, **k: warnings.append(m)),
             (pt, "meta_preprocessor"): parserh.pointwise(fu.meta_preprocessor),
             (pt, "EntitySettings"): _ES(st.EntitySettings)}
    with patch.patched(pt, extra=extra):
        node = pt.get_page_tree(VPath("top"), [], VPath("out"), _MD())
        _CONV[:] = _conversion_dirs(node, (VPath("out") / "page").resolve()) if node is not None else []
        return _observe(node)


_CONV = []


class _ES:
    """EntitySettings.from_markdown_metadata evaluated per choice of the metadata"""

    def __init__(self, real):
        self.real = real

    def from_markdown_metadata(self, meta, parent=None):
        return parserh.pointwise(lambda m, p: self.real.from_markdown_metadata(m, p))(meta, parent)


def replay_tree(w):
    import ford.pagetree as pt

    class Dummy:
        pass
    # natively, on a real temporary directory with the real pathlib / os / EntitySettings (only python-markdown is stubbed)
    import tempfile, shutil
    d = tempfile.mkdtemp(prefix="fvc17-")
    msgs = []
    oldw = pt.warn
    try:
        a, b, g, z, osp, ospg, cp = w["choices"]
        page = lambda name, has: TITLED.format(t=name) if has else UNTITLED
        files = {"index.md": _index("Top", OSP_TOP[osp][0] + COPY_TOP[cp][0]), "alpha.md": page("Alpha", a), "beta.md": page("Beta", b),
                 "api_index.md": TITLED.format(t="ApiIndex"),
                 "notes.txt": "plain", ".hidden.md": TITLED.format(t="Hidden"), "backup.md~": TITLED.format(t="Backup"),
                 "assets/img.png": "png", "guide/index.md": _index("Guide", OSP_GUIDE[ospg][0]) if g else UNTITLED,
                 "guide/aa.md": TITLED.format(t="Aa"), "guide/zz.md": page("Zz", z), "guide/fig.png": "png",
                 "guide/deep/index.md": TITLED.format(t="Deep"), "guide/deep/d.md": TITLED.format(t="D")}
        for rel, text in files.items():
            p = os.path.join(d, "top", rel)
            os.makedirs(os.path.dirname(p), exist_ok=True)
            with open(p, "w") as f:
                f.write(text)
        pt.warn = lambda m, *a_, **k: msgs.append(str(m))
        try:
            node = pt.get_page_tree(pathlib.Path(d) / "top", [], pathlib.Path(d) / "out", _MD())
            got = _observe(node)
            conv = _conversion_dirs(node, (pathlib.Path(d) / "out" / "page").resolve()) if node is not None else []
        except ValueError as e:
            got = "ERROR"
            conv = []
        want = expected_tree(a, b, g, z, osp, ospg, cp)
        norm = lambda t: t if isinstance(t, str) or t is None else [(x[0], x[1], sorted(x[2]) if x[2] is not None else None, list(x[3])) for x in t]
        g_ = norm(got)
        w_ = norm(want)
        if isinstance(g_, list) and isinstance(w_, list):
            w_ = [(x[0], x[1], x[2] if x[2] is not None else y[2], x[3]) for x, y in zip(w_, g_)] if len(w_) == len(g_) else w_
        unreported = []
        if isinstance(want, list):
            for name, has in (("alpha.md", a), ("beta.md", b)):
                if not has and not any(name in m for m in msgs):
                    unreported.append(name)
        wrongdir = [c for c in conv if c[1] != c[2]]
        return g_ != w_ or bool(unreported) or bool(wrongdir), {"choices": w["choices"], "ford_tree": g_, "documented_tree": w_, "untitled pages not reported": unreported,
                                                            "pages whose links are computed for another directory (page, used, written to)": wrongdir}
    finally:
        pt.warn = oldw
        shutil.rmtree(d, ignore_errors=True)


@obligation("C17", "O1.page-tree-structure", engine="SX(CV)+virtual file system", timeout=1800)
def page_tree(ctx):
    """get_page_tree on the virtual page directory: pages, their relative paths, order, recorded files and hierarchy equal the
    documented tree for every combination of titled/untitled pages, ordered_subpage lists and copy_subdir"""
    import ford.pagetree as pt

    ctx.encode_fn(pt.get_page_tree)
    ctx.encode_fn(pt.PageNode.__init__)
    ctx.stubs.append("pathlib.Path / os.listdir / os.path of ford.pagetree answer from an in-memory tree (listdir in descending order); "
                     "MetaMarkdown.convert is the identity; warn is recorded")
    ctx.bounds.update({"skeleton": "top{index,alpha,beta,notes.txt,.hidden.md,backup.md~,assets/,guide/{index,aa,zz,fig.png,deep/{index,d}}}",
                       "ordered_subpage lists (top)": len(OSP_TOP), "ordered_subpage lists (guide)": len(OSP_GUIDE), "titled/untitled pages": 4 if ctx.thorough else 3})

    def h(E):
        ch, entries = _tree(E, ctx.thorough)
        E.e.snapshot = lambda m: {"choices": [choice.value_in_model(m, x) for x in ch]}
        warnings = []
        want = choice.apply(expected_tree, *ch)
        try:
            got = _run(entries, warnings)
        except ValueError as e:
            E.reachable("raised")
            E.require(choice.apply(lambda w_: w_ == "ERROR", want), "get_page_tree raises although every listed page exists")
            return
        E.reachable("built")
        if got is None:
            E.require(False, "no page tree although top/index.md has a title")
            return
        E.require(choice.apply(lambda w_: w_ != "ERROR" and len(w_) == len(got), want), "number of pages differs from the documented tree")
        for i, (path, title, files, hier) in enumerate(got):
            E.require(choice.apply(lambda w_, t_, i=i, path=path, hier=hier: w_ != "ERROR" and i < len(w_) and w_[i][0] == path and w_[i][1] == t_ and w_[i][3] == hier,
                                   want, title), f"page {i}: path / title / hierarchy differ from the documented tree (order matters)")
            E.require(choice.apply(lambda w_, i=i, files=files: w_ == "ERROR" or i >= len(w_) or w_[i][2] is None or sorted(w_[i][2]) == sorted(files), want),
                      f"page {i}: files recorded for copying differ")
        for pth, used, written in list(_CONV):
            E.require(used == written, f"the relative links of page {pth} are computed for directory '{used}', the page is written to '{written}'")
        # an untitled page is reported by name
        for name, idx in (("alpha.md", 0), ("beta.md", 1)):
            said = any((choice.apply(lambda m_: name in str(m_), m_) is True) for m_ in warnings)
            E.require(choice.apply(lambda has, w_: bool(has) or w_ == "ERROR" or said, ch[idx], want), f"{name} has no title but is not reported")

    E = sym.Engine(ctx, max_paths=50000, incremental=True)
    found = E.explore(h)
    seen = set()
    for (label, m, pc), snap in zip(found, E.snapshots):
        key = label.split(":")[0]
        if key in seen or not snap:
            continue
        seen.add(key)
        ctx.report(label, snap, replay_tree)
    for lab in ("built", "raised"):
        if E.reached.get(lab):
            ctx.twins += 1
        else:
            ctx.inconclusive.append(f"vacuity: '{lab}' never reached")
    ctx.sample({"paths": E.paths})



# ---------------------------------------------------------------------------------------
# O2: files and copy_subdir directories are copied next to their pages (file-system stub shared with C19)
# ---------------------------------------------------------------------------------------
@obligation("C17", "O2.files-copied-next-to-pages", engine="SX+file-system stub", timeout=900)
def copies(ctx):
    """PagetreePage.writeout on the in-memory file system: every existing copy_subdir directory and every recorded file of a static
    page is copied next to the page (top level and sub-directory); entries that do not exist are reported and do not stop the others"""
    from fv.props import c19
    c19.writeout_obligation(ctx, "copies")


# ---------------------------------------------------------------------------------------
# O3: |page| / |media| / |url| aliases and the relative links made from them are right from every nesting depth, in whatever order
# the pages are converted by the one shared Markdown object
# ---------------------------------------------------------------------------------------
DEPTH_DIRS = ["", "sub", "sub/deep"]
ALIAS_LINKS = [("[z](|page|/zeta.html)", "page/zeta.html"), ("![p](|media|/pic.png)", "media/pic.png"), ("[i](|url|/index.html)", "index.html"),
               ("[s](|page|/sub/index.html)", "page/sub/index.html")]


# where on the page the link stands: an indented line is not always code (nested list items, continuation paragraphs of a list item)
PLACEMENTS = [("paragraph", "Text {L} more."), ("nested list item", "Contents:\n\n- top\n    - sub {L}\n    - other\n"),
              ("second paragraph of a list item", "1. first step\n\n    then see {L} for more.\n\n2. second step\n")]


def _convert_pages(order, link_idx, placement=0):
    """real MetaMarkdown built as ford.main builds it; pages converted in the given order of depths; {depth: href/src found}"""
    import re as _re2
    import pathlib as _pl
    from ford._markdown import MetaMarkdown

    out_dir = _pl.Path("/proj/doc")
    url_path = out_dir
    md = MetaMarkdown(".", base_url=out_dir, aliases={"url": str(url_path), "media": str(url_path / "media"), "page": str(url_path / "page")}, project=None)
    got = {}
    for dpt in order:
        page_path = out_dir / "page" / DEPTH_DIRS[dpt]
        html = md.reset().convert(PLACEMENTS[placement][1].replace("{L}", ALIAS_LINKS[link_idx[dpt]][0]), path=page_path)
        m = _re2.search(r"""(?:href|src)=["']([^"']*)["']""", html)
        got[dpt] = m.group(1) if m else None
    return got


def _alias_expected(dpt, li):
    import os
    return os.path.relpath(os.path.join("/proj/doc", ALIAS_LINKS[li][1]), os.path.join("/proj/doc/page", DEPTH_DIRS[dpt]))


def replay_alias(w):
    got = _convert_pages(w["order"], w["links"], w.get("placement", 0))
    want = {d: _alias_expected(d, w["links"][d]) for d in w["order"]}
    return {str(k): v for k, v in got.items()} != {str(k): v for k, v in want.items()}, {
        "conversion order (nesting depths)": w["order"], "link stands in": PLACEMENTS[w.get("placement", 0)][0], "link written on each page": [ALIAS_LINKS[i][0] for i in w["links"]],
        "ford": got, "relative path from each page": want}


@obligation("C17", "O3.alias-links-from-every-depth", engine="SX(CV)", timeout=600)
def alias_links(ctx):
    """three static pages at nesting depths 0, 1, 2 converted by ONE Markdown object in a symbolic order, each with a symbolic alias link
    (|page|, |media|, |url|; the same text may repeat): every href/src is the relative path from THAT page"""
    import ford._markdown as mk

    ctx.encode_fn(mk.RelativeLinksTreeProcessor._fix_attrib)
    ctx.encode_fn(mk.RelativeLinksTreeProcessor.run)
    ctx.encode_fn(mk.MetaMarkdown.convert)
    ctx.bounds.update({"depths": DEPTH_DIRS, "alias links": [a for a, _ in ALIAS_LINKS], "orders": 6, "placements": [p_[0] for p_ in PLACEMENTS]})
    ctx.stubs.append("python-markdown needs concrete text: one path per (order, links) combination; MetaMarkdown is the real object")
    import itertools
    orders = [list(p) for p in itertools.permutations(range(3))]

    def h(E):
        oi = CV.choice(E, "order", list(range(len(orders)))).concretize()
        same = CV.choice(E, "same_link", [True, False]).concretize()
        l0 = CV.choice(E, "l0", list(range(len(ALIAS_LINKS)))).concretize()
        links = [l0, l0, l0] if same else [l0, (l0 + 1) % len(ALIAS_LINKS), (l0 + 2) % len(ALIAS_LINKS)]
        pl = CV.choice(E, "placement", list(range(len(PLACEMENTS)))).concretize()
        E.e.snapshot = lambda m: {"order": orders[oi], "links": links, "placement": pl}
        from fv import patch as _p
        with _p.suspended():
            got = _convert_pages(orders[oi], links, pl)
        E.reachable("converted")
        for d in orders[oi]:
            E.require(got[d] == _alias_expected(d, links[d]), f"depth {d}: alias link is not the relative path from that page")

    E = sym.Engine(ctx, max_paths=500, incremental=True)
    found = E.explore(h)
    seen = set()
    for (label, m, pc), snap in zip(found, E.snapshots):
        if label in seen or not snap:
            continue
        seen.add(label)
        ctx.report(label, snap, replay_alias)
    if E.reached.get("converted"):
        ctx.twins += 1
    else:
        ctx.inconclusive.append("vacuity: nothing converted")
    ctx.sample({"paths": E.paths})
