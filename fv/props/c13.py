"""C13 — every graph shows exactly the relation it is documented to show (kernel: hop expansion)."""
import itertools

import z3

from fv import sym, standins as S
from fv.core import obligation
from fv.props import META
from fv.sym import engine

META["C13"] = {
    "explanation": "Kernel of C13: the REAL breadth-first hop expansion (FortranGraph.add_nodes / add_to_graph / _add_nested_nodes and "
    "each graph class's add_node) runs on stand-in nodes for EVERY relation over up to 4 nodes (edge presence symbolic, "
    "including self loops, cycles, diamonds, disconnected parts) with SYMBOLIC unbounded graph_maxnodes and graph_maxdepth: "
    "the nodes added are exactly the hop levels that fit, every emitted edge joins two nodes of the graph, every edge of the "
    "relation leaving an expanded node is emitted once with the right orientation, and the 'by' graphs emit exactly the "
    "relation's edges (inverse traversal, same orientation).",
    "outside": ["DOT text / SVG rendering", "node constructors that derive the relation from the entity tree",
                "meta.graph plumbing and GraphManager registration", "more than 4 nodes"],
    "assumptions": ["graph object attributes initialised as FortranGraph.__init__ does; graphviz Digraph replaced by a recorder"],
}

NODES = ["a", "b", "c", "d"]


class SymRel:
    """symbolic binary relation over NODES: Bool per ordered pair, decided lazily per path"""

    def __init__(self, name):
        self.var = {(x, y): z3.Bool(f"{name}_{x}{y}") for x in NODES for y in NODES}
        self.decided = {}

    def has(self, x, y):
        k = (x, y)
        if k not in self.decided:
            self.decided[k] = engine().decide(self.var[k])
        return self.decided[k]

    def value(self, m):
        return sorted([k for k, v in self.var.items() if z3.is_true(m.eval(v, model_completion=True))])


class SymNbrs:
    """set-like view: neighbours of node `x` (forward or inverse) — iteration decides membership"""

    def __init__(self, rel, x, nodes, inverse):
        self.rel, self.x, self.nodes, self.inverse = rel, x, nodes, inverse

    def __iter__(self):
        for y in NODES:
            if (self.rel.has(y, self.x) if self.inverse else self.rel.has(self.x, y)):
                yield self.nodes[y]

    def __len__(self):
        return len(list(iter(self)))

    def keys(self):
        return list(iter(self))

    def __getitem__(self, k):
        return "comp"

    def __contains__(self, n):
        return (self.rel.has(n.ident, self.x) if self.inverse else self.rel.has(self.x, n.ident))


class Recorder:
    def __init__(self):
        self.nodes, self.edges = [], []

    def node(self, ident, **kw):
        self.nodes.append(ident)

    def edge(self, tail_name=None, head_name=None, **kw):
        self.edges.append((tail_name, head_name))

    def attr(self, *a, **k):
        pass


# graph class -> (node class, forward attrs, inverse attrs, traversal over inverse?, extra node attrs)
GRAPHS = {
    "UsesGraph": ("ModNode", ["uses"], ["used_by"], False),
    "UsedByGraph": ("ModNode", ["uses"], ["used_by"], True),
    "CallsGraph": ("ProcNode", ["calls"], ["called_by"], False),
    "CalledByGraph": ("ProcNode", ["calls"], ["called_by"], True),
    "InheritsGraph": ("TypeNode", ["comp_types"], ["comp_of"], False),
    "InheritedByGraph": ("TypeNode", ["comp_types"], ["comp_of"], True),
    "EfferentGraph": ("FileNode", ["efferent"], ["afferent"], False),
    "AfferentGraph": ("FileNode", ["efferent"], ["afferent"], True),
}


def _mk(gr, gname, rel, root, max_nodes, max_nesting):
    ncls, fwd, inv, _ = GRAPHS[gname]
    nodes = {}
    for x in NODES:
        n = object.__new__(getattr(gr, ncls))
        n.ident, n.name = x, x
        n.attribs = {"label": x, "color": "#000000"}
        n.fromstr = False
        n.proctype = "subroutine"
        nodes[x] = n
    for x in NODES:
        n = nodes[x]
        for a in fwd:
            setattr(n, a, SymNbrs(rel, x, nodes, False))
        for a in inv:
            setattr(n, a, SymNbrs(rel, x, nodes, True))
        # the other relations the add_node methods look at: empty
        for a in ("interfaces", "interfaced_by", "children"):
            if not hasattr(n, a):
                setattr(n, a, [])
        if ncls == "TypeNode":
            n.ancestor = None
            n.children = []
    g = object.__new__(getattr(gr, gname))
    g.root = [nodes[root]]
    g.data = S.Rec(coloured_edges=False)
    g.hop_nodes, g.hop_edges = [], []
    g.added = {nodes[root]}
    g.max_nesting, g.max_nodes = max_nesting, max_nodes
    g.warn = False
    g.truncated = -1
    g.ident = "g"
    g.dot = Recorder()
    return g, nodes


def reference(edges, root, inverse, max_nodes, max_nesting):
    """documented behaviour on a concrete relation: (added nodes, emitted edges (tail, head))"""
    nbr = lambda x: sorted({(t if inverse else h) for (t, h) in edges if (h if inverse else t) == x})
    added = {root}
    out_edges = []
    level = [root]
    nesting = 1
    while True:
        hop, hop_edges = [], []
        for n in sorted(level):
            for p in nbr(n):
                if p not in added and p not in hop:
                    hop.append(p)
                hop_edges.append((p, n) if inverse else (n, p))
        if len(hop) + len(added) > max_nodes:
            break
        out_edges += hop_edges
        added |= set(hop)
        if not hop or not (nesting < max_nesting):
            break
        level, nesting = hop, nesting + 1
    return sorted(added), sorted(out_edges)


def replay_graph(w):
    import ford.graphs as gr

    class FixedRel:
        def __init__(self, edges):
            self.e = set(map(tuple, edges))

        def has(self, x, y):
            return (x, y) in self.e

    g, nodes = _mk(gr, w["graph"], FixedRel(w["edges"]), w["root"], w["max_nodes"], w["max_nesting"])
    g.add_nodes(g.root)
    got = (sorted(n.ident for n in g.added), sorted(g.dot.edges))
    want = reference([tuple(e) for e in w["edges"]], w["root"], GRAPHS[w["graph"]][3], w["max_nodes"], w["max_nesting"])
    want = (want[0], sorted(want[1]))
    dangling = [e for e in g.dot.edges if e[0] not in got[0] or e[1] not in got[0]]
    return got != want or bool(dangling), {"ford_nodes": got[0], "ford_edges": got[1], "documented_nodes": want[0],
                                           "documented_edges": want[1], "dangling_edges": dangling}


def _graph_ob(gname):
    @obligation("C13", f"O1.hop-expansion.{gname}", engine="SX", timeout=3000)
    def ob(ctx):
        import ford.graphs as gr

        cls = getattr(gr, gname)
        ctx.encode_fn(cls.add_node, gname + ".add_node")
        ctx.encode_fn(gr.FortranGraph.add_nodes)
        ctx.encode_fn(gr.FortranGraph.add_to_graph)
        ctx.encode_fn(gr.FortranGraph._add_nested_nodes)
        inverse = GRAPHS[gname][3]
        nn = 4 if ctx.thorough else 3
        ctx.bounds.update({"nodes": nn, "relation": "every relation over the nodes (edge presence symbolic)",
                           "graph_maxnodes": "symbolic integer >= 1", "graph_maxdepth": "symbolic integer >= 0"})
        ctx.stubs.append("graphviz Digraph replaced by a recorder; nodes are stand-ins created with object.__new__")

        def h(E):
            rel = SymRel("r")
            for (x, y), v in rel.var.items():
                if NODES.index(x) >= nn or NODES.index(y) >= nn:
                    E.assume(sym.mk_bool(z3.Not(v)))
            mn = E.integer("max_nodes", lo=1, hi=30)
            md = E.integer("max_nesting", lo=0, hi=30)
            g, nodes = _mk(gr, gname, rel, "a", mn, md)
            h.state = (rel, mn, md)
            g.add_nodes(g.root)
            E.reachable("expanded")
            added = sorted(n.ident for n in g.added)
            if len(added) > 1:
                E.reachable("grew")
            # all edges of expanded nodes are decided on this path; decide the rest lazily inside `reference`
            edges = lambda: [(x, y) for x in NODES[:nn] for y in NODES[:nn] if rel.has(x, y)]
            es = edges()
            # documented outcome for every value of the two limits consistent with this path:
            # enumerate the finitely many distinct behaviours (limits only matter up to nn+1 / nn+1)
            for cmn in range(1, nn + 2):
                for cmd in range(0, nn + 2):
                    cond = z3.And((mn.t == cmn) if cmn <= nn else (mn.t >= cmn), (md.t == cmd) if cmd <= nn else (md.t >= cmd))
                    wn, we = reference(es, "a", inverse, cmn if cmn <= nn else 10 ** 6, cmd if cmd <= nn else 10 ** 6)
                    ok = added == wn and sorted(g.dot.edges) == sorted(we)
                    E.require(sym.mk_bool(z3.Implies(cond, z3.BoolVal(ok))), "graph content differs from the documented hop expansion")
            dangling = [e for e in g.dot.edges if e[0] not in added or e[1] not in added]
            E.require(sym.mk_bool(z3.BoolVal(not dangling)), "an emitted edge has an end that is not in the graph")

        E = sym.Engine(ctx, max_paths=200000, incremental=True)
        found = E.explore(h)
        seen = set()
        for label, m, pc in found:
            if label in seen:
                continue
            seen.add(label)
            rel, mn, md = h.state
            ctx.report(label, {"graph": gname, "root": "a", "edges": [list(e) for e in rel.value(m)],
                               "max_nodes": E.model_value(m, mn), "max_nesting": E.model_value(m, md)}, replay_graph)
        for nm in ("expanded", "grew"):
            if E.reached.get(nm):
                ctx.twins += 1
            else:
                ctx.inconclusive.append(f"vacuity: no path '{nm}'")
        ctx.sample({"graph": gname, "paths": E.paths})

    ob.__doc__ = f"{gname}: nodes added = hop levels that fit graph_maxnodes/graph_maxdepth; edges = relation edges of expanded nodes, no dangling end"


for _g in GRAPHS:
    _graph_ob(_g)
