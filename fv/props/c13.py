"""C13 — every graph shows exactly the relation it is documented to show (kernel: hop expansion)."""
import itertools

import z3

from fv import sym, standins as S
from fv.core import obligation
from fv.props import META
from fv.sym import engine

META["C13"] = {
    "explanation": "Kernel of C13: the REAL breadth-first hop expansion (FortranGraph.add_nodes / add_to_graph / _add_nested_nodes and "
    "each graph class's add_node) runs on stand-in nodes for EVERY relation over up to 4 nodes (edge presence symbolic, "
    "including self loops, cycles, diamonds, disconnected parts) with SYMBOLIC unbounded graph_maxnodes and graph_maxdepth: "
    "the nodes added are exactly the hop levels that fit, every emitted edge joins two nodes of the graph, every edge of the "
    "relation leaving an expanded node is emitted once with the right orientation, and the 'by' graphs emit exactly the "
    "relation's edges (inverse traversal, same orientation).",
    "outside": ["DOT text / SVG rendering", "node constructors that derive the relation from the entity tree",
                "meta.graph plumbing and GraphManager registration", "more than 4 nodes"],
    "assumptions": ["graph object attributes initialised as FortranGraph.__init__ does; graphviz Digraph replaced by a recorder"],
}

NODES = ["a", "b", "c", "d"]


class SymRel:
    """symbolic binary relation over NODES: Bool per ordered pair, decided lazily per path"""

    def __init__(self, name):
        self.var = {(x, y): z3.Bool(f"{name}_{x}{y}") for x in NODES for y in NODES}
        self.decided = {}

    def has(self, x, y):
        k = (x, y)
        if k not in self.decided:
            self.decided[k] = engine().decide(self.var[k])
        return self.decided[k]

    def value(self, m):
        return sorted([k for k, v in self.var.items() if z3.is_true(m.eval(v, model_completion=True))])


class SymNbrs:
    """set-like view: neighbours of node `x` (forward or inverse) — iteration decides membership"""

    def __init__(self, rel, x, nodes, inverse):
        self.rel, self.x, self.nodes, self.inverse = rel, x, nodes, inverse

    def __iter__(self):
        for y in NODES:
            if (self.rel.has(y, self.x) if self.inverse else self.rel.has(self.x, y)):
                yield self.nodes[y]

    def __len__(self):
        return len(list(iter(self)))

    def keys(self):
        return list(iter(self))

    def __getitem__(self, k):
        return "comp"

    def __contains__(self, n):
        return (self.rel.has(n.ident, self.x) if self.inverse else self.rel.has(self.x, n.ident))


class Recorder:
    def __init__(self):
        self.nodes, self.edges = [], []

    def node(self, ident, **kw):
        self.nodes.append(ident)

    def edge(self, tail_name=None, head_name=None, **kw):
        self.edges.append((tail_name, head_name))

    def attr(self, *a, **k):
        pass


# graph class -> (node class, forward attrs, inverse attrs, traversal over inverse?, extra node attrs)
GRAPHS = {
    "UsesGraph": ("ModNode", ["uses"], ["used_by"], False),
    "UsedByGraph": ("ModNode", ["uses"], ["used_by"], True),
    "CallsGraph": ("ProcNode", ["calls"], ["called_by"], False),
    "CalledByGraph": ("ProcNode", ["calls"], ["called_by"], True),
    "InheritsGraph": ("TypeNode", ["comp_types"], ["comp_of"], False),
    "InheritedByGraph": ("TypeNode", ["comp_types"], ["comp_of"], True),
    "EfferentGraph": ("FileNode", ["efferent"], ["afferent"], False),
    "AfferentGraph": ("FileNode", ["efferent"], ["afferent"], True),
}


def _mk(gr, gname, rel, root, max_nodes, max_nesting):
    ncls, fwd, inv, _ = GRAPHS[gname]
    nodes = {}
    for x in NODES:
        n = object.__new__(getattr(gr, ncls))
        n.ident, n.name = x, x
        n.attribs = {"label": x, "color": "#000000"}
        n.fromstr = False
        n.proctype = "subroutine"
        nodes[x] = n
    for x in NODES:
        n = nodes[x]
        for a in fwd:
            setattr(n, a, SymNbrs(rel, x, nodes, False))
        for a in inv:
            setattr(n, a, SymNbrs(rel, x, nodes, True))
        # the other relations the add_node methods look at: empty
        for a in ("interfaces", "interfaced_by", "children"):
            if not hasattr(n, a):
                setattr(n, a, [])
        if ncls == "TypeNode":
            n.ancestor = None
            n.children = []
    g = object.__new__(getattr(gr, gname))
    g.root = [nodes[root]]
    g.data = S.Rec(coloured_edges=False)
    g.hop_nodes, g.hop_edges = [], []
    g.added = {nodes[root]}
    g.max_nesting, g.max_nodes = max_nesting, max_nodes
    g.warn = False
    g.truncated = -1
    g.ident = "g"
    g.dot = Recorder()
    return g, nodes


def reference(edges, root, inverse, max_nodes, max_nesting, universe=None):
    """documented behaviour on a relation: (added nodes, emitted edges (tail, head)).  `edges` is a list of pairs or a
    membership function has(x, y) (then only the edges of the nodes the expansion reaches are ever asked for)"""
    if callable(edges):
        nbr = lambda x: [y for y in universe if (edges(y, x) if inverse else edges(x, y))]
    else:
        nbr = lambda x: sorted({(t if inverse else h) for (t, h) in edges if (h if inverse else t) == x})
    added = {root}
    out_edges = []
    level = [root]
    nesting = 1
    while True:
        hop, hop_edges = [], []
        for n in sorted(level):
            for p in nbr(n):
                if p not in added and p not in hop:
                    hop.append(p)
                hop_edges.append((p, n) if inverse else (n, p))
        if len(hop) + len(added) > max_nodes:
            break
        out_edges += hop_edges
        added |= set(hop)
        if not hop or not (nesting < max_nesting):
            break
        level, nesting = hop, nesting + 1
    return sorted(added), sorted(out_edges)


def replay_graph(w):
    import ford.graphs as gr

    class FixedRel:
        def __init__(self, edges):
            self.e = set(map(tuple, edges))

        def has(self, x, y):
            return (x, y) in self.e

    g, nodes = _mk(gr, w["graph"], FixedRel(w["edges"]), w["root"], w["max_nodes"], w["max_nesting"])
    g.add_nodes(g.root)
    got = (sorted(n.ident for n in g.added), sorted(g.dot.edges))
    want = reference([tuple(e) for e in w["edges"]], w["root"], GRAPHS[w["graph"]][3], w["max_nodes"], w["max_nesting"])
    want = (want[0], sorted(want[1]))
    dangling = [e for e in g.dot.edges if e[0] not in got[0] or e[1] not in got[0]]
    return got != want or bool(dangling), {"ford_nodes": got[0], "ford_edges": got[1], "documented_nodes": want[0],
                                           "documented_edges": want[1], "dangling_edges": dangling}


def _graph_ob(gname):
    @obligation("C13", f"O1.hop-expansion.{gname}", engine="SX", timeout=3000)
    def ob(ctx):
        import ford.graphs as gr

        cls = getattr(gr, gname)
        ctx.encode_fn(cls.add_node, gname + ".add_node")
        ctx.encode_fn(gr.FortranGraph.add_nodes)
        ctx.encode_fn(gr.FortranGraph.add_to_graph)
        ctx.encode_fn(gr.FortranGraph._add_nested_nodes)
        inverse = GRAPHS[gname][3]
        nn = 4 if ctx.thorough else 3
        ctx.bounds.update({"nodes": nn, "relation": "every relation over the nodes (edge presence symbolic)",
                           "graph_maxnodes": "symbolic integer >= 1", "graph_maxdepth": "symbolic integer >= 0"})
        ctx.stubs.append("graphviz Digraph replaced by a recorder; nodes are stand-ins created with object.__new__")

        def h(E):
            rel = SymRel("r")
            for (x, y), v in rel.var.items():
                if NODES.index(x) >= nn or NODES.index(y) >= nn:
                    E.assume(sym.mk_bool(z3.Not(v)))
            mn = E.integer("max_nodes", lo=1, hi=30)
            md = E.integer("max_nesting", lo=0, hi=30)
            g, nodes = _mk(gr, gname, rel, "a", mn, md)
            h.state = (rel, mn, md)
            g.add_nodes(g.root)
            E.reachable("expanded")
            added = sorted(n.ident for n in g.added)
            if len(added) > 1:
                E.reachable("grew")
            # the edges of the expanded nodes are decided on this path; the reference asks lazily for those it needs (edges
            # of nodes neither the code nor the documented expansion reaches stay undecided: they cannot matter)
            # documented outcome for every value of the two limits consistent with this path:
            # enumerate the finitely many distinct behaviours (limits only matter up to nn+1 / nn+1)
            for cmn in range(1, nn + 2):
                for cmd in range(0, nn + 2):
                    cond = z3.And((mn.t == cmn) if cmn <= nn else (mn.t >= cmn), (md.t == cmd) if cmd <= nn else (md.t >= cmd))
                    feasible, _m = E.e._check([cond])
                    if not feasible:
                        continue  # these limit values contradict the branches taken on this path
                    wn, we = reference(rel.has, "a", inverse, cmn if cmn <= nn else 10 ** 6, cmd if cmd <= nn else 10 ** 6, NODES[:nn])
                    ok = added == wn and sorted(g.dot.edges) == sorted(we)
                    E.require(sym.mk_bool(z3.Implies(cond, z3.BoolVal(ok))), "graph content differs from the documented hop expansion")
            dangling = [e for e in g.dot.edges if e[0] not in added or e[1] not in added]
            E.require(sym.mk_bool(z3.BoolVal(not dangling)), "an emitted edge has an end that is not in the graph")

        E = sym.Engine(ctx, max_paths=200000, incremental=True)
        found = E.explore(h)
        seen = set()
        for label, m, pc in found:
            if label in seen:
                continue
            seen.add(label)
            rel, mn, md = h.state
            ctx.report(label, {"graph": gname, "root": "a", "edges": [list(e) for e in rel.value(m)],
                               "max_nodes": E.model_value(m, mn), "max_nesting": E.model_value(m, md)}, replay_graph)
        for nm in ("expanded", "grew"):
            if E.reached.get(nm):
                ctx.twins += 1
            else:
                ctx.inconclusive.append(f"vacuity: no path '{nm}'")
        ctx.sample({"graph": gname, "paths": E.paths})

    ob.__doc__ = f"{gname}: nodes added = hop levels that fit graph_maxnodes/graph_maxdepth; edges = relation edges of expanded nodes, no dangling end"


for _g in GRAPHS:
    _graph_ob(_g)


# ---------------------------------------------------------------------------------------
# O2: node constructors derive both directions of each relation from the (real, correlated) entity tree
# ---------------------------------------------------------------------------------------
from fv import choice as _choice, parserh as _parserh  # noqa: E402
from fv.choice import CV as _CV  # noqa: E402

CALL_OPTS = [("continue", None), ("call sa()", "sa"), ("call sb()", "sb"), ("call sc()", "sc"), ("CALL SB", "sb")]
USE_OPTS = [("implicit none", None), ("use m1", "m1"), ("use m2", "m2"), ("USE M3", "m3")]
EXT_OPTS = [("type :: {n}", None), ("type, extends(ta) :: {n}", "ta"), ("type, extends(tb) :: {n}", "tb"), ("TYPE, EXTENDS(TA) :: {n}", "ta")]
COMP_OPTS = [("integer :: c", None), ("type(ta) :: c", "ta"), ("type(tb), pointer :: c", "tb"), ("class(tc), allocatable :: c", "tc")]
GSET = dict(proc_internals=True, display=["public", "private", "protected"])


def _rel_files(calls, uses, exts, comps):
    return {
        "a.f90": ["module m1", uses[0], "integer :: i1", "end module m1"],
        "b.f90": ["module m2", uses[1], "integer :: i2", "end module m2"],
        "c.f90": ["module m3", uses[2], "integer :: i3", "end module m3"],
        "p.f90": ["module mp", "contains", "subroutine sa()", calls[0], "end subroutine sa", "subroutine sb()", calls[1], "end subroutine sb",
                  "subroutine sc()", calls[2], "end subroutine sc", "end module mp"],
        "t.f90": ["module mt", "type :: ta", "integer :: x", "end type ta", exts[0], comps[0], "end type tb",
                  exts[1], comps[1], "end type tc", "end module mt"],
    }


def _build_nodes(p):
    import ford.graphs as gr

    gd = gr.GraphData("", False, False)
    ents = list(p.modules) + list(p.procedures) + list(p.types)
    for e in ents:
        gd.register(e)
    return gd


def _names(nodes):
    return sorted(str(n.name).lower() for n in nodes)


def _observe_rel(p):
    gd = _build_nodes(p)
    procs = {str(o.name).lower(): n for o, n in gd.procedures.items()}
    mods = {str(o.name).lower(): n for o, n in gd.modules.items()}
    types = {str(o.name).lower(): n for o, n in gd.types.items()}
    out = {}
    for k in ("sa", "sb", "sc"):
        out[f"calls({k})"] = _names(procs[k].calls)
        out[f"called_by({k})"] = _names(procs[k].called_by)
    for k in ("m1", "m2", "m3"):
        out[f"uses({k})"] = _names(mods[k].uses)
        out[f"used_by({k})"] = _names(mods[k].used_by)
    for k in ("ta", "tb", "tc"):
        out[f"ancestor({k})"] = str(types[k].ancestor.name).lower() if types[k].ancestor else None
        out[f"children({k})"] = _names(types[k].children)
        out[f"comp_types({k})"] = _names(types[k].comp_types.keys())
        out[f"comp_of({k})"] = _names(types[k].comp_of.keys())
    return out


def rel_rule(calls, uses, exts, comps):
    """both directions of each relation, from the declared statements"""
    out = {}
    cs = dict(zip(("sa", "sb", "sc"), calls))
    us = dict(zip(("m1", "m2", "m3"), uses))
    ex = {"ta": None, "tb": exts[0], "tc": exts[1]}
    def callee(caller, c):
        return c  # all three procedures live in one module: every call resolves
    for k in cs:
        t = callee(k, cs[k])
        out[f"calls({k})"] = [t] if t else []
    for k in cs:
        out[f"called_by({k})"] = sorted(x for x in cs if callee(x, cs[x]) == k)
    for k in us:
        u = us[k]
        out[f"uses({k})"] = [u] if u and u != k else ([u] if u == k else [])
        out[f"used_by({k})"] = sorted(x for x in us if us[x] == k)
    co = {"ta": None, "tb": comps[0], "tc": comps[1]}
    for k in ex:
        out[f"ancestor({k})"] = ex[k]
        out[f"children({k})"] = sorted(x for x in ex if ex[x] == k)
        out[f"comp_types({k})"] = [co[k]] if co[k] else []
        out[f"comp_of({k})"] = sorted(x for x in co if co[x] == k)
    return out


def replay_rel(w):
    import io, contextlib
    with contextlib.redirect_stdout(io.StringIO()), contextlib.redirect_stderr(io.StringIO()):
        p = _parserh.project_concrete(_rel_files(*w["slots"]), **GSET)
        got = _observe_rel(p)
    diff = {k: (got[k], w["expected"][k]) for k in got if got[k] != w["expected"][k]}
    return bool(diff), {"files": _rel_files(*w["slots"]), "differences (ford, declared)": diff}


def _constructors_ob(name, vary):
    @obligation("C13", "O2.node-constructors." + name, engine="SX(CV)", timeout=3000)
    def ob(ctx):
        import io, contextlib
        import ford.graphs as gr

        for c in (gr.ModNode, gr.ProcNode, gr.TypeNode):
            ctx.encode_fn(c.__init__, c.__name__ + ".__init__")
        ctx.encode_fn(gr.get_call_nodes)
        ctx.encode_fn(gr.GraphData.register)
        ctx.bounds.update({"symbolic": vary, "call options": len(CALL_OPTS), "use options": len(USE_OPTS), "extends options": len(EXT_OPTS),
                           "component options": len(COMP_OPTS)})

        def pick(E, nm, opts, group):
            if group in vary:
                return _CV.choice(E, nm, opts)
            return opts[0]  # the neutral option

        def h(E):
            calls = [pick(E, f"call{i}", CALL_OPTS, "calls") for i in range(3)]
            # calls across modules need the USE: when only calls vary every module uses the next one (acyclic)
            uses = [pick(E, f"use{i}", USE_OPTS, "uses") for i in range(3)]
            exts = [pick(E, f"ext{i}", [(t.replace("{n}", nm), m_) for t, m_ in EXT_OPTS], "types") for i, nm in enumerate(("tb", "tc"))]
            comps = [pick(E, f"comp{i}", COMP_OPTS, "types") for i in range(2)]

            def acyclic(a, b, c):
                us = {"m1": a, "m2": b, "m3": c}
                for start in us:
                    seen_, cur = set(), start
                    while cur is not None and cur not in seen_:
                        seen_.add(cur)
                        cur = us.get(cur)
                    if cur is not None:
                        return False
                return True
            E.assume(_choice.apply(acyclic, uses[0][1], uses[1][1], uses[2][1]))
            E.assume(_choice.apply(lambda a, b: a != "tb" and not (a == "tc"), exts[0][1], exts[1][1]))
            allv = calls + uses + exts + comps
            h.want = _choice.apply(lambda *v: rel_rule(v[0:3], v[3:6], v[6:8], v[8:10]), *[x[1] for x in allv])
            E.e.snapshot = lambda m: {"slots": [[_choice.value_in_model(m, x)[0] for x in grp] for grp in (calls, uses, exts, comps)],
                                      "expected": _choice.value_in_model(m, h.want)}
            with contextlib.redirect_stdout(io.StringIO()), contextlib.redirect_stderr(io.StringIO()):
                got = _parserh.project(_rel_files([x[0] for x in calls], [x[0] for x in uses], [x[0] for x in exts], [x[0] for x in comps]),
                                       post=_observe_rel, post_modules=(gr,), **GSET)
            E.reachable("built")
            for k in sorted(got):
                E.require(_choice.apply(lambda g, w_, k=k: g == w_[k], got[k], h.want), f"{k}: differs from the declared relation")

        E = sym.Engine(ctx, max_paths=300000, incremental=True)
        found = E.explore(h)
        seen = set()
        for (label, m, pc), snap in zip(found, E.snapshots):
            if label in seen:
                continue
            seen.add(label)
            ctx.report(label, snap, replay_rel)
        if E.reached.get("built"):
            ctx.twins += 1
        else:
            ctx.inconclusive.append("vacuity: no graph data built")
        ctx.sample({"paths": E.paths})

    ob.__doc__ = ("graph nodes built by the real constructors from a symbolic project (varying " + ", ".join(vary) + "): calls/called_by, "
                  "uses/used_by, ancestor/children and comp_types/comp_of are exactly the declared relation and its inverse")


_constructors_ob("calls", ("calls",))
_constructors_ob("uses", ("uses",))
_constructors_ob("types", ("types",))


# ---------------------------------------------------------------------------------------
# O3: the project-wide call graph (GraphManager.graph_all) agrees with the per-procedure graphs and with the declared calls
# ---------------------------------------------------------------------------------------
GEN_OPTS = [("generic :: combine => add_vec", ["add_vec"]), ("generic :: combine => add_vec, sub_vec", ["add_vec", "sub_vec"]),
            ("GENERIC :: COMBINE => ADD_VEC", ["add_vec"]), ("generic, public :: combine => sub_vec", ["sub_vec"])]
DRV_OPTS = [("call v%combine()", "combine"), ("call add_vec(v)", "add_vec"), ("call v%add_vec()", "add_vec"), ("continue", None)]


def _pw_files(gen, drv):
    return {"a.f90": ["module mv", "type vec", "integer :: c", "contains", "procedure :: add_vec", "procedure :: sub_vec", gen, "end type vec",
                      "contains", "subroutine add_vec(self)", "class(vec) :: self", "end subroutine add_vec",
                      "subroutine sub_vec(self)", "class(vec) :: self", "call add_vec(self)", "end subroutine sub_vec",
                      "subroutine driver(v)", "type(vec) :: v", drv, "end subroutine driver", "end module mv"]}


class _Rec3:
    def __init__(self, *a, **k):
        self.nodes, self.edges = [], []

    def node(self, ident, **kw):
        self.nodes.append(str(ident))

    def edge(self, *a, **kw):
        self.edges.append((str(kw.get("tail_name", a[0] if a else None)), str(kw.get("head_name", a[1] if len(a) > 1 else None))))

    def attr(self, *a, **k):
        pass


def _pw_observe(p):
    import ford.graphs as gr
    oldd, oldg = gr.Digraph, gr.graphviz_installed
    gr.Digraph, gr.graphviz_installed = _Rec3, False
    try:
        gm = gr.GraphManager("", "", False, False, save_graphs=False)
        for lst in (p.types, p.procedures, p.submodprocedures, p.modules, p.submodules, p.programs, p.files, p.blockdata):
            for e in lst:
                gm.register(e)
        gm.graph_all()
        pw_nodes, pw_edges = set(gm.callgraph.dot.nodes), set(gm.callgraph.dot.edges)
        per = {}
        for pr in p.procedures:
            g = getattr(pr, "callsgraph", None)
            if g is not None:
                per[str(pr.name).lower()] = set(g.dot.edges)
        return pw_nodes, pw_edges, per
    finally:
        gr.Digraph, gr.graphviz_installed = oldd, oldg


GSET3 = dict(proc_internals=True, graph=True, display=["public", "private", "protected"])


def _pw_missing(obs):
    pw_nodes, pw_edges, per = obs
    missing = []
    for name, edges in sorted(per.items()):
        for (a, b) in sorted(edges):
            if a in pw_nodes and b in pw_nodes and (a, b) not in pw_edges:
                missing.append((name, a, b))
    return missing


def replay_pw(w):
    import io, contextlib
    import ford.sourceform as sf
    old = sf.namelist
    sf.namelist = sf.NameSelector()
    try:
        with contextlib.redirect_stdout(io.StringIO()), contextlib.redirect_stderr(io.StringIO()):
            p = _parserh.project_concrete(_pw_files(w["generic"], w["driver"]), **GSET3)
            obs = _pw_observe(p)
    finally:
        sf.namelist = old
    missing = _pw_missing(obs)
    generic_edges = [e for e in obs[1] if "combine" in e[0]]
    bad = bool(missing) or len(generic_edges) != len(w["specifics"])
    return bad, {"generic": w["generic"], "driver statement": w["driver"],
                 "edges of a per-procedure calls graph missing from the project-wide call graph (both ends are nodes of it)": missing,
                 "edges generic -> specific in the project-wide graph": sorted(generic_edges), "declared specifics": w["specifics"]}


@obligation("C13", "O3.project-wide-call-graph", engine="SX(CV)", timeout=900)
def project_wide(ctx):
    """GraphManager.graph_all on a parsed project with a generic type-bound procedure (symbolic: one or two specifics) and a symbolic
    call statement: every edge of a per-procedure calls graph whose two ends are nodes of the project-wide call graph is an edge of
    it, and the generic has exactly one edge to each of its specifics"""
    import io, contextlib
    import ford.graphs as gr

    ctx.encode_fn(gr.GraphManager.graph_all)
    ctx.encode_fn(gr.GraphManager.register)
    ctx.encode_fn(gr.CallGraph.add_node, "CallGraph.add_node")
    ctx.bounds.update({"generic spellings": len(GEN_OPTS), "driver statements": len(DRV_OPTS)})
    ctx.stubs.append("graphviz Digraph replaced by a recorder; graphviz_installed=False")

    def h(E):
        g = _CV.choice(E, "generic", GEN_OPTS)
        d = _CV.choice(E, "driver", DRV_OPTS)
        E.e.snapshot = lambda m: {"generic": _choice.value_in_model(m, g)[0], "specifics": _choice.value_in_model(m, g)[1],
                                  "driver": _choice.value_in_model(m, d)[0]}
        with contextlib.redirect_stdout(io.StringIO()), contextlib.redirect_stderr(io.StringIO()):
            obs = _parserh.project(_pw_files(g[0], d[0]), post=_pw_observe, post_modules=(gr,), **GSET3)
        E.reachable("graphs")
        E.require(not _pw_missing(obs), "an edge of a per-procedure calls graph is missing from the project-wide call graph")
        gen_edges = [e for e in obs[1] if "combine" in e[0]]
        E.require(_choice.apply(lambda sp: len(gen_edges) == len(sp), g[1]), "the generic binding does not have one edge to each of its specifics in the project-wide call graph")

    E = sym.Engine(ctx, max_paths=5000, incremental=True)
    found = E.explore(h)
    seen = set()
    for (label, m, pc), snap in zip(found, E.snapshots):
        if label in seen or not snap:
            continue
        seen.add(label)
        ctx.report(label, snap, replay_pw)
    if E.reached.get("graphs"):
        ctx.twins += 1
    else:
        ctx.inconclusive.append("vacuity: no graphs built")
    ctx.sample({"paths": E.paths})


# ---------------------------------------------------------------------------------------
# O4: file dependency nodes: a file depends on exactly the OTHER files that define the modules its units use (whatever the order
# of same-file and cross-file USE statements), and the inverse relation mirrors it
# ---------------------------------------------------------------------------------------
FUSE = [("implicit none", None), ("use local_mod", "a.f90"), ("use base_mod", "b.f90"), ("use tools_mod", "c.f90"), ("USE BASE_MOD", "b.f90")]


def _file_files(u1, u2, u3, u4="implicit none"):
    # u4: a USE inside an internal procedure of a module procedure (two levels below the module)
    return {"a.f90": ["module local_mod", "integer :: l", "end module local_mod", "module app_mod", u1, u2, "integer :: a", "contains",
                      "subroutine outer()", "contains", "subroutine inner()", u4, "end subroutine inner", "end subroutine outer", "end module app_mod",
                      "submodule (local_mod) local_impl", u3, "end submodule local_impl"],
            "b.f90": ["module base_mod", "integer :: b", "end module base_mod"],
            "c.f90": ["module tools_mod", "integer :: t", "end module tools_mod"]}


def file_rule(t1, t2, t3, t4=None):
    eff = {"a.f90": sorted({t for t in (t1, t2, t3, t4) if t and t != "a.f90"}), "b.f90": [], "c.f90": []}
    aff = {f: sorted(g for g in eff if f in eff[g]) for f in eff}
    return {"efferent": eff, "afferent": aff}


def _file_observe(p):
    import ford.graphs as gr
    gd = gr.GraphData("", False, False)
    for lst in (p.types, p.procedures, p.submodprocedures, p.modules, p.submodules, p.programs, p.files, p.blockdata):
        for e in lst:
            gd.register(e)
    nodes = {str(o.name): n for o, n in gd.sourcefiles.items()}
    return {"efferent": {k: sorted(str(x.name) for x in n.efferent) for k, n in sorted(nodes.items())},
            "afferent": {k: sorted(str(x.name) for x in n.afferent) for k, n in sorted(nodes.items())}}


def replay_files(w):
    import io, contextlib
    import ford.sourceform as sf
    old = sf.namelist
    sf.namelist = sf.NameSelector()
    try:
        with contextlib.redirect_stdout(io.StringIO()), contextlib.redirect_stderr(io.StringIO()):
            p = _parserh.project_concrete(_file_files(*w["uses"]), **GSET3)
            got = _file_observe(p)
    finally:
        sf.namelist = old
    return got != w["expected"], {"use statements (app_mod, app_mod, submodule, internal procedure of a procedure of app_mod)": w["uses"], "ford": got, "declared": w["expected"]}


@obligation("C13", "O4.file-dependency-nodes", engine="SX(CV)", timeout=900)
def file_nodes(ctx):
    """three files; a module with two symbolic USE statements, a submodule (whose first dependency is its same-file ancestor) with
    one, and an internal procedure two levels below the module with one: the file nodes' efferent / afferent sets are exactly the cross-file dependencies and their inverse"""
    import io, contextlib
    import ford.graphs as gr

    ctx.encode_fn(gr.FileNode.__init__, "FileNode.__init__")
    ctx.encode_fn(gr.GraphData.register)
    ctx.bounds.update({"use options": len(FUSE), "use slots": 4})

    def h(E):
        us = [_CV.choice(E, f"u{i}", FUSE) for i in range(4)]
        want = _choice.apply(file_rule, us[0][1], us[1][1], us[2][1], us[3][1])
        E.e.snapshot = lambda m: {"uses": [_choice.value_in_model(m, u)[0] for u in us], "expected": _choice.value_in_model(m, want)}
        with contextlib.redirect_stdout(io.StringIO()), contextlib.redirect_stderr(io.StringIO()):
            got = _parserh.project(_file_files(us[0][0], us[1][0], us[2][0], us[3][0]), post=_file_observe, post_modules=(gr,), **GSET3)
        E.reachable("nodes")
        E.require(_choice.apply(lambda w_: got == w_, want), "file dependency sets differ from the declared USE relation")

    E = sym.Engine(ctx, max_paths=20000, incremental=True)
    found = E.explore(h)
    seen = set()
    for (label, m, pc), snap in zip(found, E.snapshots):
        if label in seen or not snap:
            continue
        seen.add(label)
        ctx.report(label, snap, replay_files)
    if E.reached.get("nodes"):
        ctx.twins += 1
    else:
        ctx.inconclusive.append("vacuity: no file nodes")
    ctx.sample({"paths": E.paths})


# ---------------------------------------------------------------------------------------
# O5: modules and submodules: the used-by graph of a module is the inverse view of the uses graphs (use edges and submodule ancestry)
# ---------------------------------------------------------------------------------------
SUBUSE = [("implicit none", False), ("use base_mod", True), ("USE BASE_MOD", True)]


def _sm_files(pu, cu, gu):
    return {"a.f90": ["module base_mod", "integer :: b", "end module base_mod",
                      "module parent_mod", pu, "interface", "module subroutine work()", "end subroutine work", "end interface", "end module parent_mod",
                      "submodule (parent_mod) child_smod", cu, "end submodule child_smod",
                      "submodule (parent_mod:child_smod) grand_smod", gu, "end submodule grand_smod"]}


def _sm_observe(p):
    import ford.graphs as gr
    oldd, oldg = gr.Digraph, gr.graphviz_installed
    gr.Digraph, gr.graphviz_installed = _Rec3, False
    try:
        gm = gr.GraphManager("", "", False, False, save_graphs=False)
        for lst in (p.types, p.procedures, p.submodprocedures, p.modules, p.submodules, p.programs, p.files, p.blockdata):
            for e in lst:
                gm.register(e)
        gm.graph_all()
        ents = {str(e.name).lower(): e for e in list(p.modules) + list(p.submodules)}
        uses = {k: set(e.usesgraph.dot.edges) for k, e in ents.items()}
        usedby = {k: (set(e.usedbygraph.dot.nodes), set(e.usedbygraph.dot.edges)) for k, e in ents.items() if hasattr(e, "usedbygraph")}
        return uses, usedby
    finally:
        gr.Digraph, gr.graphviz_installed = oldd, oldg


def _sm_missing(obs):
    uses, usedby = obs
    out = []
    for root, (nodes, edges) in sorted(usedby.items()):
        for x, es in sorted(uses.items()):
            for (a, b) in sorted(es):
                if a in nodes and b in nodes and (a, b) not in edges:
                    out.append((root, x, a, b))
    return out


def replay_sm(w):
    import io, contextlib
    import ford.sourceform as sf
    old = sf.namelist
    sf.namelist = sf.NameSelector()
    try:
        with contextlib.redirect_stdout(io.StringIO()), contextlib.redirect_stderr(io.StringIO()):
            p = _parserh.project_concrete(_sm_files(*w["uses"]), **GSET3)
            obs = _sm_observe(p)
    finally:
        sf.namelist = old
    missing = _sm_missing(obs)
    return bool(missing), {"use statements (parent module, child submodule, grandchild submodule)": w["uses"],
                           "(used-by graph of, uses graph of, edge) present in the uses graph, both ends shown, edge missing": missing[:6]}


@obligation("C13", "O5.used-by-is-the-inverse-view", engine="SX(CV)", timeout=900)
def usedby_inverse(ctx):
    """module, child submodule and grandchild submodule with symbolic USE statements of a base module: every edge of a uses graph whose two
    ends are shown in some used-by graph is an edge of that used-by graph (use edges and submodule ancestry edges alike)"""
    import io, contextlib
    import ford.graphs as gr

    ctx.encode_fn(gr.UsedByGraph.add_node, "UsedByGraph.add_node")
    ctx.encode_fn(gr.UsesGraph.add_node, "UsesGraph.add_node")
    ctx.encode_fn(gr.ModNode.__init__, "ModNode.__init__")
    ctx.bounds.update({"use options per unit": len(SUBUSE), "units": 3})

    def h(E):
        us = [_CV.choice(E, f"u{i}", SUBUSE) for i in range(3)]
        E.e.snapshot = lambda m: {"uses": [_choice.value_in_model(m, u)[0] for u in us]}
        with contextlib.redirect_stdout(io.StringIO()), contextlib.redirect_stderr(io.StringIO()):
            obs = _parserh.project(_sm_files(us[0][0], us[1][0], us[2][0]), post=_sm_observe, post_modules=(gr,), **GSET3)
        E.reachable("graphs")
        if any(len(v[1]) > 1 for v in obs[1].values()):
            E.reachable("a used-by graph with several edges")
        E.require(not _sm_missing(obs), "an edge of a uses graph is missing from a used-by graph that shows both of its ends")

    E = sym.Engine(ctx, max_paths=5000, incremental=True)
    found = E.explore(h)
    seen = set()
    for (label, m, pc), snap in zip(found, E.snapshots):
        if label in seen or not snap:
            continue
        seen.add(label)
        ctx.report(label, snap, replay_sm)
    for lab in ("graphs", "a used-by graph with several edges"):
        if E.reached.get(lab):
            ctx.twins += 1
        else:
            ctx.inconclusive.append(f"vacuity: '{lab}' never reached")
    ctx.sample({"paths": E.paths})
