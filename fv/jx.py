"""JX engine: link-emission conditions (Jinja AST of the real templates) vs page-creation
conditions (Python AST of Documentation.__init__) -> linear integer arithmetic."""
import ast
import glob
import inspect
import os
import re
import textwrap

import z3
from jinja2 import nodes

from fv.core import Inconclusive, REPO


class Shape:
    """symbolic project shape: sizes of project.<list> and boolean settings"""

    def __init__(self):
        self.V = {}
        self.fresh = 0

    def size(self, name):
        k = "n_" + name
        if k not in self.V:
            self.V[k] = z3.Int(k)
        return self.V[k]

    def flag(self, name):
        k = "b_" + name
        if k not in self.V:
            self.V[k] = z3.Bool(k)
        return self.V[k]

    def unknown(self):
        self.fresh += 1
        return z3.Bool(f"unk_{self.fresh}")

    def facts(self):
        return [v >= 0 for k, v in self.V.items() if k.startswith("n_")]


# ---------------------------------------------------------------------------
# Jinja side
# ---------------------------------------------------------------------------
class JinjaWalker:
    def __init__(self, shape, more_than_one):
        self.sh = shape
        self.more_than_one = more_than_one  # python callable semantic read from ford.output
        self.sites = []  # dict(template, kind, target, conds, lineno)
        self.set_names = set()
        self.env = {}  # names bound by an enclosing {% with name = expr %}: substituted by their defining expression

    def length(self, e):
        if isinstance(e, nodes.Name) and e.name in self.env:
            return self.length(self.env[e.name])
        if isinstance(e, nodes.Getattr) and isinstance(e.node, nodes.Name) and e.node.name == "project":
            return self.sh.size(e.attr)
        if isinstance(e, nodes.Add):
            return self.length(e.left) + self.length(e.right)
        if isinstance(e, nodes.Filter) and e.name == "length":
            return self.length(e.node)
        if isinstance(e, nodes.Const) and isinstance(e.value, int):
            return z3.IntVal(e.value)
        raise NotImplementedError(type(e).__name__)

    def truth(self, e):
        if isinstance(e, nodes.Name):
            if e.name in self.env:
                v = self.env[e.name]
                try:
                    return self.length(v) > 0  # a size / a list: true iff non-zero / non-empty
                except NotImplementedError:
                    return self.truth(v)
            if e.name in self.set_names:
                return self.sh.unknown()
            return self.sh.flag(e.name)
        if isinstance(e, nodes.Getattr):
            return self.length(e) > 0
        if isinstance(e, nodes.Not):
            return z3.Not(self.truth(e.node))
        if isinstance(e, nodes.And):
            return z3.And(self.truth(e.left), self.truth(e.right))
        if isinstance(e, nodes.Or):
            return z3.Or(self.truth(e.left), self.truth(e.right))
        if isinstance(e, nodes.Test) and e.name == "more_than_one":
            return self.more_than_one(self.length(e.node))
        if isinstance(e, nodes.Compare):
            l = self.length(e.expr)
            op = e.ops[0]
            r = self.length(op.expr)
            return {"eq": l == r, "gt": l > r, "lt": l < r, "gteq": l >= r, "lteq": l <= r, "ne": l != r}[op.op]
        raise NotImplementedError(type(e).__name__)

    def truth_safe(self, e):
        try:
            return self.truth(e)
        except (NotImplementedError, KeyError):
            return self.sh.unknown()  # unconstrained: the link may be emitted

    def scan_output(self, n, conds, tname):
        for d in n.nodes:
            if isinstance(d, nodes.TemplateData):
                for m in re.finditer(r"/lists/(\w+\.html)", d.data):
                    self.sites.append(dict(template=tname, kind="list", target=m.group(1), conds=list(conds), line=n.lineno))
                for m in re.finditer(r"/(search\.html|index\.html)", d.data):
                    self.sites.append(dict(template=tname, kind="top", target=m.group(1), conds=list(conds), line=n.lineno))
            else:
                self.scan_expr(d, conds, tname)

    def scan_expr(self, e, conds, tname):
        """project.X[0] needs |X| >= 1"""
        for sub in e.find_all(nodes.Getitem):
            if (isinstance(sub.arg, nodes.Const) and isinstance(sub.arg.value, int) and isinstance(sub.node, nodes.Getattr)
                    and isinstance(sub.node.node, nodes.Name) and sub.node.node.name == "project"):
                self.sites.append(dict(template=tname, kind="index", target=(sub.node.attr, sub.arg.value),
                                       conds=list(conds), line=e.lineno))

    def walk(self, body, conds, tname):
        for n in body:
            if isinstance(n, nodes.If):
                c = self.truth_safe(n.test)
                self.walk(n.body, conds + [c], tname)
                neg = [z3.Not(c)]
                for el in n.elif_:
                    ce = self.truth_safe(el.test)
                    self.walk(el.body, conds + neg + [ce], tname)
                    neg.append(z3.Not(ce))
                self.walk(n.else_, conds + neg, tname)
            elif isinstance(n, nodes.Output):
                self.scan_output(n, conds, tname)
            elif isinstance(n, nodes.Assign):
                for t in n.target.find_all(nodes.Name) if not isinstance(n.target, nodes.Name) else [n.target]:
                    self.set_names.add(t.name)
            elif isinstance(n, nodes.With):
                saved = dict(self.env)
                for t, v in zip(n.targets, n.values):
                    if isinstance(t, nodes.Name):
                        self.env[t.name] = v
                self.walk(n.body, conds, tname)
                self.env = saved
            elif isinstance(n, nodes.For):
                try:
                    c = self.length(n.iter) > 0
                    extra = [c]
                except NotImplementedError:
                    extra = []
                self.walk(n.body, conds + extra, tname)
                self.walk(n.else_, conds, tname)
            else:
                for fld in ("body", "else_"):
                    v = getattr(n, fld, None)
                    if isinstance(v, list):
                        self.walk(v, conds, tname)


def _collect_set_names(tree):
    out = set()
    for a in tree.find_all(nodes.Assign):
        t = a.target
        if isinstance(t, nodes.Name):
            out.add(t.name)
        else:
            for x in t.find_all(nodes.Name):
                out.add(x.name)
    return out


def template_sites(shape, ctx=None):
    import ford.output as out

    # semantic of the `more_than_one` test, read from the real function by running it on a z3 Int
    mto = out.env.tests["more_than_one"]
    w = JinjaWalker(shape, lambda x: mto(x))
    tdir = os.path.join(os.path.dirname(out.__file__), "templates")
    for path in sorted(glob.glob(os.path.join(tdir, "*.html"))):
        src = open(path).read()
        if ctx is not None:
            ctx.encode_text("templates/" + os.path.basename(path), src, "jinja-template")
        tree = out.env.parse(src)
        w.set_names = _collect_set_names(tree)
        w.walk(tree.body, [], os.path.basename(path))
    return w.sites


# ---------------------------------------------------------------------------
# Python side
# ---------------------------------------------------------------------------
class PySide:
    def __init__(self, shape):
        self.sh = shape

    def expr(self, e):
        if isinstance(e, ast.Compare) and len(e.ops) == 1:
            l = self.expr(e.left)
            r = self.expr(e.comparators[0])
            o = type(e.ops[0])
            table = {ast.Gt: lambda: l > r, ast.GtE: lambda: l >= r, ast.Lt: lambda: l < r, ast.LtE: lambda: l <= r,
                     ast.Eq: lambda: l == r, ast.NotEq: lambda: l != r}
            return table[o]()
        if isinstance(e, ast.Call) and getattr(e.func, "id", "") == "len":
            return self.expr(e.args[0])
        if isinstance(e, ast.Attribute) and isinstance(e.value, ast.Name) and e.value.id == "project":
            return self.sh.size(e.attr)
        if isinstance(e, ast.Attribute) and isinstance(e.value, ast.Name) and e.value.id == "settings":
            return self.sh.flag(e.attr)
        if isinstance(e, ast.BinOp) and isinstance(e.op, ast.Add):
            return self.expr(e.left) + self.expr(e.right)
        if isinstance(e, ast.Constant) and isinstance(e.value, int):
            return z3.IntVal(e.value)
        if isinstance(e, ast.BoolOp):
            vs = [self.truth(x) for x in e.values]
            return z3.And(*vs) if isinstance(e.op, ast.And) else z3.Or(*vs)
        if isinstance(e, ast.UnaryOp) and isinstance(e.op, ast.Not):
            return z3.Not(self.truth(e.operand))
        raise NotImplementedError(ast.dump(e)[:80])

    def truth(self, e):
        v = self.expr(e)
        return v if z3.is_bool(v) else v > 0


def page_conditions(shape, ctx=None):
    """{out_page: z3 condition under which Documentation creates (and writeout writes) it}"""
    import ford.output as out

    src = textwrap.dedent(inspect.getsource(out.Documentation.__init__))
    if ctx is not None:
        ctx.encode_text("Documentation.__init__", src, "python-source")
    tree = ast.parse(src)
    ps = PySide(shape)
    pages = {}

    def visit(stmts, conds):
        for s in stmts:
            if isinstance(s, ast.If):
                try:
                    c = ps.truth(s.test)
                except NotImplementedError:
                    c = None
                visit(s.body, conds + ([c] if c is not None else [z3.BoolVal(False)]))
                visit(s.orelse, conds + ([z3.Not(c)] if c is not None else [z3.BoolVal(False)]))
            elif isinstance(s, (ast.Try,)):
                visit(s.body, conds)
            elif isinstance(s, (ast.For, ast.With)):
                pass
            elif isinstance(s, ast.Expr) and isinstance(s.value, ast.Call) and ast.unparse(s.value.func) == "self.lists.append":
                arg = s.value.args[0]
                if isinstance(arg, ast.Call) and isinstance(arg.func, ast.Name):
                    cls = getattr(out, arg.func.id, None)
                    page = getattr(cls, "out_page", None)
                    if isinstance(page, str):
                        c = z3.And(*conds) if conds else z3.BoolVal(True)
                        pages[page] = z3.Or(pages[page], c) if page in pages else c
            elif isinstance(s, ast.Assign) and ast.unparse(s.targets[0]) in ("self.search", "self.index"):
                if isinstance(s.value, ast.Call) and isinstance(s.value.func, ast.Name):
                    cls = getattr(out, s.value.func.id, None)
                    tp = getattr(cls, "template_path", None)
                    if isinstance(tp, str):
                        pages["TOP:" + tp] = z3.And(*conds) if conds else z3.BoolVal(True)

    visit(tree.body[0].body, [])
    # index and search pages must also be in writeout's item list
    wsrc = textwrap.dedent(inspect.getsource(out.Documentation.writeout))
    if ctx is not None:
        ctx.encode_text("Documentation.writeout", wsrc, "python-source")
    for k in list(pages):
        if k.startswith("TOP:"):
            attr = "self.search" if "search" in k else "self.index"
            if attr not in wsrc:
                pages[k] = z3.BoolVal(False)
    return pages


def main_facts(shape, ctx=None):
    """facts guaranteed by ford.main before Documentation is built (e.g. |files| >= 1)"""
    import ford

    src = textwrap.dedent(inspect.getsource(ford.main))
    if ctx is not None:
        ctx.encode_text("ford.main", src, "python-source")
    tree = ast.parse(src)
    ps = PySide(shape)
    facts = []
    for n in ast.walk(tree):
        if isinstance(n, ast.If) and any(
            isinstance(x, ast.Expr) and isinstance(x.value, ast.Call) and ast.unparse(x.value.func) == "sys.exit" for x in n.body
        ):
            try:
                facts.append(z3.Not(ps.truth(n.test)))
            except NotImplementedError:
                pass
    return facts
