"""Nondeterministic-order stub for `set`: a set whose iteration order is an arbitrary permutation picked by the solver.

CPython iterates a set in hash order; for `str`/`Path` elements that order changes with PYTHONHASHSEED, for objects
hashed by identity with memory addresses.  Code whose result must not depend on it is run with the name `set` of the
module under analysis rebound to PermSet: every iteration forks over the permutations of the elements (one solver
decision per permutation; bound: MAX_ELEMS elements).  Sets built by comprehensions / set operators are ordinary sets
(their order is CPython's, i.e. ONE of the admissible orders): stated as outside the model.
"""
import itertools

from fv import sym
from fv.choice import CV
from fv.sym import engine

MAX_ELEMS = 5
_counter = [0]
LOG = []  # (site serial, chosen order as tuple of keys) of the current path


def reset():
    _counter[0] = 0
    del LOG[:]


def _key(x):
    import pathlib
    if isinstance(x, (str, pathlib.PurePath)):
        return (0, str(x))
    if isinstance(x, (int, float)):
        return (1, x)
    return (2, hash(x))  # FortranBase.__hash__ is the deterministic creation serial inside the harness


def _label(x):
    import os
    import pathlib
    if isinstance(x, pathlib.PurePath):
        return os.path.basename(str(x))
    if isinstance(x, str):
        return x
    n = getattr(x, "name", None)
    return n if isinstance(n, str) else type(x).__name__


class PermSet(set):
    def __iter__(self):
        items = sorted(set.__iter__(self), key=_key)
        n = len(items)
        if n <= 1:
            return iter(items)
        if n > MAX_ELEMS:
            raise sym.Unsupported(f"set of {n} elements iterated (bound {MAX_ELEMS})")
        site = _counter[0]
        _counter[0] += 1
        E = sym._BaseAdder(engine())
        perms = [list(p) for p in itertools.permutations(range(n))]
        pick = CV.choice(E, f"setorder{site}", perms)
        order = pick.concretize()
        LOG.append((site, tuple(_label(items[j]) for j in order)))
        return iter([items[j] for j in order])


def sym_sorted(iterable, *, key=None, reverse=False):
    """`sorted` for modules whose sets are PermSets: when the sort keys of the elements are pairwise strictly ordered the
    result cannot depend on the iteration order, so no permutation is forked (sound cut); with ties (stable sort exposes
    the input order) or symbolic comparisons the set is iterated through the permutation stub as usual"""
    if isinstance(iterable, PermSet):
        items = sorted(set.__iter__(iterable), key=_key)
        ks = [x if key is None else key(x) for x in items]
        strict = True
        try:
            for i in range(len(ks)):
                for j in range(i + 1, len(ks)):
                    a, b = ks[i] < ks[j], ks[j] < ks[i]
                    if not (a is True and b is False or a is False and b is True):
                        strict = False
        except Exception:  # noqa
            strict = False
        if strict:
            return sorted(items, key=key, reverse=reverse)
    return sorted(iterable, key=key, reverse=reverse)
