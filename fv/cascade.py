"""The statement cascade of FortranContainer.__init__, extracted from the current AST."""
import ast
import inspect
import os
import re
import tempfile
import textwrap

import z3

from fv import rx
from fv.core import Inconclusive


class Branch:
    def __init__(self, idx, test):
        self.idx = idx
        self.test = test
        self.src = ast.unparse(test)
        self.kind = None  # 'eq' | 'in' | 're'
        self.consts = []
        self.pats = []  # (attr, method)
        self.alt = False  # patterns joined by `or`
        self.guards = []  # ast nodes of the remaining conjuncts
        self._classify()

    def _pat_call(self, node):
        """self.X_RE.match(line) possibly wrapped in a walrus -> (attr, method)"""
        if isinstance(node, ast.NamedExpr):
            node = node.value
        if (
            isinstance(node, ast.Call)
            and isinstance(node.func, ast.Attribute)
            and node.func.attr in ("match", "search", "fullmatch")
            and isinstance(node.func.value, ast.Attribute)
            and isinstance(node.func.value.value, ast.Name)
            and node.func.value.value.id == "self"
            and len(node.args) == 1
            and isinstance(node.args[0], ast.Name)
            and node.args[0].id == "line"
        ):
            return (node.func.value.attr, node.func.attr)
        return None

    def _classify(self):
        t = self.test
        if isinstance(t, ast.Compare) and isinstance(t.left, ast.Name) and t.left.id == "line_lower" and len(t.ops) == 1:
            c = t.comparators[0]
            if isinstance(t.ops[0], ast.Eq) and isinstance(c, ast.Constant):
                self.kind, self.consts = "eq", [c.value]
                return
            if isinstance(t.ops[0], ast.In) and isinstance(c, (ast.List, ast.Tuple, ast.Set)):
                self.kind, self.consts = "in", [e.value for e in c.elts]
                return
            if isinstance(t.ops[0], ast.In) and isinstance(c, (ast.Name, ast.Attribute)):
                # a named constant: take its live value (module global / class attribute of ford.sourceform)
                import ford.sourceform as _sf
                val = None
                if isinstance(c, ast.Name):
                    val = getattr(_sf, c.id, None)
                elif isinstance(c.value, ast.Name) and c.value.id == "self":
                    val = getattr(_sf.FortranContainer, c.attr, None)
                elif isinstance(c.value, ast.Name):
                    val = getattr(getattr(_sf, c.value.id, None), c.attr, None)
                if isinstance(val, (list, tuple, set, frozenset)) and val and all(isinstance(x, str) for x in val):
                    self.kind, self.consts = "in", sorted(val)
                    return
        pc = self._pat_call(t)
        if pc:
            self.kind, self.pats = "re", [pc]
            return
        if isinstance(t, ast.BoolOp) and isinstance(t.op, ast.And):
            pc = self._pat_call(t.values[0])
            if pc:
                self.kind, self.pats, self.guards = "re", [pc], t.values[1:]
                return
        if isinstance(t, ast.BoolOp) and isinstance(t.op, ast.Or):
            pcs = [self._pat_call(v) for v in t.values]
            if all(pcs):
                self.kind, self.pats, self.alt = "re", pcs, True
                return
        raise Inconclusive(f"cascade branch {self.idx} has a test the extractor cannot read: {self.src}")

    @property
    def key(self):
        if self.kind == "re":
            return "|".join(a for a, _ in self.pats)
        return "|".join(sorted(self.consts))  # a list of literals is a set: its spelling order is irrelevant


def extract():
    from ford.sourceform import FortranContainer as FC

    src = textwrap.dedent(inspect.getsource(FC.__init__))
    fn = ast.parse(src).body[0]
    loops = [n for n in fn.body if isinstance(n, ast.For) and ast.unparse(n.iter) == "source"]
    if len(loops) != 1:
        raise Inconclusive("cannot locate `for line in source` in FortranContainer.__init__")
    chains = [n for n in loops[0].body if isinstance(n, ast.If) and "line_lower" in ast.unparse(n.test)]
    if not chains:
        raise Inconclusive("cannot locate the statement cascade")
    n = chains[-1]
    out = []
    while True:
        out.append(Branch(len(out), n.test))
        if len(n.orelse) == 1 and isinstance(n.orelse[0], ast.If):
            n = n.orelse[0]
        else:
            break
    return out, src


_CACHE = {}


def parse_source(text, ext=".f90", **settings):
    """Parse `text` with the real FortranSourceFile; returns the file object."""
    from ford.settings import ProjectSettings
    from ford.sourceform import FortranSourceFile

    d = tempfile.mkdtemp(prefix="fvsrc-")
    try:
        p = os.path.join(d, "t" + ext)
        with open(p, "w") as f:
            f.write(text)
        return FortranSourceFile(p, ProjectSettings(**settings))
    finally:
        try:
            os.remove(p)
            os.rmdir(d)
        except OSError:
            pass


def live_pattern(attr):
    """The compiled pattern object the cascade uses for self.<attr>."""
    from ford.sourceform import FortranContainer as FC

    if hasattr(FC, attr):
        return getattr(FC, attr)
    if "file" not in _CACHE:
        _CACHE["file"] = parse_source("program p\nend program p\n")
    f = _CACHE["file"]
    if hasattr(f, attr):
        return getattr(f, attr)
    raise Inconclusive(f"pattern {attr} not found")


def eval_guard(br, state):
    """-> (active: bool, required_groups: tuple).  state: dict(cls, incontains, blocklevel)"""
    import ford.sourceform as sf

    ns = dict(vars(sf))
    ns.update(blocklevel=state.get("blocklevel", 0), incontains=state.get("incontains", False))
    ns["self"] = object.__new__(state["cls"])
    req = []
    for g in br.guards:
        val = _eval_node(g, ns, req)
        if val is False:
            return False, ()
    return True, tuple(req)


def _eval_node(g, ns, req):
    """True / False / None(unknown -> treated as possibly true)"""
    if isinstance(g, ast.BoolOp) and isinstance(g.op, ast.Or):
        vals = [_eval_node(v, ns, []) for v in g.values]
        if any(v is True for v in vals):
            return True
        groups = [v.slice.value for v in g.values
                  if isinstance(v, ast.Subscript) and isinstance(v.value, ast.Name) and v.value.id == "match"
                  and isinstance(v.slice, ast.Constant)]
        if groups and all(v is False or v is None for v in vals):
            others = [v for v, node in zip(vals, g.values) if not (isinstance(node, ast.Subscript))]
            if all(o is False for o in others):
                req.extend(groups)
                return None
        if all(v is False for v in vals):
            return False
        return None
    if isinstance(g, ast.Subscript) and isinstance(g.value, ast.Name) and g.value.id == "match":
        if isinstance(g.slice, ast.Constant):
            req.append(g.slice.value)
        return None
    try:
        return bool(eval(compile(ast.Expression(g), "<guard>", "eval"), ns))
    except Exception:
        return None


def branch_lang(br, state=None):
    """Language of (masked, stripped) lines for which branch `br` fires, given the
    parser state; None when its guard is false in that state."""
    if br.kind in ("eq", "in"):
        return rx.alt(*[rx.kw(c) for c in br.consts])
    req = ()
    if state is not None and br.guards:
        active, req = eval_guard(br, state)
        if not active:
            return None
    langs = []
    for attr, method in br.pats:
        langs.append(rx.lang(live_pattern(attr), method, require=req))
    return langs[0] if len(langs) == 1 else z3.Union(*langs)
