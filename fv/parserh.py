"""Harness: run the REAL parser (FortranSourceFile and everything below it) on a symbolic
program given as a list of statements, each a plain string or a finite-choice value (CV)."""
import contextlib
import io
import os
import tempfile

from fv import patch, sym, choice


class FakeReader:
    """stands in for FortranReader: yields the given logical lines (what the reader would
    deliver: stripped statements and `!`+docmark doc lines)"""

    def __init__(self, lines):
        self.lines = list(lines)
        self.pending = []

    def __iter__(self):
        return self

    def __next__(self):
        if self.pending:
            return self.pending.pop(0)
        if not self.lines:
            raise StopIteration
        return self.lines.pop(0)

    def pass_back(self, line):
        self.pending.insert(0, line)


def parse(lines, **settings):
    """Parse the statement list with the real FortranSourceFile (reader stubbed)."""
    import ford.sourceform as sf
    import ford.utils as fu
    from ford.settings import ProjectSettings

    d = tempfile.mkdtemp(prefix="fvp-")
    p = os.path.join(d, "t.f90")
    with open(p, "w") as f:
        f.write("! symbolic program\n")
    try:
        extra = {(sf, "FortranReader"): (lambda *a, **k: FakeReader(lines))}
        with patch.patched(sf, fu, extra=extra):
            buf = io.StringIO()
            with contextlib.redirect_stdout(buf):
                return sf.FortranSourceFile(p, ProjectSettings(dbg=False, **settings))
    finally:
        try:
            os.remove(p)
            os.rmdir(d)
        except OSError:
            pass


def parse_concrete(lines, **settings):
    """same, natively (replay): lines are plain strings"""
    import ford.sourceform as sf
    from ford.settings import ProjectSettings

    d = tempfile.mkdtemp(prefix="fvp-")
    p = os.path.join(d, "t.f90")
    with open(p, "w") as f:
        f.write("! replay\n")
    orig = sf.FortranReader
    sf.FortranReader = lambda *a, **k: FakeReader(lines)
    try:
        buf = io.StringIO()
        with contextlib.redirect_stdout(buf):
            return sf.FortranSourceFile(p, ProjectSettings(dbg=False, **settings))
    finally:
        sf.FortranReader = orig
        try:
            os.remove(p)
            os.rmdir(d)
        except OSError:
            pass
