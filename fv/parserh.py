"""Harness: run the REAL parser (FortranSourceFile and everything below it) on a symbolic
program given as a list of statements, each a plain string or a finite-choice value (CV)."""
import contextlib
import io
import os
import tempfile

from fv import patch, sym, choice


def pointwise(fn):
    """a pure helper applied to finite-choice arguments is evaluated per choice by the REAL function"""
    def wrapper(*a, **k):
        if any(isinstance(x, choice.CV) for x in a):
            return choice.apply(lambda *aa: fn(*aa, **k), *a)
        return fn(*a, **k)
    wrapper.__name__ = getattr(fn, "__name__", "pointwise")
    return wrapper


class _Serial:
    """deterministic identity hash: entities are numbered in the order they are first hashed, so that
    sets/dicts of entities iterate in the same order in every re-execution of a symbolic run"""

    def __init__(self):
        self.n = 0

    def hash_of(self, obj):
        h = obj.__dict__.get("_fv_serial")
        if h is None:
            self.n += 1
            h = obj.__dict__["_fv_serial"] = self.n
        return h


def helper_patches():
    """pure string helpers of ford.utils (also where sourceform imported them by name)"""
    import ford.sourceform as sf
    import ford.utils as fu

    out = {}
    serial = _Serial()
    out[(sf.FortranBase, "__hash__")] = lambda self: serial.hash_of(self)
    if hasattr(sf, "quote"):
        out[(sf, "quote")] = pointwise(sf.quote)  # urllib.parse.quote (C-level checks reject proxies)
    for name in ("strip_paren", "paren_split", "get_parens", "quote_split"):
        w = pointwise(getattr(fu, name))
        out[(fu, name)] = w
        if hasattr(sf, name):
            out[(sf, name)] = w
    return out


SKIP = "\x00skip"


class FakeReader:
    """stands in for FortranReader: yields the given logical lines (what the reader would
    deliver: stripped statements and `!`+docmark doc lines)"""

    def __init__(self, lines):
        self.lines = list(lines)
        self.pending = []

    def __iter__(self):
        return self

    def __next__(self):
        if self.pending:
            return self.pending.pop(0)
        while True:
            if not self.lines:
                raise StopIteration
            line = self.lines.pop(0)
            # SKIP marks "no statement here" (a symbolic program may be shorter than its slot list)
            if isinstance(line, choice.CV):
                if choice.apply(lambda v: v == SKIP, line):
                    continue
            elif isinstance(line, str) and line == SKIP:
                continue
            return line

    def pass_back(self, line):
        self.pending.insert(0, line)


def parse(lines, post=None, **settings):
    """Parse the statement list with the real FortranSourceFile (reader stubbed).  `post(file)` runs inside the same
    patched context and its result is returned."""
    import ford.sourceform as sf
    import ford.utils as fu
    from ford.settings import ProjectSettings

    d = tempfile.mkdtemp(prefix="fvp-")
    p = os.path.join(d, "t.f90")
    with open(p, "w") as f:
        f.write("! symbolic program\n")
    try:
        extra = {(sf, "FortranReader"): (lambda *a, **k: FakeReader(lines))}
        extra.update(helper_patches())
        extra[(sf, "namelist")] = sf.NameSelector()  # module-level singleton: fresh per symbolic run
        with patch.patched(sf, fu, extra=extra):
            buf = io.StringIO()
            with contextlib.redirect_stdout(buf):
                f = sf.FortranSourceFile(p, ProjectSettings(dbg=False, **settings))
                return post(f) if post is not None else f
    finally:
        try:
            os.remove(p)
            os.rmdir(d)
        except OSError:
            pass


def parse_concrete(lines, **settings):
    """same, natively (replay): lines are plain strings"""
    import ford.sourceform as sf
    from ford.settings import ProjectSettings

    d = tempfile.mkdtemp(prefix="fvp-")
    p = os.path.join(d, "t.f90")
    with open(p, "w") as f:
        f.write("! replay\n")
    orig = sf.FortranReader
    sf.FortranReader = lambda *a, **k: FakeReader(lines)
    try:
        buf = io.StringIO()
        with contextlib.redirect_stdout(buf):
            return sf.FortranSourceFile(p, ProjectSettings(dbg=False, **settings))
    finally:
        sf.FortranReader = orig
        try:
            os.remove(p)
            os.rmdir(d)
        except OSError:
            pass


def project(files, correlate=True, post=None, post_modules=(), file_order="sorted", sym_sets=(), more_patches=None, physical=(), reader_log=None,
            **settings):
    """Run the real Project (all files parsed by the real parser, reader stubbed) and correlate().
    files: {basename: [logical lines (str or CV)]}.  `post(project)` runs inside the same patched context
    (same fresh NameSelector, same patches; `post_modules` are patched in addition) and its result is returned."""
    import ford.sourceform as sf
    import ford.utils as fu
    import ford.fortran_project as fp
    from ford.settings import ProjectSettings

    d = tempfile.mkdtemp(prefix="fvproj-")
    try:
        for name in files:
            with open(os.path.join(d, name), "w") as f:
                f.write("! symbolic program\n")
        # files named in `physical` hold PHYSICAL source lines and go through the real FortranReader (stream stubbed)
        import ford.reader as rd
        from fv import readerh

        def make_reader(path, docmark="!", predocmark="", docmark_alt="", predocmark_alt="", *a, **k):
            base = os.path.basename(path)
            if reader_log is not None:
                # the arguments FortranSourceFile hands to the reader, bound with the real constructor's signature
                import inspect
                b = inspect.signature(rd.FortranReader.__init__).bind(None, path, docmark, predocmark, docmark_alt, predocmark_alt, *a, **k)
                b.apply_defaults()
                args = dict(b.arguments)
                reader_log.append((base, args.get("fixed"), bool(args.get("preprocessor")), args))
            if base in physical:
                return readerh.mk_reader([l + "\n" for l in files[base]], docmark=docmark, predocmark=predocmark,
                                         docmark_alt=docmark_alt, predocmark_alt=predocmark_alt)
            return FakeReader(files[base])

        extra = {(sf, "FortranReader"): make_reader}
        extra.update(helper_patches())
        if physical:
            extra[(rd, "_contains_unterminated_string")] = pointwise(rd._contains_unterminated_string)
            post_modules = tuple(post_modules) + (rd,)
        extra[(sf, "namelist")] = sf.NameSelector()  # module-level singleton: fresh per symbolic run
        # the directory enumeration order is not a function of the input: fix it (sorted) so that every
        # re-execution of the symbolic run visits the files in the same order
        real_find = fp.find_all_files
        if file_order == "sorted":
            extra[(fp, "find_all_files")] = lambda st_: sorted(real_find(st_))
        # file_order == "environment": the real find_all_files; the order in which its set is iterated is whatever the
        # modules named in sym_sets make of `set` (fv.permset.PermSet: an arbitrary permutation picked by the solver)
        for m_ in sym_sets:
            from fv import permset
            extra[(m_, "set")] = permset.PermSet
            extra[(m_, "sorted")] = permset.sym_sorted
        extra.update(more_patches or {})
        old_symsets = set(patch.SYM_SET_MODULES)
        patch.SYM_SET_MODULES.clear()
        patch.SYM_SET_MODULES.update(m_.__name__ for m_ in sym_sets)
        with patch.patched(sf, fu, fp, *post_modules, extra=extra):
            buf = io.StringIO()
            with contextlib.redirect_stdout(buf), contextlib.redirect_stderr(buf):
                settings.setdefault("dbg", False)
                st = ProjectSettings(src_dir=[__import__("pathlib").Path(d)], preprocess=False, quiet=True, parallel=0, **settings)
                p = fp.Project(st)
                if correlate:
                    p.correlate()
                if post is not None:
                    return post(p)
            return p
    finally:
        patch.SYM_SET_MODULES.clear()
        patch.SYM_SET_MODULES.update(old_symsets)
        for name in files:
            try:
                os.remove(os.path.join(d, name))
            except OSError:
                pass
        try:
            os.rmdir(d)
        except OSError:
            pass


def project_concrete(files, correlate=True, physical=(), **settings):
    """same, natively (replay); files named in `physical` are written to disk and read by the real FortranReader"""
    import ford.sourceform as sf
    import ford.fortran_project as fp
    from ford.settings import ProjectSettings

    d = tempfile.mkdtemp(prefix="fvproj-")
    orig = sf.FortranReader
    sf.FortranReader = lambda path, *a, **k: (orig(path, *a, **k) if os.path.basename(path) in physical
                                              else FakeReader(files[os.path.basename(path)]))
    real_find = fp.find_all_files
    fp.find_all_files = lambda st_: sorted(real_find(st_))
    try:
        for name in files:
            with open(os.path.join(d, name), "w") as f:
                f.write("\n".join(files[name]) + "\n" if name in physical else "! replay\n")
        buf = io.StringIO()
        with contextlib.redirect_stdout(buf), contextlib.redirect_stderr(buf):
            settings.setdefault("dbg", False)
            st = ProjectSettings(src_dir=[__import__("pathlib").Path(d)], preprocess=False, quiet=True, parallel=0, **settings)
            p = fp.Project(st)
            if correlate:
                p.correlate()
        return p
    finally:
        sf.FortranReader = orig
        fp.find_all_files = real_find
        for name in files:
            try:
                os.remove(os.path.join(d, name))
            except OSError:
                pass
        try:
            os.rmdir(d)
        except OSError:
            pass


def parse_source_lines(physical_lines, **settings):
    """Whole front end on symbolic PHYSICAL lines: real FortranReader (stream stubbed) + real parser."""
    import ford.sourceform as sf
    import ford.reader as rd
    import ford.utils as fu
    from ford.settings import ProjectSettings
    from fv import readerh

    d = tempfile.mkdtemp(prefix="fvp-")
    p = os.path.join(d, "t.f90")
    with open(p, "w") as f:
        f.write("! symbolic program\n")

    def make_reader(path, docmark="!", predocmark="", docmark_alt="", predocmark_alt="", *a, **k):
        return readerh.mk_reader([l + "\n" for l in physical_lines], docmark=docmark, predocmark=predocmark,
                                 docmark_alt=docmark_alt, predocmark_alt=predocmark_alt)

    try:
        extra = {(sf, "FortranReader"): make_reader}
        extra.update(helper_patches())
        extra[(sf, "namelist")] = sf.NameSelector()
        extra[(rd, "_contains_unterminated_string")] = pointwise(rd._contains_unterminated_string)
        with patch.patched(sf, fu, rd, extra=extra):
            buf = io.StringIO()
            with contextlib.redirect_stdout(buf):
                return sf.FortranSourceFile(p, ProjectSettings(dbg=False, **settings))
    finally:
        try:
            os.remove(p)
            os.rmdir(d)
        except OSError:
            pass


def parse_source_text(text, **settings):
    """natively: real reader on a real file + real parser"""
    import ford.sourceform as sf
    from ford.settings import ProjectSettings

    d = tempfile.mkdtemp(prefix="fvp-")
    p = os.path.join(d, "t.f90")
    with open(p, "w") as f:
        f.write(text)
    try:
        buf = io.StringIO()
        with contextlib.redirect_stdout(buf):
            return sf.FortranSourceFile(p, ProjectSettings(dbg=False, **settings))
    finally:
        try:
            os.remove(p)
            os.rmdir(d)
        except OSError:
            pass
