"""./check <ID> [--tier quick|thorough] [--replay file] [--only substr] [--jobs n]"""
import argparse
import json
import os
import shutil
import subprocess
import sys
import tempfile
import time

from fv import core


def main():
    ap = argparse.ArgumentParser()
    ap.add_argument("prop")
    ap.add_argument("--tier", default=os.environ.get("VERIF_TIER", "quick"))
    ap.add_argument("--replay")
    ap.add_argument("--only")
    ap.add_argument("--jobs", type=int, default=int(os.environ.get("VERIF_JOBS", "16")))
    ap.add_argument("--no-evidence", action="store_true")
    a = ap.parse_args()
    prop = a.prop.upper()
    if a.replay:
        sys.exit(core.replay_file(a.replay))
    tier = a.tier if a.tier in ("quick", "thorough") else "quick"
    seed = int(os.environ.get("VERIF_SEED", "0") or 0)
    t0 = time.time()
    obs = [o for o in core.load_props(prop) if tier in o.tiers]
    if a.only:
        obs = [o for o in obs if a.only in o.name]
    if not obs:
        print(f"INCONCLUSIVE no obligations for {prop}")
        sys.exit(2)
    tmp = tempfile.mkdtemp(prefix="fv-", dir=os.environ.get("TMPDIR") or None)
    results = []
    try:
        pending = list(obs)
        running = []  # (ob, Popen, outfile, start)
        while pending or running:
            while pending and len(running) < a.jobs:
                ob = pending.pop(0)
                out = os.path.join(tmp, f"{len(results)+len(running)}-{abs(hash(ob.name))}.json")
                env = dict(os.environ)
                env["TMPDIR"] = tmp
                p = subprocess.Popen(
                    [sys.executable, "-m", "fv.worker", prop, ob.name, tier, str(seed), out],
                    stdout=subprocess.DEVNULL,
                    stderr=subprocess.PIPE,
                    env=env,
                )
                running.append((ob, p, out, time.time()))
            time.sleep(0.05)
            for item in list(running):
                ob, p, out, st = item
                rc = p.poll()
                lim = ob.timeout * (4 if tier == "thorough" else 1)
                if rc is None and time.time() - st > lim:
                    p.kill()
                    p.wait()
                    rc = -9
                if rc is None:
                    continue
                running.remove(item)
                err = p.stderr.read().decode("utf-8", "replace")[-3000:]
                if os.path.exists(out):
                    with open(out) as f:
                        res = json.load(f)
                else:
                    res = {
                        "obligation": ob.name, "status": "inconclusive", "engine": ob.engine, "doc": ob.doc,
                        "inconclusive": [f"worker exit {rc} (time limit {lim}s)" + err], "queries": [],
                        "n_queries": 0, "n_unsat": 0, "n_sat": 0, "n_unknown": 0, "twins_sat": 0, "solver_s": 0,
                        "violations": [], "mismatches": [], "known_lines": [], "samples": [], "encoded": {},
                        "bounds": {}, "stubs": [], "assumptions": [], "outside": [], "wall_s": round(time.time() - st, 1),
                    }
                results.append(res)
    finally:
        shutil.rmtree(tmp, ignore_errors=True)

    results.sort(key=lambda r: r["obligation"])
    viol = [v for r in results for v in r["violations"]]
    mism = [v for r in results for v in r["mismatches"]]
    inc = [(r["obligation"], m) for r in results for m in r["inconclusive"]]
    known = []
    for r in results:
        for k in r["known_lines"]:
            if k not in known:
                known.append(k)
    for r in results:
        print(f"[{r['status']:>12}] {prop} {r['obligation']:<44} {r['engine']:<8} q={r['n_queries']:<4} unsat={r['n_unsat']:<4} "
              f"twins={r['twins_sat']:<3} solver={r['solver_s']}s wall={r.get('wall_s')}s")
    for k in known:
        print(k)
    for ob, m in inc:
        print(f"INCONCLUSIVE {prop} {ob}: " + " | ".join(m.strip().splitlines()[:1] + m.strip().splitlines()[-3:])[:700])
    for v in mism:
        print(f"ENCODING-MISMATCH {prop} {v['obligation']} {v['label']}: witness={json.dumps(v['witness'], default=str)[:400]} replay={str(v['replay_detail'])[:400]}")
    for v in viol:
        print(f"VIOLATION property={prop} replay={v['file']}")
        print(f"  obligation={v['obligation']} label={v['label']} witness={json.dumps(v['witness'], default=str)[:600]}")
        print(f"  detail={str(v['replay_detail'])[:600]}")
    wall = time.time() - t0
    if not a.no_evidence and not a.only:
        write_evidence(prop, tier, seed, results, wall, len(viol))
    if viol:
        sys.exit(1)
    if mism:
        sys.exit(3)
    if inc:
        sys.exit(2)
    sys.exit(0)


def write_evidence(prop, tier, seed, results, wall, nviol):
    from fv.props import META

    meta = META.get(prop, {})
    nq = sum(r["n_queries"] for r in results)
    samples = []
    for r in results:
        for s in r["samples"][:2]:
            samples.append({"obligation": r["obligation"], "case": s})
    obl = []
    for r in results:
        obl.append({k: r.get(k) for k in (
            "obligation", "status", "engine", "doc", "n_queries", "n_unsat", "n_sat", "n_unknown", "twins_sat",
            "solver_s", "wall_s", "encoded", "bounds", "stubs", "assumptions", "outside", "validation", "paths")})
        obl[-1]["queries"] = r["queries"][:40]
        obl[-1]["known_findings"] = r["known_lines"]
    ev = {
        "property_id": prop,
        "tier": tier,
        "seed": seed,
        "level": "other",
        "coverage": {
            "explanation": meta.get("explanation", "") + "  Each obligation below is a set of SMT queries generated on this run "
            "from /repo's current source / live compiled regex objects; 'unsat' = holds for every input within the stated bound; "
            "every 'sat' model is replayed against the natively executed real code before it is reported.",
            "evaluations": nq,
            "distinct_nontrivial": sum(1 for r in results if r["twins_sat"] > 0 or r["n_unsat"] > 0),
            "rule": "evaluations = solver queries discharged; an obligation counts as non-trivial when at least one of its "
                    "reachability twins is sat or one of its queries is a non-vacuous unsat (twins listed per obligation)",
            "samples": samples[:12] or [{"note": "no samples recorded"}],
            "obligations": len(results),
            "discharged": sum(1 for r in results if r["status"] == "held"),
            "solver_seconds": round(sum(r["solver_s"] for r in results), 2),
            "queries_unsat": sum(r["n_unsat"] for r in results),
            "queries_sat": sum(r["n_sat"] for r in results),
            "queries_unknown": sum(r["n_unknown"] for r in results),
            "obligation_detail": obl,
            "outside_the_claim": meta.get("outside", []),
            "exhaustive": False,
        },
        "assumptions": meta.get("assumptions", []) + sorted({a for r in results for a in r["assumptions"]}),
        "wall_s": round(wall, 2),
        "violations": nviol,
    }
    os.makedirs(os.path.join(core.ROOT, "evidence"), exist_ok=True)
    with open(os.path.join(core.ROOT, "evidence", prop + ".json"), "w") as f:
        json.dump(ev, f, indent=1, default=str)


if __name__ == "__main__":
    main()
