"""Framework core: obligations, solver queries, replay, known findings, evidence.

Exit codes of a check: 0 held / 1 VIOLATION / 2 inconclusive / 3 encoding mismatch.
"""
import hashlib
import importlib
import inspect
import json
import os
import sys
import time
import traceback

ROOT = os.path.dirname(os.path.dirname(os.path.abspath(__file__)))
REPO = os.environ.get("FORD_REPO", "/repo")
KNOWN_FILE = os.path.join(ROOT, "known_findings.json")

REGISTRY = {}  # prop -> [Ob]


class Ob:
    def __init__(self, prop, name, fn, tiers, timeout, engine, doc):
        self.prop, self.name, self.fn, self.tiers = prop, name, fn, tiers
        self.timeout, self.engine, self._doc = timeout, engine, doc

    @property
    def doc(self):
        # some obligation factories set __doc__ after registration
        return (self.fn.__doc__ or self._doc or "").strip()


def obligation(prop, name, *, engine, tiers=("quick", "thorough"), timeout=300):
    """Register an obligation function ``fn(ctx)`` for property ``prop``."""

    def deco(fn):
        REGISTRY.setdefault(prop, []).append(
            Ob(prop, name, fn, tiers, timeout, engine, (fn.__doc__ or "").strip())
        )
        return fn

    return deco


class Inconclusive(Exception):
    pass


def sha(text):
    return hashlib.sha256(text.encode("utf-8", "replace")).hexdigest()[:16]


def load_known():
    try:
        with open(KNOWN_FILE) as f:
            return json.load(f).get("findings", [])
    except FileNotFoundError:
        return []


class Ctx:
    """Per-obligation recording context (lives in the worker process)."""

    def __init__(self, prop, ob, tier, seed):
        self.prop, self.ob, self.tier, self.seed = prop, ob, tier, seed
        self.thorough = tier == "thorough"
        self.queries = []
        self.encoded = {}
        self.bounds = {}
        self.stubs = []
        self.assumptions = []
        self.outside = []
        self.violations = []
        self.mismatches = []
        self.known_lines = []
        self.inconclusive = []
        self.samples = []
        self.twins = 0
        self.solver_s = 0.0
        self.validation = {}
        self.paths = 0

    # ---- what is encoded -------------------------------------------------
    def encode_fn(self, fn, label=None):
        src = inspect.getsource(fn)
        name = label or getattr(fn, "__qualname__", str(fn))
        f = inspect.getsourcefile(fn) or "?"
        self.encoded[name] = {
            "kind": "python-source",
            "file": os.path.relpath(f, REPO) if f.startswith(REPO) else f,
            "sha256_16": sha(src),
        }
        return src

    def encode_re(self, name, pat):
        self.encoded[name] = {
            "kind": "compiled-regex",
            "flags": int(pat.flags),
            "sha256_16": sha(pat.pattern + "|" + str(pat.flags)),
        }

    def encode_text(self, name, text, kind="text"):
        self.encoded[name] = {"kind": kind, "sha256_16": sha(text)}

    # ---- solver ------------------------------------------------------------
    def solve(self, label, constraints, timeout_s=60, want="unsat"):
        """One solver query.  Returns (result, model|None).  'unknown' marks the
        obligation inconclusive unless the caller handles it (pass want=None)."""
        import z3

        s = z3.Solver()
        s.set("timeout", int(timeout_s * 1000))
        s.set("random_seed", self.seed % (2**31))
        for c in constraints:
            s.add(c)
        t0 = time.time()
        r = str(s.check())
        dt = time.time() - t0
        self.solver_s += dt
        self.queries.append({"label": label, "result": r, "s": round(dt, 3)})
        m = s.model() if r == "sat" else None
        if r == "unknown" and want is not None:
            self.inconclusive.append(f"{label}: solver returned unknown ({s.reason_unknown()}) after {dt:.1f}s")
        return r, m

    def twin(self, label, constraints, timeout_s=60):
        """Reachability/vacuity twin: must be sat."""
        r, m = self.solve("twin:" + label, constraints, timeout_s, want=None)
        if r == "sat":
            self.twins += 1
        else:
            self.inconclusive.append(f"twin {label}: expected sat, got {r} (vacuous harness?)")
        return m

    # ---- outcomes ------------------------------------------------------------
    def sample(self, s):
        if len(self.samples) < 6:
            self.samples.append(s)

    def report(self, label, witness, replay, *, detail=None):
        """A solver model was found.  ``replay(witness)`` runs the REAL code
        natively and returns (violates: bool, detail).  Only a reproducing
        witness is a VIOLATION; otherwise it is an encoding mismatch."""
        try:
            from fv import patch as _patch
            with _patch.suspended():  # replays run the real code natively, never under symbolic patches
                ok, rdetail = replay(witness)
        except Exception as e:  # noqa
            ok, rdetail = False, "replay raised " + repr(e) + "\n" + traceback.format_exc()
        rec = {
            "property": self.prop,
            "obligation": self.ob,
            "label": label,
            "witness": witness,
            "replay": replay.__module__ + ":" + replay.__qualname__,
            "replay_detail": rdetail,
            "solver_detail": detail,
        }
        if ok:
            d = os.path.join(ROOT, "replays", self.prop)
            os.makedirs(d, exist_ok=True)
            h = sha(json.dumps(witness, sort_keys=True, default=str))
            path = os.path.join(d, f"{self.ob}-{h}.json".replace("/", "_"))
            with open(path, "w") as f:
                json.dump(rec, f, indent=1, default=str)
            rec["file"] = path
            self.violations.append(rec)
        else:
            self.mismatches.append(rec)
        return ok

    def known(self, kid, replay):
        """If known finding ``kid`` is listed (status open) for this property and
        its recorded witness still fails on the real code, print the KNOWN-FINDING
        line and return the entry (caller excludes its class from the query).
        Otherwise return None (nothing is suppressed)."""
        for k in load_known():
            if k.get("id") == kid and k.get("property") == self.prop and k.get("status") == "open":
                try:
                    from fv import patch as _patch
                    with _patch.suspended():
                        ok, detail = replay(k["witness"])
                except Exception as e:  # noqa
                    ok, detail = False, repr(e)
                if ok:
                    line = f"KNOWN-FINDING: property={self.prop} {kid}: {k['what']}"
                    if line not in self.known_lines:
                        self.known_lines.append(line)
                    return k
                return None
        return None

    def result(self, status_override=None):
        if self.violations:
            st = "violation"
        elif self.mismatches:
            st = "mismatch"
        elif self.inconclusive:
            st = "inconclusive"
        else:
            st = "held"
        return {
            "obligation": self.ob,
            "status": status_override or st,
            "queries": self.queries,
            "n_queries": len(self.queries),
            "n_unsat": sum(q["result"] == "unsat" for q in self.queries),
            "n_sat": sum(q["result"] == "sat" for q in self.queries),
            "n_unknown": sum(q["result"] == "unknown" for q in self.queries),
            "twins_sat": self.twins,
            "solver_s": round(self.solver_s, 3),
            "encoded": self.encoded,
            "bounds": self.bounds,
            "stubs": self.stubs,
            "assumptions": self.assumptions,
            "outside": self.outside,
            "violations": self.violations,
            "mismatches": self.mismatches,
            "known_lines": self.known_lines,
            "inconclusive": self.inconclusive,
            "samples": self.samples,
            "validation": self.validation,
            "paths": self.paths,
        }


def load_props(prop):
    importlib.import_module("fv.props." + prop.lower())
    return REGISTRY.get(prop, [])


def run_one(prop, name, tier, seed):
    """Worker entry: run one obligation, return its result dict."""
    t0 = time.time()
    obs = [o for o in load_props(prop) if o.name == name]
    ob = obs[0]
    ctx = Ctx(prop, name, tier, seed)
    try:
        ob.fn(ctx)
        res = ctx.result()
    except Inconclusive as e:
        ctx.inconclusive.append(str(e))
        res = ctx.result()
    except Exception as e:  # noqa  (harness error -> inconclusive, never "held")
        ctx.inconclusive.append("harness exception: " + repr(e) + "\n" + traceback.format_exc())
        res = ctx.result()
    res["engine"] = ob.engine
    res["doc"] = ob.doc
    res["wall_s"] = round(time.time() - t0, 2)
    return res


def replay_file(path):
    with open(path) as f:
        rec = json.load(f)
    mod, qn = rec["replay"].split(":")
    importlib.import_module("fv.props." + rec["property"].lower())
    fn = importlib.import_module(mod)
    for part in qn.split("."):
        fn = getattr(fn, part)
    ok, detail = fn(rec["witness"])
    print(json.dumps({"reproduces": ok, "detail": detail, "witness": rec["witness"]}, indent=1, default=str))
    return 1 if ok else 0
