"""SX engine, part 2 (SXM): merged-state bounded symbolic interpreter for FORD's character
scanners, generated from the function's current AST.

Every variable holds a z3 term; statements run under a path guard; `if` turns assignments into
ite; continue/break/return/raise become flags; loops are unrolled to the bound and carry an
unwinding assertion.  Supported subset = what the scanners in ford/utils.py, ford/reader.py use;
anything else raises Unsupported (-> obligation inconclusive).

Values: z3 Bool | BitVec16 (int) | BitVec8 (char, 0 encodes None) | SymStr (input string) |
Builder (string built by appending chars) | GList (guarded appends) | Slice | python constants.
"""
import ast
import inspect
import textwrap

import z3

from fv.sym import SymStr, iv, cv, IW, CW, _ite
from fv import rxa


class Unsupported(Exception):
    pass


class Builder:
    """string built by guarded appends of single chars: items = [(guard, char8)]"""

    def __init__(self, items=()):
        self.items = tuple(items)

    def to_symstr(self, cap=None):
        return compact_chars(self.items, cap)


class GList:
    def __init__(self, items=()):
        self.items = list(items)


class Slice:
    def __init__(self, base, lo, hi):
        self.base, self.lo, self.hi = base, lo, hi


class NoneVal:
    pass


NONE = NoneVal()
T, F = z3.BoolVal(True), z3.BoolVal(False)


def _gconst(g):
    """(guard term, min, max) with cheap constant detection (no z3.simplify on big terms)"""
    if isinstance(g, bool):
        return z3.BoolVal(g), int(g), int(g)
    if z3.is_true(g):
        return g, 1, 1
    if z3.is_false(g):
        return g, 0, 0
    return g, 0, 1


def compact_chars(items, cap=None):
    """[(guard, char)] -> SymStr of the chars whose guard holds, in order.  Constant guards are
    folded: item k can only land on output positions between its minimal and maximal rank."""
    its = []
    lo = hi = 0
    cbase, csym = 0, None  # rank = cbase + csym
    for g, c in items:
        g, mn, mx = _gconst(g)
        if mx == 0:
            continue
        its.append((g, c, lo, hi, cbase, csym))
        lo += mn
        hi += mx
        if mn == 1:
            cbase += 1
        else:
            inc = z3.If(g, iv(1), iv(0))
            csym = inc if csym is None else csym + inc
    outcap = hi if cap is None else min(cap, hi)
    chars = []
    for j in range(outcap):
        e = cv(0)
        for g, c, l, h, rb, rs in reversed(its):
            if l <= j <= h:
                if l == h:
                    e = c if z3.is_true(g) else z3.If(g, c, e)
                else:
                    e = z3.If(z3.And(g, rs == j - rb), c, e)
        chars.append(e)
    ln = iv(cbase) if csym is None else (csym + cbase if cbase else csym)
    return SymStr(chars, ln)


def compact_blocks(blocks):
    """blocks: list of blocks; a block is a list of mutually exclusive alternatives
    (guard, [char terms]); at most one alternative of a block fires.  Returns the SymStr made of
    the fired alternatives' chars in order.  Python-constant guards (True/False) are folded."""
    norm = []
    for alts in blocks:
        exhaustive = False
        if isinstance(alts, tuple):
            alts, exhaustive = alts
        alts2 = []
        sure = exhaustive
        for g, cs in alts:
            g, mn, mx = _gconst(g)
            if mx == 0:
                continue
            if mn == 1:
                sure = True
            alts2.append((g, list(cs)))
        if alts2:
            norm.append((alts2, sure))
    lo = hi = 0
    cbase, csym = 0, None
    placed = []
    for alts, sure in norm:
        lens = [len(cs) for _, cs in alts]
        mn = min(lens) if sure else 0
        mx = max(lens)
        placed.append((alts, lo, hi, cbase, csym))
        lo += mn
        hi += mx
        if len(alts) == 1 and z3.is_true(alts[0][0]):
            cbase += lens[0]
        else:
            inc = iv(0)
            for g, cs in reversed(alts):
                inc = z3.If(g, iv(len(cs)), inc)
            csym = inc if csym is None else csym + inc
    chars = []
    for j in range(hi):
        e = cv(0)
        for alts, l, h, rb, rs in reversed(placed):
            for g, cs in alts:
                for k, c in enumerate(cs):
                    # this char lands on j iff block rank == j - k
                    if l <= j - k <= h:
                        if l == h:
                            e = c if z3.is_true(g) else z3.If(g, c, e)
                        else:
                            e = z3.If(z3.And(g, rs == (j - k) - rb), c, e)
        chars.append(e)
    ln = iv(cbase) if csym is None else (csym + cbase if cbase else csym)
    r = SymStr(chars, ln)
    r.lmin = max(r.lmin, lo)
    return r


_COVER = {}
_KEEP = []  # keeps covered alternative lists alive (ids are keys)


def _covers(alts):
    """alternatives marked as exhaustive by the caller (id of the list)"""
    return _COVER.get(id(alts), False) or any(z3.is_true(g) for g, _ in alts)


def compact_pairs(items, cap):
    """[(guard, (a, b))] -> ([a_j], [b_j], count) for the items whose guard holds, in order"""
    rank = []
    cnt = iv(0)
    for g, _ in items:
        rank.append(cnt)
        cnt = z3.If(g, cnt + 1, cnt)
    A, B = [], []
    for j in range(cap):
        a, b = iv(-1), iv(-1)
        for k in reversed(range(len(items))):
            g, (x, y) = items[k]
            if k < j:
                break
            c = z3.And(g, rank[k] == j)
            a, b = z3.If(c, x, a), z3.If(c, y, b)
        A.append(a)
        B.append(b)
    return A, B, z3.simplify(cnt)


def _b(v):
    if isinstance(v, bool):
        return z3.BoolVal(v)
    if z3.is_bool(v):
        return v
    if isinstance(v, SymStr):
        return v.len != 0
    if isinstance(v, Builder):
        return z3.Or(*[g for g, _ in v.items]) if v.items else F
    if z3.is_bv(v):
        return v != 0
    if v is NONE:
        return F
    if isinstance(v, str):
        return z3.BoolVal(bool(v))
    raise Unsupported(f"truth of {type(v).__name__}")


def _int(v):
    if isinstance(v, bool):
        return iv(int(v))
    if isinstance(v, int):
        return iv(v)
    if z3.is_bv(v) and v.size() == IW:
        return v
    raise Unsupported(f"int of {v!r}")


def _char(v):
    if v is NONE:
        return cv(0)
    if isinstance(v, str) and len(v) == 1:
        return cv(v)
    if z3.is_bv(v) and v.size() == CW:
        return v
    raise Unsupported(f"char of {v!r}")


def _merge(g, new, old):
    """value of a variable after `if g: var = new`"""
    if old is None or new is old:
        return new
    if isinstance(new, Builder) and isinstance(old, Builder):
        n, o = new.items, old.items
        if n[: len(o)] == o:  # old is a prefix of new
            return Builder(o + tuple((z3.And(g, gi), c) for gi, c in n[len(o):]))
        if o[: len(n)] == n:
            return Builder(n + tuple((z3.And(z3.Not(g), gi), c) for gi, c in o[len(n):]))
        # unrelated builders (e.g. reset): select per item over a common capacity
        return Builder(tuple((z3.And(g, gi), c) for gi, c in n) + tuple((z3.And(z3.Not(g), gi), c) for gi, c in o))
    if isinstance(new, Builder) and isinstance(old, str) and old == "":
        return Builder(tuple((z3.And(g, gi), c) for gi, c in new.items))
    if isinstance(old, Builder) and isinstance(new, str) and new == "":
        return Builder(tuple((z3.And(z3.Not(g), gi), c) for gi, c in old.items))
    if isinstance(new, (GList, SymStr, Slice)) or isinstance(old, (GList, SymStr, Slice)):
        if z3.is_true(z3.simplify(g)):
            return new
        raise Unsupported("conditional assignment of a container")
    for conv in (_bool_pair, _int_pair, _char_pair):
        r = conv(new, old)
        if r is not None:
            return z3.If(g, r[0], r[1])
    raise Unsupported(f"merge {new!r} / {old!r}")


def _bool_pair(a, b):
    ok = lambda v: isinstance(v, bool) or z3.is_bool(v)
    return (_b(a), _b(b)) if ok(a) and ok(b) else None


def _int_pair(a, b):
    ok = lambda v: (isinstance(v, int) and not isinstance(v, bool)) or (z3.is_bv(v) and v.size() == IW)
    return (_int(a), _int(b)) if ok(a) and ok(b) else None


def _char_pair(a, b):
    ok = lambda v: v is NONE or (isinstance(v, str) and len(v) == 1) or (z3.is_bv(v) and v.size() == CW)
    return (_char(a), _char(b)) if ok(a) and ok(b) else None


class Result:
    def __init__(self):
        self.value = None
        self.returned = F
        self.raised = F
        self.unwind = []  # unwinding assertions (must hold)
        self.returns = []  # (guard, value) in program order


class Interp:
    def __init__(self, fn, unroll):
        src = textwrap.dedent(inspect.getsource(fn))
        self.tree = ast.parse(src).body[0]
        self.unroll = unroll
        self.fn = fn

    def run(self, *args, **kw):
        self.res = Result()
        names = [a.arg for a in self.tree.args.args]
        self.env = {}
        defaults = self.tree.args.defaults
        for n_, d in zip(names[len(names) - len(defaults):], defaults):
            self.env[n_] = ast.literal_eval(d)
        for n_, v in zip(names, args):
            self.env[n_] = v
        self.env.update(kw)
        self.block(self.tree.body, T, None)
        return self.res

    # -- expressions -------------------------------------------------------------
    def ev(self, e):
        if isinstance(e, ast.Constant):
            v = e.value
            return NONE if v is None else v
        if isinstance(e, ast.Name):
            if e.id in self.env:
                return self.env[e.id]
            raise Unsupported(f"free name {e.id}")
        if isinstance(e, ast.Tuple):
            return tuple(self.ev(x) for x in e.elts)
        if isinstance(e, ast.List):
            if not e.elts:
                return GList()
            return tuple(self.ev(x) for x in e.elts)
        if isinstance(e, ast.UnaryOp):
            if isinstance(e.op, ast.Not):
                return z3.Not(_b(self.ev(e.operand)))
            if isinstance(e.op, ast.USub):
                v = self.ev(e.operand)
                return -v if isinstance(v, int) else -_int(v)
        if isinstance(e, ast.BoolOp):
            vs = [_b(self.ev(x)) for x in e.values]
            return z3.And(*vs) if isinstance(e.op, ast.And) else z3.Or(*vs)
        if isinstance(e, ast.BinOp):
            l, r = self.ev(e.left), self.ev(e.right)
            if isinstance(e.op, ast.Add):
                if isinstance(l, (Builder, str)) and not (isinstance(l, str) and len(l) == 1 and not isinstance(r, (Builder, str))):
                    if isinstance(l, str) and l != "":
                        l = Builder(tuple((T, cv(c)) for c in l))
                    elif isinstance(l, str):
                        l = Builder()
                    if isinstance(r, str):
                        return Builder(l.items + tuple((T, cv(c)) for c in r))
                    if isinstance(r, Builder):
                        return Builder(l.items + r.items)
                    return Builder(l.items + ((T, _char(r)),))
                if isinstance(l, int) and isinstance(r, int):
                    return l + r
                return _int(l) + _int(r)
            if isinstance(e.op, ast.Sub):
                if isinstance(l, int) and isinstance(r, int):
                    return l - r
                return _int(l) - _int(r)
        if isinstance(e, ast.Compare):
            l = self.ev(e.left)
            out = []
            for op, rr in zip(e.ops, e.comparators):
                r = self.ev(rr)
                out.append(self.cmp(op, l, r))
                l = r
            return z3.And(*out) if len(out) > 1 else out[0]
        if isinstance(e, ast.Call):
            return self.call(e)
        if isinstance(e, ast.Subscript):
            base = self.ev(e.value)
            if not isinstance(base, SymStr):
                raise Unsupported("subscript of non-input")
            if isinstance(e.slice, ast.Slice):
                lo = _int(self.ev(e.slice.lower)) if e.slice.lower else iv(0)
                hi = _int(self.ev(e.slice.upper)) if e.slice.upper else base.len
                return Slice(base, lo, hi)
            return base.at(_int(self.ev(e.slice)))
        if isinstance(e, ast.IfExp):
            c = _b(self.ev(e.test))
            return _merge(c, self.ev(e.body), self.ev(e.orelse))
        raise Unsupported(ast.dump(e)[:100])

    def cmp(self, op, l, r):
        if isinstance(op, (ast.In, ast.NotIn)):
            if not isinstance(r, tuple):
                raise Unsupported("`in` over non-tuple")
            c = z3.Or(*[self.cmp(ast.Eq(), l, x) for x in r]) if r else F
            return c if isinstance(op, ast.In) else z3.Not(c)
        if isinstance(op, (ast.Is, ast.IsNot)):
            if r is NONE:
                c = _char(l) == cv(0) if not (l is NONE) else T
                return c if isinstance(op, ast.Is) else z3.Not(c)
            raise Unsupported("is")
        for pair in (_bool_pair, _int_pair, _char_pair):
            p = pair(l, r)
            if p is not None:
                a, b = p
                if isinstance(op, ast.Eq):
                    return a == b
                if isinstance(op, ast.NotEq):
                    return a != b
                if pair is _int_pair:
                    if isinstance(op, ast.Lt):
                        return a < b
                    if isinstance(op, ast.LtE):
                        return a <= b
                    if isinstance(op, ast.Gt):
                        return a > b
                    if isinstance(op, ast.GtE):
                        return a >= b
        if (isinstance(l, Slice) or isinstance(r, Slice)) and isinstance(op, (ast.Eq, ast.NotEq)):
            def as_str(v):
                if isinstance(v, Slice):
                    b = v.base
                    return b.slice_t(b._clamp(v.lo), b._clamp(v.hi))
                if isinstance(v, str):
                    return SymStr.const(v)
                if isinstance(v, SymStr):
                    return v
                raise Unsupported("compare slice with " + repr(v))
            c = as_str(l).eq_t(as_str(r))
            return c if isinstance(op, ast.Eq) else z3.Not(c)
        if isinstance(l, (Builder, str)) and isinstance(r, (Builder, str)) and isinstance(op, (ast.Eq, ast.NotEq)):
            ls = l if isinstance(l, Builder) else Builder(tuple((T, cv(c)) for c in l))
            rs = r if isinstance(r, Builder) else Builder(tuple((T, cv(c)) for c in r))
            c = ls.to_symstr().eq_t(rs.to_symstr())
            return c if isinstance(op, ast.Eq) else z3.Not(c)
        raise Unsupported(f"compare {l!r} {type(op).__name__} {r!r}")

    def call(self, e):
        f = e.func
        if isinstance(f, ast.Name):
            if f.id == "len":
                v = self.ev(e.args[0])
                if isinstance(v, SymStr):
                    return v.len
                if isinstance(v, str):
                    return len(v)
                if z3.is_bv(v) and v.size() == CW:
                    return 1
                raise Unsupported("len")
            if f.id == "range":
                return ("range", _int(self.ev(e.args[0])))
            if f.id == "enumerate" and len(e.args) == 1:
                it = self.ev(e.args[0])
                if isinstance(it, SymStr):
                    return ("enumerate", it)
                raise Unsupported("enumerate of non-string")
            if f.id == "StringIO" and not e.args:
                return Builder()
            if self.helper(f.id) is not None:
                r = self.inline(e, T)
                if not r.returns:
                    return NONE
                val = r.returns[-1][1]
                for gg, v in reversed(r.returns[:-1]):
                    val = _merge(gg, v, val)
                return val
        if isinstance(f, ast.Attribute):
            recv = self.ev(f.value)
            if z3.is_bv(recv) and recv.size() == CW:
                c = recv
                if f.attr == "isalpha":
                    return z3.Or(z3.And(z3.UGE(c, 97), z3.ULE(c, 122)), z3.And(z3.UGE(c, 65), z3.ULE(c, 90)))
                if f.attr == "isspace":
                    return rxa._is_space(c)
                if f.attr == "isdigit":
                    return rxa._is_digit(c)
            if isinstance(recv, Builder) and f.attr == "getvalue":
                return recv
        raise Unsupported(ast.dump(e)[:100])

    def helper(self, name):
        """a plain Python function defined in the module of the function under analysis (a helper it was split into)"""
        import types
        f = getattr(self.fn, "__globals__", {}).get(name)
        if isinstance(f, types.FunctionType) and f.__module__ == self.fn.__module__:
            return f
        return None

    def inline(self, c, g):
        """run the helper called by `c` under guard g with the evaluated arguments; returns its (guarded) return values"""
        if c.keywords or any(isinstance(a, ast.Starred) for a in c.args):
            raise Unsupported("helper call with keyword / starred arguments")
        sub = Interp(self.helper(c.func.id), self.unroll)
        r = sub.run(*[self.ev(a) for a in c.args])
        self.res.raised = z3.Or(self.res.raised, z3.And(g, r.raised))
        self.res.unwind.extend(z3.Implies(g, u) for u in r.unwind)
        return r

    # -- statements ---------------------------------------------------------------
    def live(self, g, loop):
        g = z3.And(g, z3.Not(self.res.returned), z3.Not(self.res.raised))
        if loop is not None:
            g = z3.And(g, z3.Not(loop["cont"]), z3.Not(loop["brk"]))
        return z3.simplify(g)

    def assign(self, name, val, g):
        self.env[name] = _merge(g, val, self.env.get(name))

    def block(self, stmts, g, loop):
        for s in stmts:
            self.stmt(s, g, loop)

    def stmt(self, s, g, loop):
        g = self.live(g, loop)
        if z3.is_false(g):
            return
        if isinstance(s, ast.Expr):
            if isinstance(s.value, ast.Constant):
                return
            c = s.value
            if isinstance(c, ast.Call) and isinstance(c.func, ast.Attribute) and isinstance(c.func.value, ast.Name):
                tgt = self.env.get(c.func.value.id)
                if c.func.attr == "append" and isinstance(tgt, GList):
                    tgt.items.append((g, self.ev(c.args[0])))
                    return
                if c.func.attr == "write" and isinstance(tgt, Builder):
                    v = self.ev(c.args[0])
                    self.env[c.func.value.id] = Builder(tgt.items + ((g, _char(v)),))
                    return
            if isinstance(c, ast.Call) and isinstance(c.func, ast.Name) and self.helper(c.func.id) is not None:
                self.inline(c, g)
                return
            raise Unsupported(ast.dump(s)[:100])
        if isinstance(s, ast.Assign):
            if len(s.targets) != 1 or not isinstance(s.targets[0], ast.Name):
                raise Unsupported("assignment target")
            self.assign(s.targets[0].id, self.ev(s.value), g)
            return
        if isinstance(s, ast.AugAssign):
            cur = self.env[s.target.id]
            d = self.ev(s.value)
            if isinstance(s.op, ast.Add):
                new = self.ev(ast.BinOp(left=s.target, op=ast.Add(), right=s.value)) if isinstance(cur, (Builder, str)) else _int(cur) + _int(d)
            elif isinstance(s.op, ast.Sub):
                new = _int(cur) - _int(d)
            else:
                raise Unsupported("augassign op")
            self.assign(s.target.id, new, g)
            return
        if isinstance(s, ast.If):
            c = _b(self.ev(s.test))
            self.block(s.body, z3.And(g, c), loop)
            self.block(s.orelse, z3.And(g, z3.Not(c)), loop)
            return
        if isinstance(s, ast.Continue):
            loop["cont"] = z3.Or(loop["cont"], g)
            return
        if isinstance(s, ast.Break):
            loop["brk"] = z3.Or(loop["brk"], g)
            return
        if isinstance(s, ast.Return):
            v = self.ev(s.value) if s.value is not None else NONE
            if isinstance(v, GList):
                v = GList(list(v.items))  # snapshot
            self.res.returns.append((g, v))
            self.res.returned = z3.Or(self.res.returned, g)
            return
        if isinstance(s, ast.Raise):
            self.res.raised = z3.Or(self.res.raised, g)
            return
        if isinstance(s, ast.For):
            it = self.ev(s.iter)
            lp = {"brk": F, "cont": F}
            enum = isinstance(it, tuple) and it and it[0] == "enumerate"
            if enum:
                if not (isinstance(s.target, ast.Tuple) and len(s.target.elts) == 2 and all(isinstance(x, ast.Name) for x in s.target.elts)):
                    raise Unsupported("enumerate target")
                it = it[1]
            elif not isinstance(s.target, ast.Name):
                raise Unsupported("for target")
            for k in range(self.unroll):
                if isinstance(it, SymStr):
                    if k >= it.cap:
                        break
                    cond, val = iv(k) < it.len, it.chars[k]
                elif isinstance(it, tuple) and it and it[0] == "range":
                    cond, val = iv(k) < it[1], iv(k)
                else:
                    raise Unsupported("for iterable")
                lp["cont"] = F
                gi = z3.And(g, cond, z3.Not(lp["brk"]))
                if enum:
                    self.assign(s.target.elts[0].id, iv(k), gi)
                    self.assign(s.target.elts[1].id, val, gi)
                else:
                    self.assign(s.target.id, val, gi)
                self.block(s.body, gi, lp)
            # unwinding assertion: the iterable has no more than `unroll` elements
            if isinstance(it, SymStr):
                if it.cap > self.unroll:
                    self.res.unwind.append(z3.Implies(g, it.len <= self.unroll))
            else:
                self.res.unwind.append(z3.Implies(g, it[1] <= self.unroll))
            if s.orelse:
                raise Unsupported("for-else")
            return
        if isinstance(s, ast.While):
            lp = {"brk": F, "cont": F}
            for k in range(self.unroll):
                lp["cont"] = F
                gi = z3.And(g, _b(self.ev(s.test)), z3.Not(lp["brk"]))
                self.block(s.body, gi, lp)
            self.res.unwind.append(z3.Implies(z3.And(self.live(g, None), z3.Not(lp["brk"])), z3.Not(_b(self.ev(s.test)))))
            return
        raise Unsupported(ast.dump(s)[:100])


def run(fn, unroll, *args, **kw):
    it = Interp(fn, unroll)
    return it.run(*args, **kw)


# ---------------------------------------------------------------------------------------
# summaries: use a merged SXM encoding of a scanner inside a DSE run
# ---------------------------------------------------------------------------------------
def summarize_bool(fn, unroll=None):
    """callable(s) -> bool/SymBool, computed from fn's current AST for symbolic s"""
    from fv import sym

    def summary(s):
        if isinstance(s, str):
            return fn(s)
        res = run(fn, unroll or s.cap, s)
        e = sym.engine()
        if res.unwind:
            e.require(sym.mk_bool(z3.And(*res.unwind)), "unwinding assertion of " + fn.__name__)
        if not z3.is_false(z3.simplify(res.raised)) and e.decide(res.raised):
            raise RuntimeError(fn.__name__ + " raised")
        return sym.mk_bool(z3.Or(*[z3.And(g, _b(v)) for g, v in res.returns]))

    return summary


def summarize_split(fn, unroll=None):
    """callable(sep, s) -> list of pieces (forks on the number of pieces) for functions that
    return a list of slices of their input (quote_split, paren_split)"""
    from fv import sym

    def summary(sep, s):
        if isinstance(s, str):
            return fn(sep, s)
        res = run(fn, unroll or s.cap + 1, sep, s)
        e = sym.engine()
        if res.unwind:
            e.require(sym.mk_bool(z3.And(*res.unwind)), "unwinding assertion of " + fn.__name__)
        if not z3.is_false(z3.simplify(res.raised)) and e.decide(res.raised):
            raise ValueError(fn.__name__ + " raised")
        if len(res.returns) != 1 or not isinstance(res.returns[0][1], GList):
            raise Unsupported("summary: unexpected return structure")
        items = []
        for g, v in res.returns[0][1].items:
            if not isinstance(v, Slice) or v.base is not s:
                raise Unsupported("summary: appended value is not a slice of the input")
            items.append((g, (v.lo, v.hi)))
        A, B, cnt = compact_pairs(items, s.cap + 1)
        n = e.concretize(cnt, candidates=range(0, s.cap + 2))
        return [sym.mk_str(s.slice_t(z3.simplify(A[j]), z3.simplify(B[j]))) for j in range(n)]

    return summary
