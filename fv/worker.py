"""Run one obligation in its own process:  python -m fv.worker PROP NAME TIER SEED OUTFILE"""
import json
import sys
import io
import contextlib


def main():
    prop, name, tier, seed, out = sys.argv[1:6]
    from fv import core

    buf = io.StringIO()
    with contextlib.redirect_stdout(buf):
        res = core.run_one(prop, name, tier, int(seed))
    res["captured_stdout_tail"] = buf.getvalue()[-2000:]
    with open(out, "w") as f:
        json.dump(res, f, default=str)


if __name__ == "__main__":
    main()
