"""Run real FORD code on symbolic values: temporarily rebind, in the globals of the FORD
modules under analysis, the builtins Python does not let a proxy overload (len, int, str,
isinstance), the `re` module (compile -> SymPattern) and every compiled pattern stored in the
module or in one of its classes."""
import ast
import builtins
import contextlib
import inspect
import re
import textwrap
import types

import z3

from fv import sym
from fv.sym import SymStr, SymInt, SymBool, SymPattern, engine, iv, mk_int


def _cv():
    from fv import choice
    return choice


def sym_len(x):
    if isinstance(x, SymStr):
        return x.length()
    if isinstance(x, _cv().CV):
        return _cv().apply(builtins.len, x)
    return builtins.len(x)


def sym_int(x=0, *a):
    if isinstance(x, SymInt):
        return x
    if isinstance(x, _cv().CV):
        return _cv().apply(lambda v: builtins.int(v, *a), x)
    if isinstance(x, SymStr):
        s = x.strip()
        n = s.concrete_len()
        if n is None:
            n = engine().concretize(s.len)
        if n == 0:
            raise ValueError("invalid literal for int() with base 10: ''")
        val = iv(0)
        for i in range(n):
            c = s.chars[i]
            if not engine().decide(sym.rxa._is_digit(c)):
                raise ValueError("invalid literal for int() with base 10")
            val = val * 10 + z3.ZeroExt(sym.IW - sym.CW, c - 48)
        return mk_int(val)
    return builtins.int(x, *a)


def sym_str(x=""):
    if isinstance(x, SymStr):
        return x
    if isinstance(x, _cv().CV):
        return _cv().apply(builtins.str, x)
    if not isinstance(x, (str, int, float, bytes, type(None), list, tuple, dict)):
        # an object whose __str__/__repr__ yields a symbolic string (e.g. FortranLine)
        f = getattr(type(x), "__str__", None)
        r = f(x) if f is not None and f is not object.__str__ else type(x).__repr__(x)
        if isinstance(r, (SymStr, _cv().CV, str)):
            return r
    if isinstance(x, SymInt):
        return builtins.str(builtins.int(x))
    return builtins.str(x)


class _TypeProxy:
    """stands in for the builtin type names `str` / `int` inside patched modules: callable like the
    type, `isinstance(x, str)` is normalised by sym_isinstance, and unbound-method access such as
    `str.strip` yields a function that dispatches on the receiver (so it also works on symbolic values)"""

    def __init__(self, real, conv):
        self._real, self._conv = real, conv

    def __call__(self, *a, **k):
        return self._conv(*a, **k)

    def __eq__(self, other):
        return other is self or other is self._real

    def __ne__(self, other):
        return not self.__eq__(other)

    def __hash__(self):
        return hash(self._real)

    def __repr__(self):
        return repr(self._real)

    def __getattr__(self, name):
        if name.startswith("__"):
            return getattr(self._real, name)
        real_attr = getattr(self._real, name)
        if not callable(real_attr):
            return real_attr

        def unbound(recv, *a, **k):
            return getattr(recv, name)(*a, **k)

        return unbound


def _norm_types(t):
    """inside patched modules the names `str`/`int` are bound to our wrappers: map them back"""
    if isinstance(t, tuple):
        return tuple(_norm_types(c) for c in t)
    if t is sym_str or t is STR_PROXY:
        return str
    if t is sym_int or t is INT_PROXY:
        return int
    if isinstance(t, _TypeOf):
        return builtins.type
    return t


def sym_isinstance(x, t):
    t = _norm_types(t)
    if isinstance(x, _cv().CV):
        r = _cv().apply(lambda v: builtins.isinstance(v, t), x)
        return builtins.bool(r)
    if isinstance(x, SymStr):
        ts = t if isinstance(t, tuple) else (t,)
        return any(c is str or c is SymStr for c in ts)
    if isinstance(x, SymInt):
        ts = t if isinstance(t, tuple) else (t,)
        return any(c is int or c is SymInt for c in ts)
    return builtins.isinstance(x, t)


def sym_bool(x=False):
    return builtins.bool(x)


class ReProxy:
    """stands in for the `re` module inside patched FORD modules"""

    def __init__(self):
        self._cache = {}

    def __getattr__(self, n):
        return getattr(re, n)

    def compile(self, pattern, flags=0):
        if isinstance(pattern, SymStr):
            pattern = engine().concretize_str(pattern)
        return SymPattern(re.compile(pattern, flags))

    def _p(self, pattern, flags=0):
        return self.compile(pattern, flags)

    def match(self, pattern, string, flags=0):
        return self._p(pattern, flags).match(string)

    def search(self, pattern, string, flags=0):
        return self._p(pattern, flags).search(string)

    def sub(self, pattern, repl, string, count=0, flags=0):
        return self._p(pattern, flags).sub(repl, string, count)

    def split(self, pattern, string, maxsplit=0, flags=0):
        return self._p(pattern, flags).split(string, maxsplit)

    def finditer(self, pattern, string, flags=0):
        return self._p(pattern, flags).finditer(string)

    def findall(self, pattern, string, flags=0):
        return self._p(pattern, flags).findall(string)


class _TypeOf:
    """`type(x)` for symbolic x (the 3-argument form and isinstance(x, type) still work)"""

    def __call__(self, *a, **k):
        if len(a) == 1 and not k:
            x = a[0]
            if isinstance(x, _cv().CV):
                return _cv().apply(builtins.type, x)
            if isinstance(x, SymStr):
                return str
            if isinstance(x, SymInt):
                return int
        return builtins.type(*a, **k)

    def __eq__(self, other):
        return other is self or other is builtins.type

    def __hash__(self):
        return hash(builtins.type)

    def __getattr__(self, n):
        return getattr(builtins.type, n)


def sym_range(*a):
    return builtins.range(*[builtins.int(x) if isinstance(x, (SymInt, _cv().CV)) else x for x in a])


STR_PROXY = _TypeProxy(str, sym_str)
INT_PROXY = _TypeProxy(int, sym_int)
BUILTINS = {"len": sym_len, "int": INT_PROXY, "str": STR_PROXY, "isinstance": sym_isinstance, "range": sym_range, "type": _TypeOf()}


def fv_join(sep, items):
    """`sep.join(items)` that also works when items (or the list itself) are symbolic"""
    cvm = _cv()
    if isinstance(items, cvm.CV):
        return cvm.apply(lambda s_, it: s_.join(it), sep, items)
    items = list(items)
    if any(isinstance(x, cvm.CV) for x in items) or isinstance(sep, cvm.CV):
        return cvm.apply(lambda s_, *it: s_.join(it), sep, *items)
    if any(isinstance(x, SymStr) for x in items):
        return SymStr.lift(sep).join(items)
    return sep.join(items)


def fv_in(x, container, negate=False):
    """`x in "literal"` for symbolic x (str.__contains__ is a C method that rejects proxies)"""
    cvm = _cv()
    if isinstance(x, cvm.CV):
        r = cvm.apply(lambda v: v in container, x)
    elif isinstance(x, SymStr):
        r = SymStr.lift(container).contains(x)
    else:
        r = x in container
    if negate:
        return (not r) if isinstance(r, bool) else ~r if isinstance(r, SymBool) else cvm.apply(lambda b: not b, r)
    return r


def fv_fstr(*parts):
    """f-string evaluation that also works for symbolic (finite-choice) values: parts are literal strings or
    (value, conversion, format_spec) triples"""
    cvm = _cv()

    def fmt(v, conv, spec):
        if conv == ord("r"):
            v = repr(v)
        elif conv == ord("s"):
            v = builtins.str(v)
        elif conv == ord("a"):
            v = ascii(v)
        return format(v, spec or "")

    def user_str(p_):
        # an object whose Python-level __str__ yields a finite-choice value: str() would reject the proxy, so call it directly
        v, conv, spec = p_
        f = getattr(type(v), "__str__", None)
        if conv in (-1, ord("s")) and not spec and isinstance(f, types.FunctionType) and not isinstance(v, cvm.CV):
            r = f(v)
            if isinstance(r, (cvm.CV, builtins.str)):
                return (r, -1, spec)
        return p_

    parts = tuple(user_str(p_) if isinstance(p_, tuple) else p_ for p_ in parts)
    vals = [p_[0] for p_ in parts if isinstance(p_, tuple)]
    specs = [p_[2] for p_ in parts if isinstance(p_, tuple)]
    if any(isinstance(v, cvm.CV) for v in vals + specs):
        flat = []
        for p_ in parts:
            flat.extend(p_ if isinstance(p_, tuple) else (p_,))

        def build(*f):
            out, i = [], 0
            for p_ in parts:
                if isinstance(p_, tuple):
                    out.append(fmt(f[i], f[i + 1], f[i + 2]))
                    i += 3
                else:
                    out.append(f[i])
                    i += 1
            return "".join(out)

        return cvm.apply(build, *flat)
    return "".join(fmt(*p_) if isinstance(p_, tuple) else p_ for p_ in parts)


SYM_SET_MODULES = set()  # names of modules in which set displays / comprehensions build fv.permset.PermSet


def fv_set(s):
    from fv import permset
    return permset.PermSet(s)


def fv_setop(r):
    """result of a binary &, |, -, ^: a plain set becomes a PermSet, anything else (ints, ...) is returned unchanged"""
    from fv import permset
    return permset.PermSet(r) if type(r) in (set, frozenset) else r


class _JoinRewriter(ast.NodeTransformer):
    """'<literal>'.join(x)  ->  fv_join_hook('<literal>', x): str.join is a C method that rejects proxies"""

    def __init__(self):
        self.hits = 0

    def visit_JoinedStr(self, node):
        self.generic_visit(node)
        if not any(isinstance(v, ast.FormattedValue) for v in node.values):
            return node
        args = []
        for v in node.values:
            if isinstance(v, ast.FormattedValue):
                spec = v.format_spec if v.format_spec is not None else ast.Constant(None)
                args.append(ast.Tuple(elts=[v.value, ast.Constant(v.conversion), spec], ctx=ast.Load()))
            else:
                args.append(v)
        self.hits += 1
        return ast.copy_location(ast.Call(func=ast.Name(id="fv_fstr_hook", ctx=ast.Load()), args=args, keywords=[]), node)

    def visit_FormattedValue(self, node):
        # format specs are themselves JoinedStr: rewrite inner expressions only
        node.value = self.visit(node.value)
        if node.format_spec is not None:
            fs = self.visit(node.format_spec)
            node.format_spec = fs
        return node

    symsets = False

    def visit_SetComp(self, node):
        self.generic_visit(node)
        if not self.symsets:
            return node
        self.hits += 1
        return ast.copy_location(ast.Call(func=ast.Name(id="fv_set_hook", ctx=ast.Load()), args=[node], keywords=[]), node)

    visit_Set = visit_SetComp

    def visit_BinOp(self, node):
        # `a.keys() & b.keys()`, `s | t`, `s - t`, `s ^ t` build sets too
        self.generic_visit(node)
        if not self.symsets or not isinstance(node.op, (ast.BitAnd, ast.BitOr, ast.Sub, ast.BitXor)):
            return node
        self.hits += 1
        return ast.copy_location(ast.Call(func=ast.Name(id="fv_setop_hook", ctx=ast.Load()), args=[node], keywords=[]), node)

    def visit_Compare(self, node):
        self.generic_visit(node)
        if (len(node.ops) == 1 and isinstance(node.ops[0], (ast.In, ast.NotIn)) and isinstance(node.comparators[0], ast.Constant)
                and isinstance(node.comparators[0].value, str)):
            self.hits += 1
            return ast.copy_location(ast.Call(func=ast.Name(id="fv_in_hook", ctx=ast.Load()),
                                              args=[node.left, node.comparators[0], ast.Constant(isinstance(node.ops[0], ast.NotIn))],
                                              keywords=[]), node)
        return node

    def visit_Call(self, node):
        self.generic_visit(node)
        f = node.func
        if (isinstance(f, ast.Attribute) and f.attr == "join" and isinstance(f.value, ast.Constant) and isinstance(f.value.value, str)
                and len(node.args) == 1 and not node.keywords):
            self.hits += 1
            return ast.copy_location(ast.Call(func=ast.Name(id="fv_join_hook", ctx=ast.Load()), args=[f.value, node.args[0]], keywords=[]), node)
        return node


def _rewritten(fn, clsname=None):
    """recompile function `fn` with literal.join(...) calls rewritten; None if not applicable"""
    try:
        src = textwrap.dedent(inspect.getsource(fn))
    except (OSError, TypeError):
        return None
    symsets = fn.__module__ in SYM_SET_MODULES
    if (".join(" not in src and " in \"" not in src and " in '" not in src and 'f"' not in src and "f'" not in src
            and not (symsets and "{" in src)) or "super()" in src or fn.__closure__:
        return None
    tree = ast.parse(src)
    rw = _JoinRewriter()
    rw.symsets = symsets
    tree = rw.visit(tree)
    if not rw.hits:
        return None
    fdef = tree.body[0]
    fdef.decorator_list = []
    # annotations may name things of the original class scope: they are not needed to run the code
    fdef.returns = None
    for a in fdef.args.args + fdef.args.kwonlyargs + fdef.args.posonlyargs + [x for x in (fdef.args.vararg, fdef.args.kwarg) if x]:
        a.annotation = None
    if clsname:
        # compile inside a class body of the same name so that private names (__x) are mangled as in the original
        tree = ast.Module(body=[ast.ClassDef(name=clsname, bases=[], keywords=[], body=[fdef], decorator_list=[])], type_ignores=[])
    ast.fix_missing_locations(tree)
    g = fn.__globals__
    g["fv_join_hook"] = fv_join
    g["fv_in_hook"] = fv_in
    g["fv_fstr_hook"] = fv_fstr
    g["fv_set_hook"] = fv_set
    g["fv_setop_hook"] = fv_setop
    ns = {}
    code = compile(tree, inspect.getsourcefile(fn) or "<rewritten>", "exec")
    exec(code, g, ns)
    if clsname:
        new = [v for v in ns[clsname].__dict__.values() if isinstance(v, types.FunctionType)][0]
    else:
        new = ns[fdef.name]
    new.__defaults__ = fn.__defaults__
    new.__kwdefaults__ = fn.__kwdefaults__
    new.__qualname__ = fn.__qualname__
    return new


def _holds_pattern(v, depth=0):
    if isinstance(v, re.Pattern):
        return True
    if isinstance(v, (list, tuple)) and depth < 3:
        return any(_holds_pattern(x, depth + 1) for x in v)
    return False


def _wrap_patterns(v):
    if isinstance(v, re.Pattern):
        return SymPattern(v)
    if isinstance(v, (list, tuple)):
        return type(v)(_wrap_patterns(x) for x in v)
    return v


def _lib_pointwise(fn):
    def wrapper(*a, **k):
        CVt = _cv().CV
        if any(isinstance(x, CVt) for x in a) or any(isinstance(x, CVt) for x in k.values()):
            keys = list(k)
            return _cv().apply(lambda *aa: fn(*aa[:len(a)], **dict(zip(keys, aa[len(a):]))), *a, *[k[q] for q in keys])
        return fn(*a, **k)
    wrapper.__name__ = getattr(fn, "__name__", "lib")
    wrapper.__wrapped__ = fn
    return wrapper


_ACTIVE = []  # stack of (target, key, original, replacement) lists of the active `patched` blocks


@contextlib.contextmanager
def suspended():
    """temporarily undo every active patch (used to run native replays from inside a harness)"""
    undone = []
    for saved in reversed(_ACTIVE):
        for tgt, k, old, new in reversed(saved):
            _restore(tgt, k, old)
            undone.append((tgt, k, new))
    try:
        yield
    finally:
        for tgt, k, new in reversed(undone):
            if isinstance(tgt, dict):
                tgt[k] = new
            else:
                setattr(tgt, k, new)


def _restore(tgt, k, old):
    if isinstance(tgt, dict):
        if old is _MISSING:
            tgt.pop(k, None)
        else:
            tgt[k] = old
    else:
        if old is _MISSING:
            try:
                delattr(tgt, k)
            except AttributeError:
                pass
        else:
            setattr(tgt, k, old)


@contextlib.contextmanager
def patched(*modules, extra=None):
    """extra: {(module, name): replacement} additional global rebinding"""
    saved = []
    proxy = ReProxy()

    def setg(d, k, v):
        saved.append((d, k, d.get(k, _MISSING), v))
        d[k] = v

    def setc(cls, k, v):
        saved.append((cls, k, cls.__dict__.get(k, _MISSING), v))
        setattr(cls, k, v)

    _ACTIVE.append(saved)
    try:
        for m in modules:
            d = m.__dict__
            for k, v in BUILTINS.items():
                setg(d, k, v)
            if isinstance(d.get("re"), types.ModuleType):
                setg(d, "re", proxy)
            if callable(d.get("warn")) and getattr(d.get("warn"), "__module__", "") == "ford.console":
                # console output is not part of any property: the message may contain symbolic text
                setg(d, "warn", lambda *a, **k: None)
            for k, v in list(d.items()):
                if (isinstance(v, (types.FunctionType, types.BuiltinFunctionType)) and k not in BUILTINS and k != "warn"
                        and not str(getattr(v, "__module__", "") or "").startswith(("ford", "fv"))):
                    # a library function imported into the module (quote, dedent, fnmatch, ...): C code / foreign Python that
                    # knows nothing of finite-choice values: evaluate it per choice with its real semantics
                    setg(d, k, _lib_pointwise(v))
                    continue
                if isinstance(v, types.FunctionType) and v.__module__ == m.__name__:
                    nv = _rewritten(v)
                    if nv is not None:
                        setg(d, k, nv)
                elif isinstance(v, type) and v.__module__ == m.__name__:
                    for ck, cvl in list(v.__dict__.items()):
                        fnobj = cvl.fget if isinstance(cvl, property) else (cvl.__func__ if isinstance(cvl, (staticmethod, classmethod)) else cvl)
                        if isinstance(fnobj, types.FunctionType):
                            nv = _rewritten(fnobj, v.__name__)
                            if nv is not None:
                                if isinstance(cvl, property):
                                    setc(v, ck, property(nv, cvl.fset, cvl.fdel))
                                elif isinstance(cvl, staticmethod):
                                    setc(v, ck, staticmethod(nv))
                                elif isinstance(cvl, classmethod):
                                    setc(v, ck, classmethod(nv))
                                else:
                                    setc(v, ck, nv)
                if isinstance(v, re.Pattern):
                    setg(d, k, SymPattern(v))
                elif isinstance(v, (list, tuple)) and _holds_pattern(v):
                    # e.g. a module-level tuple of precompiled patterns (or of (name, pattern) pairs)
                    setg(d, k, _wrap_patterns(v))
                elif isinstance(v, dict) and any(isinstance(x, re.Pattern) for x in v.values()):
                    # e.g. a module-level cache of compiled patterns
                    for dk, dv in list(v.items()):
                        if isinstance(dv, re.Pattern):
                            setg(v, dk, SymPattern(dv))
                elif isinstance(v, type) and v.__module__ == m.__name__:
                    for ck, cv_ in list(v.__dict__.items()):
                        if isinstance(cv_, re.Pattern):
                            setc(v, ck, SymPattern(cv_))
                        elif isinstance(cv_, (list, tuple)) and _holds_pattern(cv_):
                            setc(v, ck, _wrap_patterns(cv_))
        for (m, k), v in (extra or {}).items():
            if isinstance(m, type):
                setc(m, k, v)
            else:
                setg(m.__dict__, k, v)
        yield
    finally:
        _ACTIVE.remove(saved)
        for tgt, k, old, new in reversed(saved):
            _restore(tgt, k, old)


_MISSING = object()
