"""Run real FORD code on symbolic values: temporarily rebind, in the globals of the FORD
modules under analysis, the builtins Python does not let a proxy overload (len, int, str,
isinstance), the `re` module (compile -> SymPattern) and every compiled pattern stored in the
module or in one of its classes."""
import builtins
import contextlib
import re
import types

import z3

from fv import sym
from fv.sym import SymStr, SymInt, SymBool, SymPattern, engine, iv, mk_int


def _cv():
    from fv import choice
    return choice


def sym_len(x):
    if isinstance(x, SymStr):
        return x.length()
    if isinstance(x, _cv().CV):
        return _cv().apply(builtins.len, x)
    return builtins.len(x)


def sym_int(x=0, *a):
    if isinstance(x, SymInt):
        return x
    if isinstance(x, _cv().CV):
        return _cv().apply(lambda v: builtins.int(v, *a), x)
    if isinstance(x, SymStr):
        s = x.strip()
        n = s.concrete_len()
        if n is None:
            n = engine().concretize(s.len)
        if n == 0:
            raise ValueError("invalid literal for int() with base 10: ''")
        val = iv(0)
        for i in range(n):
            c = s.chars[i]
            if not engine().decide(sym.rxa._is_digit(c)):
                raise ValueError("invalid literal for int() with base 10")
            val = val * 10 + z3.ZeroExt(sym.IW - sym.CW, c - 48)
        return mk_int(val)
    return builtins.int(x, *a)


def sym_str(x=""):
    if isinstance(x, SymStr):
        return x
    if isinstance(x, _cv().CV):
        return _cv().apply(builtins.str, x)
    if isinstance(x, SymInt):
        return builtins.str(builtins.int(x))
    return builtins.str(x)


class _TypeProxy:
    """stands in for the builtin type names `str` / `int` inside patched modules: callable like the
    type, `isinstance(x, str)` is normalised by sym_isinstance, and unbound-method access such as
    `str.strip` yields a function that dispatches on the receiver (so it also works on symbolic values)"""

    def __init__(self, real, conv):
        self._real, self._conv = real, conv

    def __call__(self, *a, **k):
        return self._conv(*a, **k)

    def __getattr__(self, name):
        if name.startswith("__"):
            return getattr(self._real, name)
        real_attr = getattr(self._real, name)
        if not callable(real_attr):
            return real_attr

        def unbound(recv, *a, **k):
            return getattr(recv, name)(*a, **k)

        return unbound


def _norm_types(t):
    """inside patched modules the names `str`/`int` are bound to our wrappers: map them back"""
    if isinstance(t, tuple):
        return tuple(_norm_types(c) for c in t)
    if t is sym_str or t is STR_PROXY:
        return str
    if t is sym_int or t is INT_PROXY:
        return int
    return t


def sym_isinstance(x, t):
    t = _norm_types(t)
    if isinstance(x, _cv().CV):
        r = _cv().apply(lambda v: builtins.isinstance(v, t), x)
        return builtins.bool(r)
    if isinstance(x, SymStr):
        ts = t if isinstance(t, tuple) else (t,)
        return any(c is str or c is SymStr for c in ts)
    if isinstance(x, SymInt):
        ts = t if isinstance(t, tuple) else (t,)
        return any(c is int or c is SymInt for c in ts)
    return builtins.isinstance(x, t)


def sym_bool(x=False):
    return builtins.bool(x)


class ReProxy:
    """stands in for the `re` module inside patched FORD modules"""

    def __init__(self):
        self._cache = {}

    def __getattr__(self, n):
        return getattr(re, n)

    def compile(self, pattern, flags=0):
        if isinstance(pattern, SymStr):
            pattern = engine().concretize_str(pattern)
        return SymPattern(re.compile(pattern, flags))

    def _p(self, pattern, flags=0):
        return self.compile(pattern, flags)

    def match(self, pattern, string, flags=0):
        return self._p(pattern, flags).match(string)

    def search(self, pattern, string, flags=0):
        return self._p(pattern, flags).search(string)

    def sub(self, pattern, repl, string, count=0, flags=0):
        return self._p(pattern, flags).sub(repl, string, count)

    def split(self, pattern, string, maxsplit=0, flags=0):
        return self._p(pattern, flags).split(string, maxsplit)

    def finditer(self, pattern, string, flags=0):
        return self._p(pattern, flags).finditer(string)

    def findall(self, pattern, string, flags=0):
        return self._p(pattern, flags).findall(string)


def sym_range(*a):
    return builtins.range(*[builtins.int(x) if isinstance(x, (SymInt, _cv().CV)) else x for x in a])


STR_PROXY = _TypeProxy(str, sym_str)
INT_PROXY = _TypeProxy(int, sym_int)
BUILTINS = {"len": sym_len, "int": INT_PROXY, "str": STR_PROXY, "isinstance": sym_isinstance, "range": sym_range}


@contextlib.contextmanager
def patched(*modules, extra=None):
    """extra: {(module, name): replacement} additional global rebinding"""
    saved = []
    proxy = ReProxy()

    def setg(d, k, v):
        saved.append((d, k, d.get(k, _MISSING)))
        d[k] = v

    def setc(cls, k, v):
        saved.append((cls, k, cls.__dict__.get(k, _MISSING)))
        setattr(cls, k, v)

    try:
        for m in modules:
            d = m.__dict__
            for k, v in BUILTINS.items():
                setg(d, k, v)
            if isinstance(d.get("re"), types.ModuleType):
                setg(d, "re", proxy)
            for k, v in list(d.items()):
                if isinstance(v, re.Pattern):
                    setg(d, k, SymPattern(v))
                elif isinstance(v, dict) and any(isinstance(x, re.Pattern) for x in v.values()):
                    # e.g. a module-level cache of compiled patterns
                    for dk, dv in list(v.items()):
                        if isinstance(dv, re.Pattern):
                            setg(v, dk, SymPattern(dv))
                elif isinstance(v, type) and v.__module__ == m.__name__:
                    for ck, cv_ in list(v.__dict__.items()):
                        if isinstance(cv_, re.Pattern):
                            setc(v, ck, SymPattern(cv_))
        for (m, k), v in (extra or {}).items():
            setg(m.__dict__, k, v)
        yield
    finally:
        for tgt, k, old in reversed(saved):
            if isinstance(tgt, dict):
                if old is _MISSING:
                    tgt.pop(k, None)
                else:
                    tgt[k] = old
            else:
                if old is _MISSING:
                    try:
                        delattr(tgt, k)
                    except AttributeError:
                        pass
                else:
                    setattr(tgt, k, old)


_MISSING = object()
