"""SX engine, part 3: finite-choice symbolic values (CV).

A CV is a value that depends on a few symbolic *index variables* (each ranging over a small
finite set): table[(i1,..,in)] = concrete Python value.  Any operation of the real code on CVs
is evaluated pointwise with Python's own semantics (str methods, `re`, arithmetic, ...), giving
another CV; a branch on a CV-bool is a solver decision over the index variables.  If the
operation raises for some index values, the engine decides (forks) whether the path takes one
of those values and, if so, re-raises the exception — exactly what the real code would do.

This lets the *whole parser* run on symbolic programs "statement k is one of these spellings"
while every regex/string operation keeps its exact CPython semantics.
"""
import itertools

import z3

from fv import sym
from fv.sym import engine

MAX_TABLE = 20000


class Idx:
    """a symbolic index variable with `size` values"""

    def __init__(self, name, size):
        self.name, self.size = name, size
        self.var = z3.BitVec(name, 8)

    def __repr__(self):
        return f"Idx({self.name},{self.size})"


_NOSLICE = object()


class _Poison:
    def __init__(self, exc):
        self.exc = exc

    def __repr__(self):
        return f"<poison {self.exc!r}>"


_INFEASIBLE = _Poison(RuntimeError("choice excluded by the path condition"))


def _key_eq(idxs, key):
    cs = [i.var == k for i, k in zip(idxs, key)]
    return z3.And(*cs) if len(cs) != 1 else cs[0]


def cond_of(idxs, keys, total):
    """z3 condition: the index tuple is one of `keys`"""
    keys = sorted(keys)
    if not keys:
        return z3.BoolVal(False)
    if len(keys) == total:
        return z3.BoolVal(True)
    if len(keys) > total // 2 and total <= MAX_TABLE:
        # cheaper as a negation
        allk = set(itertools.product(*[range(i.size) for i in idxs]))
        other = sorted(allk - set(keys))
        return z3.Not(z3.Or(*[_key_eq(idxs, k) for k in other])) if other else z3.BoolVal(True)
    return z3.Or(*[_key_eq(idxs, k) for k in keys])


class CV:
    __slots__ = ("idxs", "table")

    def __init__(self, idxs, table):
        self.idxs = tuple(idxs)
        self.table = table

    # -- helpers ---------------------------------------------------------------------
    @staticmethod
    def choice(E, name, options):
        """fresh CV selecting one of `options`"""
        idx = Idx(name, len(options))
        E.e.base.append(z3.ULT(idx.var, len(options)))
        E._flush()
        return CV((idx,), {(j,): o for j, o in enumerate(options)})

    def values(self):
        return list(self.table.values())

    def total(self):
        n = 1
        for i in self.idxs:
            n *= i.size
        return n

    def eval_model(self, m):
        key = tuple(min(m.eval(i.var, model_completion=True).as_long(), i.size - 1) for i in self.idxs)
        return self.table[key]

    def where(self, pred):
        return cond_of(self.idxs, [k for k, v in self.table.items() if pred(v)], self.total())

    # -- truth / concretisation ------------------------------------------------------
    def __bool__(self):
        return engine().decide(self.where(lambda v: bool(v)))

    def bool_term(self):
        return self.where(lambda v: bool(v))

    def concretize(self):
        """fork over the distinct values"""
        seen = []
        for v in self.table.values():
            if not any(_same(v, s) for s in seen):
                seen.append(v)
        for v in seen[:-1]:
            if engine().decide(self.where(lambda x, v=v: _same(x, v))):
                return v
        if engine().decide(self.where(lambda x: _same(x, seen[-1]))):
            return seen[-1]
        raise sym.PathAbort()

    def __hash__(self):
        return hash(self.concretize())

    def __index__(self):
        return self.concretize()

    def __fspath__(self):
        return self.concretize()

    __int__ = __index__

    def __iter__(self):
        """iterate a CV of sequences: fork on the length, then element CVs"""
        n = apply(len, self)
        n = n.concretize() if isinstance(n, CV) else n
        for j in range(n):
            yield apply(lambda s, j=j: s[j] if isinstance(s, (list, tuple, str)) else list(s)[j], self)

    def __len__(self):
        n = apply(len, self)
        return n.concretize() if isinstance(n, CV) else n

    def __format__(self, spec):
        return sym.OPAQUE

    def __str__(self):
        return sym.OPAQUE

    def __repr__(self):
        vs = list(self.table.values())
        return f"CV({[i.name for i in self.idxs]}: {vs[:4]}{'...' if len(vs) > 4 else ''})"

    # -- generic pointwise operations ------------------------------------------------
    def __getattr__(self, name):
        if name.startswith("__") and name.endswith("__"):
            raise AttributeError(name)
        attrs = apply(lambda v: getattr(v, name), self)
        if isinstance(attrs, CV) and all(callable(v) for v in attrs.table.values() if not isinstance(v, _Poison)):
            def method(*a, **k):
                # several choices may share one receiver object (e.g. the same list): a mutating method must
                # then run once per object, not once per choice
                memo = {}

                def call(f, *aa):
                    recv = getattr(f, "__self__", None)
                    if recv is None or isinstance(recv, (str, int, float, tuple, frozenset, bytes)) or any(isinstance(x, CV) for x in aa):
                        return f(*aa, **k)
                    key = (id(recv), getattr(f, "__name__", ""), tuple(id(x) for x in aa))
                    if key not in memo:
                        memo[key] = f(*aa, **k)
                    return memo[key]
                return apply(call, attrs, *a)
            return method
        return attrs

    def __getitem__(self, k):
        if isinstance(k, slice):
            return apply(lambda v, a, b, c: v[slice(a, b, c)], self, k.start, k.stop, k.step)
        return apply(lambda v, kk: v[kk], self, k)

    def __setitem__(self, k, value):
        """item / slice assignment on a CV of lists (or dicts): done per choice on a copy"""
        def assign(v, a, b, c, val, kk):
            v = v.copy()
            if kk is _NOSLICE:
                v[slice(a, b, c)] = val
            else:
                v[kk] = val
            return v
        if isinstance(k, slice):
            new = apply(assign, self, k.start, k.stop, k.step, value, _NOSLICE)
        else:
            new = apply(assign, self, None, None, None, value, k)
        if isinstance(new, CV):
            self.idxs, self.table = new.idxs, new.table
        else:
            self.idxs, self.table = (), {(): new}

    def __contains__(self, x):
        r = apply(lambda v, xx: xx in v, self, x)
        return bool(r)

    def __call__(self, *a, **k):
        return apply(lambda f, *aa: f(*aa, **k), self, *a)


def _same(a, b):
    try:
        return type(a) is type(b) and a == b
    except Exception:  # noqa
        return a is b


def _binop(name, f, swap=False):
    def op(self, o):
        if isinstance(o, (sym.SymStr, sym.SymInt, sym.SymBool)):
            return NotImplemented
        return apply((lambda a, b: f(b, a)) if swap else f, self, o)
    op.__name__ = name
    return op


import operator as _op

for _n, _f in [("add", _op.add), ("sub", _op.sub), ("mul", _op.mul), ("floordiv", _op.floordiv), ("mod", _op.mod),
               ("and", _op.and_), ("or", _op.or_)]:
    setattr(CV, f"__{_n}__", _binop(_n, _f))
    setattr(CV, f"__r{_n}__", _binop("r" + _n, _f, swap=True))
for _n, _f in [("eq", _op.eq), ("ne", _op.ne), ("lt", _op.lt), ("le", _op.le), ("gt", _op.gt), ("ge", _op.ge)]:
    setattr(CV, f"__{_n}__", _binop(_n, _f))
CV.__neg__ = lambda self: apply(_op.neg, self)
CV.__invert__ = lambda self: apply(_op.not_, self)


def apply(f, *args):
    """pointwise application of f; arguments may be CVs or plain values.  Collapses to a plain
    value when the result does not depend on the indices."""
    cvs = [a for a in args if isinstance(a, CV)]
    if not cvs:
        return f(*args)
    idxs = []
    for c in cvs:
        for i in c.idxs:
            if i not in idxs:
                idxs.append(i)
    total = 1
    for i in idxs:
        total *= i.size
    if total > MAX_TABLE:
        raise sym.Unsupported(f"choice product too large ({total})")
    pos = {i: n for n, i in enumerate(idxs)}
    table = {}
    poison = {}
    for key in itertools.product(*[range(i.size) for i in idxs]):
        vals = []
        bad = None
        for a in args:
            if isinstance(a, CV):
                v = a.table[tuple(key[pos[i]] for i in a.idxs)]
                if isinstance(v, _Poison):
                    bad = v
                vals.append(v)
            else:
                vals.append(a)
        if bad is not None:
            table[key] = bad
            continue
        try:
            table[key] = f(*vals)
        except Exception as e:  # noqa - the real code would raise on this choice
            table[key] = _Poison(e)
            poison.setdefault(type(e), []).append(key)
    for et, keys in poison.items():
        c = cond_of(idxs, keys, total)
        if engine().decide(c):
            raise table[keys[0]].exc
    # `x is None` cannot be overloaded: a result that is None for some choices and a value for others
    # is split right here (one more decision) so that a CV never stands for None
    nones = [k for k, v in table.items() if v is None]
    if nones and any(v is not None and not isinstance(v, _Poison) for v in table.values()):
        if engine().decide(cond_of(idxs, nones, total)):
            return None
        for k in nones:
            table[k] = _INFEASIBLE
    vals = [v for v in table.values() if not isinstance(v, _Poison)]
    if not vals:
        raise sym.PathAbort()
    first = vals[0]
    if all(_same(v, first) for v in vals) and not isinstance(first, (list, dict, set)):
        return first
    # drop indices the result does not depend on
    return _project(CV(idxs, table))


def _project(cv):
    idxs = list(cv.idxs)
    table = cv.table
    for n in reversed(range(len(idxs))):
        i = idxs[n]
        groups = {}
        ok = True
        for key, v in table.items():
            rest = key[:n] + key[n + 1:]
            if rest in groups:
                g = groups[rest]
                if isinstance(v, _Poison) or isinstance(g, _Poison):
                    if not isinstance(v, _Poison):
                        groups[rest] = v
                    continue
                if not _same(g, v) or isinstance(v, (list, dict, set)):
                    ok = False
                    break
            else:
                groups[rest] = v
        if ok and len(idxs) > 1:
            idxs.pop(n)
            table = groups
    return CV(idxs, table)


def value_in_model(m, x):
    if isinstance(x, CV):
        return x.eval_model(m)
    if isinstance(x, (list, tuple)):
        return [value_in_model(m, y) for y in x]
    if isinstance(x, dict):
        return {k: value_in_model(m, v) for k, v in x.items()}
    return x


def term_eq(x, value):
    """z3 term: x equals the concrete `value` (x a CV or plain value)"""
    if isinstance(x, CV):
        return x.where(lambda v: _same(v, value) or v == value)
    return z3.BoolVal(x == value)
