"""Specifications (oracles) as z3 terms over bounded symbolic strings, and as plain Python."""
import z3

from fv.sym import SymStr, iv, cv

OUT, SQ, DQ = 0, 1, 2
SQC, DQC = ord("'"), ord('"')


def lex_states(s: SymStr, start_state=None):
    """Fortran character context (F2008 3.3.2, 4.4.3): list st[0..cap] of 2-bit terms, st[i] =
    state before char i (0 outside, 1 inside '...', 2 inside "...").  A doubled quote closes and
    re-opens the literal, which is the same context for every other character."""
    st = [z3.BitVecVal(OUT, 2) if start_state is None else start_state]
    for i in range(s.cap):
        c, q = s.chars[i], st[-1]
        nxt = z3.If(q == OUT, z3.If(c == SQC, z3.BitVecVal(SQ, 2), z3.If(c == DQC, z3.BitVecVal(DQ, 2), q)),
                    z3.If(z3.And(q == SQ, c == SQC), z3.BitVecVal(OUT, 2),
                          z3.If(z3.And(q == DQ, c == DQC), z3.BitVecVal(OUT, 2), q)))
        st.append(z3.simplify(nxt))
    return st


def state_at_len(s: SymStr, st):
    e = st[s.cap]
    for i in reversed(range(s.cap)):
        e = z3.If(s.len == i, st[i], e)
    return e


def py_lex_state(text, state=OUT):
    for c in text:
        if state == OUT:
            state = SQ if c == "'" else DQ if c == '"' else OUT
        elif state == SQ and c == "'":
            state = OUT
        elif state == DQ and c == '"':
            state = OUT
    return state


def py_outside_positions(text):
    """indices i such that char i is outside any literal (quotes themselves count as inside)"""
    out, state = [], OUT
    for i, c in enumerate(text):
        if state == OUT and c not in "'\"":
            out.append(i)
        state = py_lex_state(c, state)
    return out


def first_unquoted(s: SymStr, st, ch):
    """index (16-bit term) of the first `ch` outside a literal, -1 if none"""
    r = iv(-1)
    for i in reversed(range(s.cap)):
        r = z3.If(z3.And(iv(i) < s.len, st[i] == OUT, s.chars[i] == ord(ch)), iv(i), r)
    return z3.simplify(r)


def py_first_unquoted(text, ch):
    for i in py_outside_positions(text):
        if text[i] == ch:
            return i
    return -1


def py_split_unquoted(text, sep):
    cuts = [i for i in py_outside_positions(text) if text[i] == sep]
    out, left = [], 0
    for c in cuts:
        out.append(text[left:c])
        left = c + 1
    out.append(text[left:])
    return out
