"""Specifications (oracles) as z3 terms over bounded symbolic strings, and as plain Python."""
import z3

from fv.sym import SymStr, iv, cv

OUT, SQ, DQ = 0, 1, 2
SQC, DQC = ord("'"), ord('"')


def lex_states(s: SymStr, start_state=None):
    """Fortran character context (F2008 3.3.2, 4.4.3): list st[0..cap] of 2-bit terms, st[i] =
    state before char i (0 outside, 1 inside '...', 2 inside "...").  A doubled quote closes and
    re-opens the literal, which is the same context for every other character."""
    st = [z3.BitVecVal(OUT, 2) if start_state is None else start_state]
    for i in range(s.cap):
        c, q = s.chars[i], st[-1]
        nxt = z3.If(q == OUT, z3.If(c == SQC, z3.BitVecVal(SQ, 2), z3.If(c == DQC, z3.BitVecVal(DQ, 2), q)),
                    z3.If(z3.And(q == SQ, c == SQC), z3.BitVecVal(OUT, 2),
                          z3.If(z3.And(q == DQ, c == DQC), z3.BitVecVal(OUT, 2), q)))
        st.append(z3.simplify(nxt))
    return st


def state_at_len(s: SymStr, st):
    e = st[s.cap]
    for i in reversed(range(s.cap)):
        e = z3.If(s.len == i, st[i], e)
    return e


def py_lex_state(text, state=OUT):
    for c in text:
        if state == OUT:
            state = SQ if c == "'" else DQ if c == '"' else OUT
        elif state == SQ and c == "'":
            state = OUT
        elif state == DQ and c == '"':
            state = OUT
    return state


def py_outside_positions(text):
    """indices i such that char i is outside any literal (quotes themselves count as inside)"""
    out, state = [], OUT
    for i, c in enumerate(text):
        if state == OUT and c not in "'\"":
            out.append(i)
        state = py_lex_state(c, state)
    return out


def first_unquoted(s: SymStr, st, ch):
    """index (16-bit term) of the first `ch` outside a literal, -1 if none"""
    r = iv(-1)
    for i in reversed(range(s.cap)):
        r = z3.If(z3.And(iv(i) < s.len, st[i] == OUT, s.chars[i] == ord(ch)), iv(i), r)
    return z3.simplify(r)


def py_first_unquoted(text, ch):
    for i in py_outside_positions(text):
        if text[i] == ch:
            return i
    return -1


def py_split_unquoted(text, sep):
    cuts = [i for i in py_outside_positions(text) if text[i] == sep]
    out, left = [], 0
    for c in cuts:
        out.append(text[left:c])
        left = c + 1
    out.append(text[left:])
    return out


def py_canon(text):
    """token-level normal form: runs of blanks outside literals -> one blank, ends stripped"""
    import re as _re
    outside = set(py_outside_positions(text))
    marked = "".join(("\x00" if (i in outside and c in " \t") else c) for i, c in enumerate(text))
    return _re.sub("\x00+", " ", marked.strip("\x00"))


def py_free_statements(lines):
    """Reference: logical statements of a free-form fragment without doc comments
    (F2008 3.3.2.4): comments removed, blank/comment lines transparent, `&` continuation with
    optional leading `&`, `;` separation outside literals.  Returned in canonical form (blanks
    outside literals removed); None for fragments outside the scenario (literal continuation
    without leading &, `!` on a line that starts inside a literal)."""
    stmts, cur, continued = [], "", False
    for raw in lines:
        line = raw.rstrip("\n")
        state = py_lex_state(cur)
        lead = False
        if continued and state != OUT:
            t = line.strip()
            if not t.startswith("&") or "!" in t:
                return None
            t = t[1:]
            lead = True
        else:
            fb = py_first_unquoted(line, "!")
            code = line if fb < 0 else line[:fb]
            t = code.strip()
            if not t:
                continue
            if t.startswith("&"):
                if not continued:
                    return None
                t = t[1:]
                lead = True
                if not t.strip():
                    continue
        sep = "" if (lead or not cur) else " "
        if t.endswith("&"):
            continued, t = True, t[:-1]
        else:
            continued = False
        cur += sep + t
        if not continued:
            stmts += [py_canon(p) for p in py_split_unquoted(cur, ";") if p.strip()]
            cur = ""
    if continued or cur:
        return None
    return stmts
