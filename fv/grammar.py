"""Fortran free-form statement grammar fragments as z3 regular languages.

A *statement* here is what FortranReader hands to the parser: stripped, comments
removed, continuation joined, character literals masked as "<digits>".
Blanks: ' ' and TAB.  Identifiers: letter (letter|digit|_)*, minus statement keywords
(the properties speak about valid programs in the supported subset; keywords used as
identifiers are outside every claim).
"""
import z3

from fv.rx import (BL, DIGIT, EPS, IDENT_RAW, LETTER, WORD, WS, WS1, alt, anyof_kw, ch, chars, comma_list, kw, lit,
                   minus, opt, plus, seq, star)

KEYWORDS = (
    "subroutine function module submodule program type interface procedure end contains use common "
    "namelist enum enumerator final generic block data associate call if do select case where forall format "
    "public private protected integer real complex logical character class double precision result bind "
    "pure elemental recursive impure abstract sequence import implicit parameter dimension allocatable pointer "
    "target optional intent save value volatile asynchronous external intrinsic contiguous codimension "
    "else elseif then endif enddo print write read open close allocate deallocate nullify return stop "
    "goto go to continue cycle exit is default only operator assignment non_recursive "
    "endsubroutine endfunction endmodule endsubmodule endprogram endtype endinterface endenum "
    "endblock endassociate endprocedure blockdata endblockdata doubleprecision doublecomplex sync error "
    "while concurrent critical entry equivalence inquire rewind backspace endfile flush wait lock unlock "
    "selectcase selecttype elsewhere endwhere endforall endselect endcritical in out inout len kind "
    "deferred pass nopass non_overridable extends non_intrinsic"
).split()

NAME = minus(IDENT_RAW, anyof_kw(*KEYWORDS))
STR = seq('"', plus(DIGIT), '"')  # masked character literal
INT = plus(DIGIT)

# expression text, token based: every word in an expression is a NAME (never a keyword), a
# numeric literal, a masked character literal or a dotted operator/constant; words are
# delimited by operator characters, blanks or parenthesis groups (depth <= 2); no ! ; '
NUM = seq(plus(DIGIT), opt(".", star(DIGIT)), opt(chars("eEdD"), opt(chars("+-")), plus(DIGIT)), opt("_", alt(plus(DIGIT), NAME)))
DOTTED = seq(".", plus(LETTER), ".")
ATOM = alt(NAME, NUM, STR, DOTTED)
_SEP = chars("+-*/,:%=<>[]")  # non-blank delimiters
_SEPN = chars("+-*/:%=<>[]")  # ... without the comma


def _expr(sep, group):
    """words delimited by at least one non-blank delimiter or parenthesis group; blanks
    may surround delimiters but never separate two words (free-form rule)"""
    d = alt(sep, group) if group is not None else sep
    gap = seq(WS, plus(d, WS))
    return seq(WS, star(d, WS), opt(ATOM, star(gap, ATOM), WS, star(d, WS)))


E0 = _expr(_SEP, None)
E1 = _expr(_SEP, seq("(", E0, ")"))
E2 = _expr(_SEP, seq("(", E1, ")"))
# same without a top-level comma (one list item)
ITEM1 = _expr(_SEPN, seq("(", E1, ")"))
# simple scalar expression that starts and ends with a non-blank
_BINOP = alt("+", "-", "*", "/", "**", "==", "/=", "<", ">", "<=", ">=", seq(WS1, DOTTED, WS1))
_PRIMARY = alt(ATOM, seq(NAME, WS, "(", E1, ")"), seq(NAME, star(WS, "%", WS, NAME), opt(WS, "(", E1, ")")), seq("(", E1, ")"))
SEXPR = seq(opt(chars("+-")), _PRIMARY, star(WS, _BINOP, WS, _PRIMARY))


def paren(inner):
    return seq("(", WS, inner, WS, ")")


NAME_LIST = comma_list(NAME)

# ---------------------------------------------------------------------------
# type specs
# ---------------------------------------------------------------------------
KIND_INNER = alt(
    seq(opt(kw("kind"), WS, "=", WS), alt(INT, NAME, seq(NAME, WS, "(", E0, ")"))),
)
CHAR_INNER = alt(
    alt(INT, NAME, "*", ":"),
    seq(kw("len"), WS, "=", WS, alt(INT, NAME, "*", ":")),
    seq(kw("kind"), WS, "=", WS, alt(INT, NAME)),
    seq(kw("len"), WS, "=", WS, alt(INT, NAME, "*", ":"), WS, ",", WS, kw("kind"), WS, "=", WS, alt(INT, NAME)),
    seq(kw("kind"), WS, "=", WS, alt(INT, NAME), WS, ",", WS, kw("len"), WS, "=", WS, alt(INT, NAME, "*", ":")),
    seq(alt(INT, NAME, "*", ":"), WS, ",", WS, opt(kw("kind"), WS, "=", WS), alt(INT, NAME)),
)
NUMERIC_KW = alt(kw("integer"), kw("real"), kw("complex"), kw("logical"))
DOUBLE = alt(seq(kw("double"), WS, kw("precision")), seq(kw("double"), WS, kw("complex")))
NUMERIC_TYPE = alt(
    NUMERIC_KW,
    seq(NUMERIC_KW, WS, paren(KIND_INNER)),
    seq(NUMERIC_KW, WS, "*", WS, INT),
    DOUBLE,
)
CHAR_TYPE = alt(
    kw("character"),
    seq(kw("character"), WS, paren(CHAR_INNER)),
    seq(kw("character"), WS, "*", WS, alt(INT, paren(alt("*", INT, NAME)))),
)
INTRINSIC_TYPE = alt(NUMERIC_TYPE, CHAR_TYPE)
DERIVED_TYPE = alt(
    seq(kw("type"), WS, paren(alt(NAME, INTRINSIC_TYPE))),
    seq(kw("class"), WS, paren(alt(NAME, "*"))),
)
PROC_TYPE = seq(kw("procedure"), WS, "(", WS, opt(alt(NAME, INTRINSIC_TYPE)), WS, ")")
# type specs that end in a name character (a following name needs a blank) / in ')' or digit (blank optional)
TYPE_SPEC = alt(INTRINSIC_TYPE, DERIVED_TYPE, PROC_TYPE)
TYPE_SPEC_ENDS_WORD = alt(NUMERIC_KW, DOUBLE, kw("character"), seq(NUMERIC_KW, WS, "*", WS, INT),
                          seq(kw("character"), WS, "*", WS, INT))

INTENT = seq(kw("intent"), WS, "(", WS, alt(kw("in"), kw("out"), kw("inout"), seq(kw("in"), WS1, kw("out"))), WS, ")")
ACCESS = anyof_kw("public", "private")
ATTR = alt(
    anyof_kw("parameter", "allocatable", "pointer", "target", "optional", "save", "value", "volatile",
             "asynchronous", "contiguous", "external", "intrinsic", "public", "private", "protected"),
    seq(kw("dimension"), WS, "(", E1, ")"),
    seq(kw("codimension"), WS, "[", E0, "]"),
    INTENT,
    seq(kw("bind"), WS, "(", WS, kw("c"), opt(WS, ",", WS, kw("name"), WS, "=", WS, STR), WS, ")"),
)
ATTR_LIST = star(WS, ",", WS, ATTR)
ENTITY = seq(
    NAME,
    opt(WS, "(", E1, ")"),
    opt(WS, "*", WS, alt(INT, paren(alt("*", INT)))),
    opt(WS, alt("=", "=>"), WS, alt(SEXPR, seq("[", E1, "]"), seq("(/", E1, "/)"))),
)
ENTITY_LIST = comma_list(ENTITY)
# R501 type-declaration-stmt
VAR_DECL = alt(
    seq(TYPE_SPEC, ATTR_LIST, WS, "::", WS, ENTITY_LIST),
    seq(TYPE_SPEC_ENDS_WORD, WS1, ENTITY_LIST),
    seq(alt(seq(NUMERIC_KW, WS, paren(KIND_INNER)), seq(kw("character"), WS, paren(CHAR_INNER)), DERIVED_TYPE, PROC_TYPE),
        WS, ENTITY_LIST),
)
ENUMERATOR = seq(kw("enumerator"), alt(seq(WS, "::", WS), WS1), comma_list(seq(NAME, opt(WS, "=", WS, SEXPR))))

# ---------------------------------------------------------------------------
# program units and procedures
# ---------------------------------------------------------------------------
MODULE_STMT = seq(kw("module"), WS1, NAME)
SUBMODULE_STMT = seq(kw("submodule"), WS, "(", WS, NAME, opt(WS, ":", WS, NAME), WS, ")", WS, NAME)
PROGRAM_STMT = seq(kw("program"), WS1, NAME)
BLOCKDATA_STMT = seq(kw("block"), WS, kw("data"), opt(WS1, NAME))

PREFIX_WORD = anyof_kw("pure", "elemental", "recursive", "impure", "module", "non_recursive")
DUMMY_LIST = opt(comma_list(alt(NAME, "*")))
BIND_C = seq(kw("bind"), WS, "(", WS, kw("c"), opt(WS, ",", WS, kw("name"), WS, "=", WS, STR), WS, ")")
SUBROUTINE_STMT = seq(
    star(PREFIX_WORD, WS1), kw("subroutine"), WS1, NAME, opt(WS, "(", WS, DUMMY_LIST, WS, ")"), opt(WS, BIND_C)
)
FUNC_PREFIX = alt(
    star(PREFIX_WORD, WS1),
    # type spec somewhere among the prefixes; a type spec ending in ')' needs no blank before the next word
    seq(star(PREFIX_WORD, WS1), alt(seq(TYPE_SPEC_ENDS_WORD, WS1), seq(TYPE_SPEC, WS)), star(PREFIX_WORD, WS1)),
)
FUNC_SUFFIX = alt(
    EPS,
    seq(WS, kw("result"), WS, paren(NAME)),
    seq(WS, BIND_C),
    seq(WS, kw("result"), WS, paren(NAME), WS, BIND_C),
    seq(WS, BIND_C, WS, kw("result"), WS, paren(NAME)),
)
FUNCTION_STMT = seq(FUNC_PREFIX, kw("function"), WS1, NAME, WS, "(", WS, opt(NAME_LIST), WS, ")", FUNC_SUFFIX)

UNIT_KIND = alt(
    anyof_kw("module", "submodule", "subroutine", "function", "procedure", "program", "type", "interface", "enum"),
    seq(kw("block"), WS1, kw("data")),
)
END_UNIT_STMT = alt(
    kw("end"),
    seq(kw("end"), WS, UNIT_KIND),
    seq(kw("end"), WS, UNIT_KIND, WS1, NAME),
)
END_INTERFACE_GENERIC = seq(kw("end"), WS, kw("interface"), WS1,
                            alt(seq(kw("operator"), WS, "(", WS, plus(chars("+-*/<>=.abcdefghijklmnopqrstuvwxyz")), WS, ")"),
                                seq(kw("assignment"), WS, "(", WS, "=", WS, ")")))

TYPE_ATTR = alt(
    ACCESS, kw("abstract"), seq(kw("bind"), WS, "(", WS, kw("c"), WS, ")"), seq(kw("extends"), WS, paren(NAME))
)
TYPE_DEF_STMT = alt(
    seq(kw("type"), WS1, NAME, opt(WS, "(", WS, NAME_LIST, WS, ")")),
    seq(kw("type"), star(WS, ",", WS, TYPE_ATTR), WS, "::", WS, NAME, opt(WS, "(", WS, NAME_LIST, WS, ")")),
)
DEFINED_OP = seq(".", plus(LETTER), ".")
INTRINSIC_OP = alt("+", "-", "*", "/", "**", "//", "==", "/=", "<", "<=", ">", ">=", DEFINED_OP)
GENERIC_SPEC = alt(
    NAME,
    seq(kw("operator"), WS, "(", WS, INTRINSIC_OP, WS, ")"),
    seq(kw("assignment"), WS, "(", WS, "=", WS, ")"),
    seq(alt(kw("read"), kw("write")), WS, "(", WS, alt(kw("formatted"), kw("unformatted")), WS, ")"),
)
INTERFACE_STMT = alt(kw("interface"), seq(kw("interface"), WS1, GENERIC_SPEC), seq(kw("abstract"), WS1, kw("interface")))
ENUM_STMT = seq(kw("enum"), WS, ",", WS, kw("bind"), WS, "(", WS, kw("c"), WS, ")")
MODPROC_STMT = seq(kw("module"), WS1, kw("procedure"), alt(WS1, seq(WS, "::", WS)), NAME_LIST)
PROC_IN_INTERFACE_STMT = seq(kw("procedure"), alt(WS1, seq(WS, "::", WS)), NAME_LIST)
SEP_MODPROC_STMT = seq(kw("module"), WS1, kw("procedure"), WS1, NAME)

BINDING_ATTR = alt(
    ACCESS, kw("deferred"), kw("nopass"), kw("non_overridable"), kw("pass"), seq(kw("pass"), WS, paren(NAME))
)
BOUNDPROC_STMT = alt(
    seq(kw("procedure"), WS1, NAME, opt(WS, "=>", WS, NAME)),
    seq(kw("procedure"), star(WS, ",", WS, BINDING_ATTR), WS, "::", WS, comma_list(seq(NAME, opt(WS, "=>", WS, NAME)))),
    seq(kw("procedure"), WS, paren(NAME), plus(WS, ",", WS, BINDING_ATTR), WS, "::", WS, NAME_LIST),
)
GENERIC_BINDING_STMT = seq(kw("generic"), opt(WS, ",", WS, ACCESS), WS, "::", WS, GENERIC_SPEC, WS, "=>", WS, NAME_LIST)
FINAL_STMT = seq(kw("final"), WS, "::", WS, NAME_LIST)
FINAL_STMT_NOCOLON = seq(kw("final"), WS1, NAME_LIST)

COMMON_STMT = alt(
    seq(kw("common"), WS, "/", WS, NAME, WS, "/", WS, comma_list(seq(NAME, opt(WS, "(", E0, ")")))),
    seq(kw("common"), WS1, comma_list(seq(NAME, opt(WS, "(", E0, ")")))),
)
NAMELIST_STMT = seq(kw("namelist"), WS, "/", NAME, "/", WS, NAME_LIST)
NAMELIST_STMT_BLANKS = seq(kw("namelist"), WS, "/", WS, NAME, WS, "/", WS, NAME_LIST)

ONLY_ITEM = alt(NAME, seq(NAME, WS, "=>", WS, NAME), seq(kw("operator"), WS, "(", WS, INTRINSIC_OP, WS, ")"),
                seq(kw("assignment"), WS, "(", WS, "=", WS, ")"))
USE_NATURE = seq(WS, ",", WS, alt(kw("intrinsic"), kw("non_intrinsic")), WS)
USE_HEAD = alt(
    seq(kw("use"), WS1, NAME),
    seq(kw("use"), WS, "::", WS, NAME),
    seq(kw("use"), USE_NATURE, "::", WS, NAME),
)
USE_TAIL = alt(
    EPS,
    seq(WS, ",", WS, kw("only"), WS, ":", WS, opt(comma_list(ONLY_ITEM))),
    seq(WS, ",", WS, comma_list(seq(NAME, WS, "=>", WS, NAME))),
)
USE_STMT = seq(USE_HEAD, USE_TAIL)

# attribute (specification) statements
ACCESS_STMT_NAMED = seq(anyof_kw("public", "private", "protected"), alt(WS1, seq(WS, "::", WS)),
                        comma_list(alt(NAME, seq(kw("operator"), WS, "(", WS, INTRINSIC_OP, WS, ")"),
                                       seq(kw("assignment"), WS, "(", WS, "=", WS, ")"))))
ACCESS_STMT_NAMES_ONLY = seq(anyof_kw("public", "private", "protected"), alt(WS1, seq(WS, "::", WS)), NAME_LIST)
ATTR_STMT_SIMPLE = seq(
    anyof_kw("allocatable", "pointer", "target", "optional", "save", "value", "volatile", "asynchronous", "external"),
    alt(WS1, seq(WS, "::", WS)),
    comma_list(seq(NAME, opt(WS, "(", E0, ")"))),
)
DIMENSION_STMT = seq(kw("dimension"), alt(WS1, seq(WS, "::", WS)), comma_list(seq(NAME, WS, "(", E0, ")")))
INTENT_STMT = seq(INTENT, alt(WS, seq(WS, "::", WS)), NAME_LIST)
PARAMETER_STMT = seq(kw("parameter"), WS, "(", WS, comma_list(seq(NAME, WS, "=", WS, SEXPR)), WS, ")")

# ---------------------------------------------------------------------------
# executable statements (for "nothing undeclared" and call scanning)
# ---------------------------------------------------------------------------
DESIGNATOR = seq(NAME, opt(WS, "(", E1, ")"), star(WS, "%", WS, NAME, opt(WS, "(", E1, ")")))
RHS = alt(SEXPR, seq(SEXPR, WS, alt("+", "-", "*", "/", "**", "==", ".and."), WS, SEXPR), seq("[", E1, "]"),
          seq(DESIGNATOR))
ASSIGN_STMT = seq(DESIGNATOR, WS, alt("=", "=>"), WS, RHS)
CALL_STMT = seq(kw("call"), WS1, DESIGNATOR)
COND = seq("(", E1, ")")
IF_THEN = seq(opt(NAME, WS, ":", WS), kw("if"), WS, COND, WS, kw("then"))
IF_ACTION = seq(kw("if"), WS, COND, WS, alt(ASSIGN_STMT, CALL_STMT, kw("return"), kw("cycle"), kw("exit"),
                                             seq(alt(seq(kw("go"), WS, kw("to")), ), WS1, INT)))
ELSE_IF = seq(kw("else"), WS, kw("if"), WS, COND, WS, kw("then"))
DO_STMT = alt(
    seq(opt(NAME, WS, ":", WS), kw("do")),
    seq(opt(NAME, WS, ":", WS), kw("do"), WS1, opt(INT, WS1), NAME, WS, "=", WS, SEXPR, WS, ",", WS, SEXPR, opt(WS, ",", WS, SEXPR)),
    seq(opt(NAME, WS, ":", WS), kw("do"), WS1, kw("while"), WS, COND),
    seq(kw("do"), WS1, kw("concurrent"), WS, COND),
)
END_CONSTRUCT = seq(kw("end"), WS, anyof_kw("do", "if", "select", "where", "forall", "critical"), opt(WS1, NAME))
SELECT_STMT = seq(opt(NAME, WS, ":", WS), kw("select"), WS, alt(kw("case"), kw("type")), WS, COND)
CASE_STMT = alt(seq(kw("case"), WS, COND), seq(kw("case"), WS1, kw("default")))
TYPE_GUARD = alt(
    seq(kw("type"), WS1, kw("is"), WS, "(", WS, alt(NAME, INTRINSIC_TYPE), WS, ")"),
    seq(kw("class"), WS1, kw("is"), WS, "(", WS, NAME, WS, ")"),
    seq(kw("class"), WS1, kw("default")),
)
WHERE_STMT = alt(seq(kw("where"), WS, COND), seq(kw("where"), WS, COND, WS, ASSIGN_STMT), kw("elsewhere"),
                 seq(kw("else"), WS, kw("where")))
FORALL_STMT = alt(seq(kw("forall"), WS, COND), seq(kw("forall"), WS, COND, WS, ASSIGN_STMT))
IO_STMT = alt(
    seq(kw("print"), WS1, alt("*", STR, INT), star(WS, ",", WS, alt(SEXPR, DESIGNATOR))),
    seq(anyof_kw("write", "read"), WS, "(", E1, ")", opt(WS, comma_list(alt(SEXPR, DESIGNATOR)))),
    seq(anyof_kw("open", "close", "inquire", "rewind", "backspace", "flush"), WS, "(", E1, ")"),
)
ALLOC_STMT = seq(anyof_kw("allocate", "deallocate", "nullify"), WS, "(", E2, ")")
SIMPLE_EXEC = alt(
    anyof_kw("return", "continue", "cycle", "exit", "stop", "else"),
    seq(kw("stop"), WS1, alt(INT, STR)),
    seq(kw("error"), WS1, kw("stop"), opt(WS1, alt(INT, STR))),
    seq(alt(kw("goto"), seq(kw("go"), WS, kw("to"))), WS1, INT),
    seq(anyof_kw("cycle", "exit"), WS1, NAME),
    seq(kw("implicit"), WS1, kw("none")),
    seq(kw("import"), opt(alt(WS1, seq(WS, "::", WS)), NAME_LIST)),
)
ASSOCIATE_STMT = seq(opt(NAME, WS, ":", WS), kw("associate"), WS, "(", WS,
                     comma_list(seq(NAME, WS, "=>", WS, alt(DESIGNATOR, SEXPR))), WS, ")")
BLOCK_STMT = seq(opt(NAME, WS, ":", WS), kw("block"))
END_BLOCK = seq(kw("end"), WS, alt(kw("block"), kw("associate")), opt(WS1, NAME))
LABEL = seq(INT, WS1)
FORMAT_STMT = seq(INT, WS1, kw("format"), WS, "(", E2, ")")
ARITH_IF = seq(kw("if"), WS, COND, WS, INT, WS, ",", WS, INT, WS, ",", WS, INT)
COMPUTED_GOTO = seq(alt(kw("goto"), seq(kw("go"), WS, kw("to"))), WS, "(", WS, comma_list(INT), WS, ")", opt(WS, ","), WS, SEXPR)

EXEC_CLASSES = {
    "assignment": ASSIGN_STMT,
    "call": CALL_STMT,
    "if-then": IF_THEN,
    "if-action": IF_ACTION,
    "else-if": ELSE_IF,
    "do": DO_STMT,
    "end-construct": END_CONSTRUCT,
    "select": SELECT_STMT,
    "case": CASE_STMT,
    "type-guard": TYPE_GUARD,
    "where": WHERE_STMT,
    "forall": FORALL_STMT,
    "io": IO_STMT,
    "alloc": ALLOC_STMT,
    "simple": SIMPLE_EXEC,
    "labelled-assignment": seq(LABEL, ASSIGN_STMT),
    "labelled-continue": seq(LABEL, kw("continue")),
}
