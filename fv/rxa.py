"""RXA engine: exact CPython `re` backtracking semantics on a bounded symbolic string.

sre_parse AST -> Pike-style program (CHAR, SPLIT x y [ordered], JMP, SAVE n, AT, ASSERT, MATCH).
B(pc, pos) = result of CPython's depth-first search from that configuration
           = (ok, captures, end); memoised over concrete positions 0..N with symbolic chars.
Backtracking search has no memory besides (pc, pos) for the supported subset (no
back-references, no nullable unbounded loop bodies, no look-behind), so B is a DAG of size
O(|program| * N) and the priority semantics (leftmost, alternation order, greedy/lazy) are exact.

Characters are 8-bit bit-vectors, positions/lengths 16-bit bit-vectors.
"""
import re
import re._constants as sc
import re._parser as sp

import z3


class Unsupported(Exception):
    pass


CW, IW = 8, 16


def iv(n):
    return z3.BitVecVal(n, IW)


def cv(c):
    return z3.BitVecVal(ord(c) if isinstance(c, str) else c, CW)


NEG1 = iv(-1)


class Prog:
    def __init__(self, pat):
        self.pat = pat
        self.ins = []
        self.ic = bool(pat.flags & re.I)
        if pat.flags & (re.MULTILINE | re.DOTALL | re.LOCALE):
            raise Unsupported("MULTILINE/DOTALL/LOCALE")
        p = sp.parse(pat.pattern, pat.flags)
        self.ngroups = p.state.groups
        self.groupindex = dict(p.state.groupdict)
        self.state = p.state
        self.emit_seq(list(p), self.ic)
        self.ins.append(("MATCH",))

    def add(self, *i):
        self.ins.append(i)
        return len(self.ins) - 1

    def emit_seq(self, items, ic):
        for op, arg in self.expand_backrefs(list(items), ic):
            self.emit(op, arg, ic)

    # -- back-references to a group that matches exactly one character of a small set -------------------
    # `(['"])X\1` is rewritten to `(')X'|(")X"`: at a given position only one alternative can match its first
    # character, so CPython's search order is unchanged and the (pc, pos) memoisation stays exact.
    @staticmethod
    def _single_char_set(sub):
        if len(sub) != 1:
            return None
        op, arg = sub[0]
        if str(op) == "LITERAL":
            return [arg]
        if str(op) == "IN":
            out = []
            for o, a in arg:
                if str(o) == "LITERAL":
                    out.append(a)
                elif str(o) == "RANGE" and a[1] - a[0] < 8:
                    out += list(range(a[0], a[1] + 1))
                else:
                    return None
            return out if 0 < len(out) <= 8 else None
        return None

    def _has_ref(self, items, g):
        for op, arg in items:
            n = str(op)
            if n == "GROUPREF" and arg == g:
                return True
            if n == "SUBPATTERN" and self._has_ref(arg[3], g):
                return True
            if n in ("MAX_REPEAT", "MIN_REPEAT") and self._has_ref(arg[2], g):
                return True
            if n == "BRANCH" and any(self._has_ref(a, g) for a in arg[1]):
                return True
            if n in ("ASSERT", "ASSERT_NOT") and self._has_ref(arg[1], g):
                return True
        return False

    def _subst_ref(self, items, g, c):
        out = []
        for op, arg in items:
            n = str(op)
            if n == "GROUPREF" and arg == g:
                out.append((sc.LITERAL, c))
            elif n == "SUBPATTERN":
                out.append((op, (arg[0], arg[1], arg[2], sp.SubPattern(self.state, self._subst_ref(arg[3], g, c)))))
            elif n in ("MAX_REPEAT", "MIN_REPEAT"):
                out.append((op, (arg[0], arg[1], sp.SubPattern(self.state, self._subst_ref(arg[2], g, c)))))
            elif n == "BRANCH":
                out.append((op, (arg[0], [sp.SubPattern(self.state, self._subst_ref(a, g, c)) for a in arg[1]])))
            elif n in ("ASSERT", "ASSERT_NOT"):
                out.append((op, (arg[0], sp.SubPattern(self.state, self._subst_ref(arg[1], g, c)))))
            else:
                out.append((op, arg))
        return out

    def expand_backrefs(self, items, ic):
        for idx, (op, arg) in enumerate(items):
            if str(op) == "SUBPATTERN" and arg[0] is not None and self._has_ref(items[idx + 1:], arg[0]):
                chars = self._single_char_set(arg[3])
                if not chars or (ic and any(chr(c).isalpha() for c in chars)):
                    raise Unsupported("back-reference to a group that is not a single character of a small set")
                alts = []
                for c in chars:
                    head = (op, (arg[0], arg[1], arg[2], sp.SubPattern(self.state, [(sc.LITERAL, c)])))
                    alts.append(sp.SubPattern(self.state, [head] + self._subst_ref(items[idx + 1:], arg[0], c)))
                return items[:idx] + [(sc.BRANCH, (None, alts))]
        return items

    def emit(self, op, arg, ic):
        n = str(op)
        if n in ("LITERAL", "NOT_LITERAL", "ANY", "IN", "CATEGORY"):
            self.add("CHAR", (n, arg), ic)
            return
        if n == "SUBPATTERN":
            g, a, d, sub = arg
            ic2 = (ic or bool(a & re.I)) and not bool(d & re.I)
            if g is not None:
                self.add("SAVE", 2 * g)
            self.emit_seq(sub, ic2)
            if g is not None:
                self.add("SAVE", 2 * g + 1)
            return
        if n == "BRANCH":
            alts = arg[1]
            jmps = []
            for i, a in enumerate(alts):
                if i < len(alts) - 1:
                    s_ = self.add("SPLIT", None, None)
                    self.emit_seq(a, ic)
                    jmps.append(self.add("JMP", None))
                    self.ins[s_] = ("SPLIT", s_ + 1, len(self.ins))
                else:
                    self.emit_seq(a, ic)
            for j in jmps:
                self.ins[j] = ("JMP", len(self.ins))
            return
        if n in ("MAX_REPEAT", "MIN_REPEAT"):
            lo, hi, sub = arg
            greedy = n == "MAX_REPEAT"
            if hi == sc.MAXREPEAT and sub.getwidth()[0] == 0:
                raise Unsupported("nullable unbounded loop body")
            for _ in range(lo):
                self.emit_seq(sub, ic)
            if hi == sc.MAXREPEAT:
                L = self.add("SPLIT", None, None)
                self.emit_seq(sub, ic)
                self.add("JMP", L)
                self.ins[L] = ("SPLIT", L + 1, len(self.ins)) if greedy else ("SPLIT", len(self.ins), L + 1)
            else:
                if hi - lo > 64:
                    raise Unsupported("large bounded repeat")
                outs = []
                for _ in range(hi - lo):
                    L = self.add("SPLIT", None, None)
                    outs.append(L)
                    self.emit_seq(sub, ic)
                for L in outs:
                    self.ins[L] = ("SPLIT", L + 1, len(self.ins)) if greedy else ("SPLIT", len(self.ins), L + 1)
            return
        if n == "AT":
            self.add("AT", str(arg))
            return
        if n in ("ASSERT", "ASSERT_NOT"):
            d, sub = arg
            if d != 1:
                raise Unsupported("look-behind")
            a = self.add("ASSERT", n == "ASSERT_NOT", None)
            self.emit_seq(sub, ic)
            self.add("MATCH")
            self.ins[a] = ("ASSERT", n == "ASSERT_NOT", len(self.ins))
            return
        raise Unsupported(n)


def _is_word(c):
    return z3.Or(z3.And(z3.UGE(c, 97), z3.ULE(c, 122)), z3.And(z3.UGE(c, 65), z3.ULE(c, 90)),
                 z3.And(z3.UGE(c, 48), z3.ULE(c, 57)), c == 95)


def _is_space(c):
    return z3.Or(*[c == ord(x) for x in " \t\n\r\x0b\x0c"])


def _is_digit(c):
    return z3.And(z3.UGE(c, 48), z3.ULE(c, 57))


def char_cond(c, spec, ic):
    n, arg = spec

    def lit(o):
        ch_ = chr(o)
        if ic and ch_.isalpha() and o < 128:
            return z3.Or(c == ord(ch_.lower()), c == ord(ch_.upper()))
        return c == o

    def cat(a):
        k = str(a)
        base = {"DIGIT": _is_digit(c), "WORD": _is_word(c), "SPACE": _is_space(c)}[k.split("_")[-1]]
        return z3.Not(base) if "_NOT_" in k else base

    if n == "LITERAL":
        return lit(arg)
    if n == "NOT_LITERAL":
        return z3.Not(lit(arg))
    if n == "ANY":
        return c != 10
    if n == "CATEGORY":
        return cat(arg)
    if n == "IN":
        ng = False
        ps = []
        for o, a in arg:
            on = str(o)
            if on == "NEGATE":
                ng = True
            elif on == "LITERAL":
                ps.append(lit(a))
            elif on == "RANGE":
                lo, hi = a
                r = z3.And(z3.UGE(c, lo), z3.ULE(c, min(hi, 255)))
                if ic:
                    ex = [c == ord(chr(x).swapcase()) for x in range(lo, min(hi, 127) + 1) if chr(x).isalpha()]
                    if ex:
                        r = z3.Or(r, *ex)
                ps.append(r)
            elif on == "CATEGORY":
                ps.append(cat(a))
            else:
                raise Unsupported(on)
        u = z3.Or(*ps) if len(ps) > 1 else ps[0]
        return z3.Not(u) if ng else u
    raise Unsupported(n)


_PROGS = {}


def prog_for(pat):
    k = (pat.pattern, pat.flags)
    if k not in _PROGS:
        _PROGS[k] = Prog(pat)
    return _PROGS[k]


class Matcher:
    """chars: list of N BitVec(8) terms; length: BitVec(16) term or int (0 <= length <= N)"""

    def __init__(self, prog, chars, length):
        self.p = prog
        self.chars = chars
        self.N = len(chars)
        self.len = iv(length) if isinstance(length, int) else length
        self.memo = {}
        self.G = 2 * prog.ngroups  # slots 0,1 = whole match (unused here), 2.. = groups

    def FAIL(self):
        return (z3.BoolVal(False), [NEG1] * self.G, NEG1)

    def B(self, pc, pos):
        key = (pc, pos)
        r = self.memo.get(key)
        if r is not None:
            return r
        i = self.p.ins[pc]
        op = i[0]
        if op == "MATCH":
            r = (z3.BoolVal(True), [NEG1] * self.G, iv(pos))
        elif op == "CHAR":
            if pos >= self.N:
                r = self.FAIL()
            else:
                ok, caps, end = self.B(pc + 1, pos + 1)
                c = z3.And(z3.ULT(iv(pos), self.len), char_cond(self.chars[pos], i[1], i[2]), ok)
                r = (z3.simplify(c), caps, end)
        elif op == "JMP":
            r = self.B(i[1], pos)
        elif op == "SPLIT":
            a = self.B(i[1], pos)
            b = self.B(i[2], pos)
            if z3.is_false(a[0]):
                r = b
            elif z3.is_true(a[0]):
                r = a
            else:
                r = (z3.Or(a[0], b[0]), [_ite(a[0], x, y) for x, y in zip(a[1], b[1])], _ite(a[0], a[2], b[2]))
        elif op == "SAVE":
            ok, caps, end = self.B(pc + 1, pos)
            caps = list(caps)
            cur = caps[i[1]]
            caps[i[1]] = iv(pos) if cur is NEG1 else _ite(cur == NEG1, iv(pos), cur)
            r = (ok, caps, end)
        elif op == "AT":
            ok, caps, end = self.B(pc + 1, pos)
            k = i[1]
            if k in ("AT_BEGINNING", "AT_BEGINNING_STRING"):
                c = z3.BoolVal(pos == 0)
            elif k == "AT_END":
                c = self.len == pos
                if pos < self.N:
                    c = z3.Or(c, z3.And(self.len == pos + 1, self.chars[pos] == 10))
            elif k == "AT_END_STRING":
                c = self.len == pos
            elif k in ("AT_BOUNDARY", "AT_NON_BOUNDARY"):
                before = _is_word(self.chars[pos - 1]) if pos > 0 else z3.BoolVal(False)
                after = z3.And(z3.ULT(iv(pos), self.len), _is_word(self.chars[pos])) if pos < self.N else z3.BoolVal(False)
                c = z3.Xor(before, after)
                if k == "AT_NON_BOUNDARY":
                    c = z3.Not(c)
            else:
                raise Unsupported(k)
            r = (z3.simplify(z3.And(c, ok)), caps, end)
        elif op == "ASSERT":
            sub = self.B(pc + 1, pos)
            ok, caps, end = self.B(i[2], pos)
            r = (z3.simplify(z3.And(z3.Not(sub[0]) if i[1] else sub[0], ok)), caps, end)
        else:
            raise Unsupported(op)
        self.memo[key] = r
        return r

    def match_at(self, pos):
        """(ok, caps(list of 2*ngroups terms; [0],[1] whole-match span), end)"""
        ok, caps, end = self.B(0, pos)
        caps = list(caps)
        caps[0] = iv(pos)
        caps[1] = end
        return ok, caps, end

    def match(self):
        return self.match_at(0)

    def fullmatch(self):
        # CPython's fullmatch backtracks until the match ends at the end of the string:
        # exact only when the first successful path already does, or when the pattern is
        # unambiguous; we encode it as "match with `\Z` appended"
        raise Unsupported("fullmatch: compile pattern + r'\\Z' instead")

    def search(self, start=0):
        """leftmost match at or after `start` (python int or 16-bit term)"""
        st = iv(start) if isinstance(start, int) else start
        res = self.FAIL()
        for pos in reversed(range(self.N + 1)):
            ok, caps, end = self.match_at(pos)
            here = z3.And(z3.ULE(st, iv(pos)), z3.ULE(iv(pos), self.len), ok)
            res = (z3.Or(here, res[0]), [_ite(here, x, y) for x, y in zip(caps, res[1])], _ite(here, end, res[2]))
        return res


def _ite(c, a, b):
    if a is b:
        return a
    if z3.is_true(c):
        return a
    if z3.is_false(c):
        return b
    return z3.If(c, a, b)
