"""Harness helpers for symbolic execution of the real FortranReader."""
import os
import tempfile

import z3

from fv import sym, patch, sxm, oracles as O
from fv.sym import SymStr, iv


def mk_reader(lines, **kw):
    """a real FortranReader (its own __init__ runs) whose physical lines are `lines`"""
    import ford.reader as rd

    fd, p = tempfile.mkstemp(suffix=".f90")
    os.close(fd)
    try:
        r = rd.FortranReader(p, **kw)
    finally:
        os.remove(p)
    r.reader.close()
    r.reader = iter(lines)
    return r


def reader_patches():
    """scanners called by the reader are summarised by their merged SXM encoding (generated
    from their current source) so that they do not fork per character"""
    import ford.reader as rd
    import ford.utils as fu

    return {
        (rd, "_contains_unterminated_string"): sxm.summarize_bool(rd._contains_unterminated_string),
        (fu, "quote_split"): sxm.summarize_split(fu.quote_split),
    }


def canon(s: SymStr):
    """token-level normal form: every run of blanks outside character literals becomes one blank,
    leading and trailing ones are dropped; literal text is kept verbatim"""
    st = O.lex_states(s)
    ch = s.chars
    ub = [z3.And(iv(i) < s.len, st[i] == O.OUT, z3.Or(ch[i] == 32, ch[i] == 9)) for i in range(s.cap)]
    # only blanks from i to the end?
    tail = [None] * (s.cap + 1)
    tail[s.cap] = z3.BoolVal(True)
    for i in reversed(range(s.cap)):
        tail[i] = z3.And(z3.Or(iv(i) >= s.len, ub[i]), tail[i + 1])
    items = []
    for i in range(s.cap):
        drop = z3.And(ub[i], z3.Or(z3.BoolVal(i == 0), ub[i - 1] if i > 0 else z3.BoolVal(True), tail[i]))
        items.append((z3.And(iv(i) < s.len, z3.Not(drop)), z3.If(ub[i], sym.cv(" "), ch[i])))
    return sxm.compact_chars(items)


def py_canon(text):
    import re as _re
    outside = set(O.py_outside_positions(text))
    marked = "".join(("\x00" if (i in outside and c in " \t") else c) for i, c in enumerate(text))
    return _re.sub("\x00+", " ", marked.strip("\x00"))


def strip_comment(line: SymStr, start_state=None):
    """(code part of the line before the first `!` outside literals, index term or -1)"""
    st = O.lex_states(line, start_state)
    fb = O.first_unquoted(line, st, "!")
    code = line.slice_t(iv(0), z3.If(fb >= 0, fb, line.len))
    return code, fb, st


def last_char(s: SymStr):
    return s.at(s.len - 1)


def all_outputs(r, first):
    """[first] + what the reader queued"""
    return [first] + list(r.pending)


def drain(r, limit=8):
    out = []
    try:
        for _ in range(limit):
            out.append(next(r))
    except StopIteration:
        pass
    return out
