"""Differential validation of RXA against CPython's re (rule 7a)."""
import random
import re

import z3

from fv import rxa


def concrete_eval(pat, s, mode, N=None):
    N = N if N is not None else len(s)
    chars = [rxa.cv(s[i]) if i < len(s) else rxa.cv(0) for i in range(N)]
    m = rxa.Matcher(rxa.prog_for(pat), chars, len(s))
    ok, caps, end = m.match() if mode == "match" else m.search()
    ok = z3.simplify(ok)
    if not z3.is_true(ok):
        assert z3.is_false(ok), ok
        return None
    out = []
    for c in caps:
        v = z3.simplify(c)
        out.append(v.as_signed_long())
    return out


def reference(pat, s, mode):
    m = pat.match(s) if mode == "match" else pat.search(s)
    if not m:
        return None
    out = []
    for g in range(pat.groups + 1):
        out += [m.start(g), m.end(g)]
    return out


def alphabet_for(pat):
    lits = set(c for c in pat.pattern if c.isalnum())
    base = set(" \t(),:=>'\"!&;/*%.+-_09azAZ")
    keep = list(base | set(list(lits)[:14]))
    return keep


def sample_strings(pat, rng, n, maxlen=14):
    al = alphabet_for(pat)
    words = re.findall(r"[A-Za-z_]{3,}", pat.pattern)
    out = []
    for _ in range(n):
        parts = []
        L = rng.randint(0, maxlen)
        while sum(map(len, parts)) < L:
            if words and rng.random() < 0.35:
                w = rng.choice(words)
                if rng.random() < 0.3:
                    w = w.upper()
                parts.append(w)
            else:
                parts.append(rng.choice(al))
        out.append("".join(parts)[: maxlen + 6])
    return out


def validate(pat, seed=0, n=300, modes=("match", "search"), extra=()):
    rng = random.Random(seed)
    bad = []
    strs = list(extra) + sample_strings(pat, rng, n)
    for s in strs:
        if any(ord(c) > 126 for c in s):
            continue
        for mode in modes:
            a = concrete_eval(pat, s, mode)
            b = reference(pat, s, mode)
            if a != b:
                bad.append((s, mode, a, b))
    return len(strs) * len(modes), bad
