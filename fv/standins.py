"""Stand-in objects for symbolic execution of real FORD methods."""
import z3

from fv import sym
from fv.sym import SymStr, SymBool, iv, cv, engine


class Rec:
    """plain record"""

    def __init__(self, **kw):
        self.__dict__.update(kw)


class SymTruthy:
    """a container stand-in of which the code only asks the truth value (e.g. doc_list)"""

    def __init__(self, term):
        self.t = term

    def __bool__(self):
        return engine().decide(self.t)

    def __len__(self):
        raise sym.Unsupported("len(SymTruthy)")


def enum_str(E, name, options):
    """string that is exactly one of `options`, selected by a fresh symbolic index"""
    k = z3.BitVec(name, 8)
    E.e.base.append(z3.ULT(k, len(options)))
    E._flush()
    return sym.ChoiceStr(k, options)


def enum_value(model, s):
    k = model.eval(s.enum_index, model_completion=True).as_long()
    return s.enum_options[k] if k < len(s.enum_options) else s.enum_options[0]


def is_word(s, w):
    """term: enum string s equals option w"""
    return s.enum_index == s.enum_options.index(w)


class SymSubset:
    """list stand-in with symbolic membership of a fixed universe of words (e.g. `display`)"""

    def __init__(self, E, name, universe):
        self.universe = list(universe)
        self.member = {w: z3.Bool(f"{name}_{w}") for w in universe}

    def __contains__(self, x):
        if isinstance(x, str):
            return engine().decide(self.member[x]) if x in self.member else False
        if isinstance(x, SymStr):
            return engine().decide(z3.Or(*[z3.And(x.eq_t(w), m) for w, m in self.member.items()]))
        return False

    def contains_t(self, x):
        return z3.Or(*[z3.And(SymStr.lift(x).eq_t(w), m) for w, m in self.member.items()])

    def value(self, model):
        return [w for w, m in self.member.items() if z3.is_true(model.eval(m, model_completion=True))]


class SymDict:
    """dict stand-in with symbolic string keys (association list; key comparison is a solver
    decision).  Plain empty dicts stored as values are converted to SymDict."""

    def __init__(self):
        self.items_ = []  # [key, value]

    def _find(self, k):
        for kv in self.items_:
            kk = kv[0]
            same = (kk == k)
            if same is True or (same is not False and bool(same)):
                return kv
        return None

    def __contains__(self, k):
        return self._find(k) is not None

    def __getitem__(self, k):
        kv = self._find(k)
        if kv is None:
            raise KeyError(k)
        return kv[1]

    def __setitem__(self, k, v):
        if isinstance(v, dict) and not v:
            v = SymDict()
        kv = self._find(k)
        if kv is None:
            self.items_.append([k, v])
        else:
            kv[1] = v

    def get(self, k, default=None):
        kv = self._find(k)
        return default if kv is None else kv[1]

    def setdefault(self, k, default=None):
        kv = self._find(k)
        if kv is None:
            self[k] = default
            kv = self._find(k)
        return kv[1]

    def pop(self, k, *default):
        kv = self._find(k)
        if kv is None:
            if default:
                return default[0]
            raise KeyError(k)
        self.items_.remove(kv)
        return kv[1]

    def keys(self):
        return [k for k, _ in self.items_]

    def values(self):
        return [v for _, v in self.items_]

    def items(self):
        return [(k, v) for k, v in self.items_]

    def __iter__(self):
        return iter(self.keys())

    def __len__(self):
        return len(self.items_)
