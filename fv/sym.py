"""SX engine, part 1: symbolic values and the path-exploring executor (dynamic symbolic execution).

The REAL functions of /repo are executed natively; their inputs are proxy objects
(SymBool / SymInt / SymStr / SymMatch) whose operations build z3 terms.  Python asks a proxy
for a concrete bool at every branch; the engine then consults the solver for the feasibility
of both outcomes and explores them by re-execution with a recorded decision prefix.  String
operations and regex calls are *merged* (ite terms) so that only real control-flow branches
fork.  Characters: BitVec(8); integers (positions, lengths, counters): BitVec(16), signed.
"""
import re as _re
import time

import z3

from fv import rxa
from fv.core import Inconclusive

IW, CW = rxa.IW, rxa.CW
iv, cv = rxa.iv, rxa.cv


class PathAbort(BaseException):
    """raised to abandon the current path (infeasible / budget)"""


class Unsupported(Exception):
    pass


_ENGINE = None


def engine():
    if _ENGINE is None:
        raise RuntimeError("no active symbolic engine")
    return _ENGINE


def _ite(c, a, b):
    return rxa._ite(c, a, b)


def term(x):
    """python int / SymInt -> 16-bit term"""
    if isinstance(x, SymInt):
        return x.t
    if isinstance(x, bool):
        return iv(int(x))
    if isinstance(x, int):
        return iv(x)
    if z3.is_bv(x):
        return x
    raise TypeError(f"not an int-like: {x!r}")


def bterm(x):
    if isinstance(x, SymBool):
        return x.t
    if hasattr(x, "bool_term"):
        return x.bool_term()
    if isinstance(x, bool):
        return z3.BoolVal(x)
    if z3.is_bool(x):
        return x
    raise TypeError(f"not a bool-like: {x!r}")


# --------------------------------------------------------------------------------------
class SymBool:
    def __init__(self, t):
        self.t = z3.simplify(t) if not isinstance(t, bool) else z3.BoolVal(t)

    def __bool__(self):
        return engine().decide(self.t)

    def __and__(self, o):
        return SymBool(z3.And(self.t, bterm(o)))

    __rand__ = __and__

    def __or__(self, o):
        return SymBool(z3.Or(self.t, bterm(o)))

    __ror__ = __or__

    def __invert__(self):
        return SymBool(z3.Not(self.t))

    def __eq__(self, o):
        if isinstance(o, (SymBool, bool)):
            return SymBool(self.t == bterm(o))
        return NotImplemented

    def __ne__(self, o):
        if isinstance(o, (SymBool, bool)):
            return SymBool(self.t != bterm(o))
        return NotImplemented

    __hash__ = None

    def __repr__(self):
        return f"SymBool({self.t})"


def mk_bool(t):
    """collapse to a python bool when the term is constant"""
    t = z3.simplify(t)
    if z3.is_true(t):
        return True
    if z3.is_false(t):
        return False
    return SymBool(t)


class SymInt:
    def __init__(self, t):
        self.t = z3.simplify(t)

    def _bin(self, o, f):
        if isinstance(o, (int, SymInt)) and not isinstance(o, bool) or isinstance(o, bool):
            return mk_int(f(self.t, term(o)))
        return NotImplemented

    def __add__(self, o):
        return self._bin(o, lambda a, b: a + b)

    __radd__ = __add__

    def __sub__(self, o):
        return self._bin(o, lambda a, b: a - b)

    def __rsub__(self, o):
        return self._bin(o, lambda a, b: b - a)

    def __mul__(self, o):
        return self._bin(o, lambda a, b: a * b)

    __rmul__ = __mul__

    def __floordiv__(self, o):
        if isinstance(o, int) and o > 0:
            # python floor division; operands here are non-negative positions
            return mk_int(z3.UDiv(self.t, iv(o)))
        return NotImplemented

    def __neg__(self):
        return mk_int(-self.t)

    def _cmp(self, o, f):
        if isinstance(o, (int, SymInt)):
            return mk_bool(f(self.t, term(o)))
        return NotImplemented

    def __lt__(self, o):
        return self._cmp(o, lambda a, b: a < b)

    def __le__(self, o):
        return self._cmp(o, lambda a, b: a <= b)

    def __gt__(self, o):
        return self._cmp(o, lambda a, b: a > b)

    def __ge__(self, o):
        return self._cmp(o, lambda a, b: a >= b)

    def __eq__(self, o):
        if isinstance(o, (int, SymInt)):
            return mk_bool(self.t == term(o))
        return False

    def __ne__(self, o):
        if isinstance(o, (int, SymInt)):
            return mk_bool(self.t != term(o))
        return True

    def __bool__(self):
        return engine().decide(self.t != iv(0))

    def __index__(self):
        return engine().concretize(self.t)

    __int__ = __index__

    def __hash__(self):
        return hash(self.__index__())

    def __repr__(self):
        return f"SymInt({self.t})"


def mk_int(t):
    t = z3.simplify(t)
    if z3.is_bv_value(t):
        return t.as_signed_long()
    return SymInt(t)


# --------------------------------------------------------------------------------------
WS_CHARS = " \t\n\r\x0b\x0c"


def _is_ws(c):
    return z3.Or(*[c == ord(x) for x in WS_CHARS])


OPAQUE = "\x00SYM\x00"

_VARSETS = {}  # id of a char variable term -> frozenset of byte values it may take (from the alphabet)
_POSS = {}


def possible(t):
    """over-approximation of the values char term t can take (None = unknown)"""
    if z3.is_bv_value(t):
        return frozenset([t.as_long()])
    k = t.get_id()
    r = _POSS.get(k, 0)
    if r != 0:
        return r
    r = _VARSETS.get(k)
    if r is None and z3.is_app(t):
        kind = t.decl().kind()
        if kind == z3.Z3_OP_ITE:
            a, b = possible(t.arg(1)), possible(t.arg(2))
            r = None if a is None or b is None else a | b
        elif kind in (z3.Z3_OP_BADD, z3.Z3_OP_BSUB) and t.num_args() == 2:
            x, y = t.arg(0), t.arg(1)
            if z3.is_bv_value(y) and possible(x) is not None:
                d = y.as_long() if kind == z3.Z3_OP_BADD else -y.as_long()
                r = frozenset((v + d) % 256 for v in possible(x))
            elif z3.is_bv_value(x) and kind == z3.Z3_OP_BADD and possible(y) is not None:
                r = frozenset((v + x.as_long()) % 256 for v in possible(y))
    _POSS[k] = r
    return r


class SymStr:
    """bounded symbolic string: `chars` (list of BitVec8 terms, capacity) + `len` (16-bit term)"""

    def __init__(self, chars, length, off=None):
        base = chars if isinstance(chars, list) else list(chars)
        if off is not None:
            off = z3.simplify(off)
            if z3.is_bv_value(off):
                k = off.as_signed_long()
                base = base[k:] if k > 0 else base
                off = None
        self.base = base
        self.off = off  # None = 0; else a 16-bit term (a *view* into base: no char terms are built)
        self.cap = len(base)
        self.len = iv(length) if isinstance(length, int) else z3.simplify(length)
        self.lmin = self.len.as_signed_long() if z3.is_bv_value(self.len) else 0  # known lower bound of len
        self._memo = {}
        self._at = {}

    @property
    def chars(self):
        """materialised character terms chars[j] = self[j] (cached)"""
        if self.off is None:
            return self.base
        c = self._memo.get("chars")
        if c is None:
            c = [self.at(iv(j)) for j in range(self.cap)]
            self._memo["chars"] = c
        return c

    # -- construction helpers
    @staticmethod
    def const(s):
        return SymStr([cv(c) for c in s], len(s))

    @staticmethod
    def lift(x):
        if isinstance(x, SymStr):
            return x
        if isinstance(x, str):
            return SymStr.const(x)
        raise TypeError(f"cannot lift {type(x).__name__} to SymStr")

    def concrete_len(self):
        return self.len.as_signed_long() if z3.is_bv_value(self.len) else None

    def is_concrete(self):
        n = self.concrete_len()
        return n is not None and self.off is None and all(z3.is_bv_value(c) for c in self.base[:n])

    def to_py(self):
        n = self.concrete_len()
        return "".join(chr(c.as_long()) for c in self.base[:n])

    # -- element access
    def at(self, idx):
        """char term at 16-bit term idx (value unspecified when out of range)"""
        if self.off is not None:
            idx = self.off + idx
        idx = z3.simplify(idx)
        if z3.is_bv_value(idx):
            k = idx.as_signed_long()
            return self.base[k] if 0 <= k < self.cap else cv(0)
        key = idx.get_id()
        e = self._at.get(key)
        if e is None:
            e = cv(0)
            for i in reversed(range(self.cap)):
                e = z3.If(idx == i, self.base[i], e)
            self._at[key] = e
        return e

    def _norm_index(self, i):
        """python index (possibly negative / symbolic) -> 16-bit term, no clamping"""
        if isinstance(i, int) and i < 0:
            return z3.simplify(self.len + i)
        t = term(i)
        return z3.simplify(z3.If(t < 0, self.len + t, t))

    def _clamp(self, t):
        return z3.simplify(z3.If(t < 0, iv(0), z3.If(t > self.len, self.len, t)))

    def __len__(self):
        raise Unsupported("len(SymStr) needs the patched builtin `len`")

    def length(self):
        return mk_int(self.len)

    def __getitem__(self, k):
        if isinstance(k, slice):
            if k.step not in (None, 1):
                raise Unsupported("slice step")
            lo = iv(0) if k.start is None else self._clamp(self._norm_index(k.start))
            hi = self.len if k.stop is None else self._clamp(self._norm_index(k.stop))
            return self.slice_t(lo, hi)
        idx = self._norm_index(k)
        inb = z3.And(idx >= 0, idx < self.len)
        if not engine().decide(inb):
            raise IndexError("string index out of range")
        return SymStr([self.at(idx)], 1)

    def slice_t(self, lo, hi):
        """[lo:hi] with already clamped 16-bit terms: a view, no new character terms"""
        lo, hi = z3.simplify(lo), z3.simplify(hi)
        n = z3.simplify(z3.If(hi > lo, hi - lo, iv(0)))
        if self.off is None and z3.is_bv_value(lo):
            l0 = lo.as_signed_long()
            base = self.base[l0:]
            if z3.is_bv_value(hi):
                base = base[: max(0, hi.as_signed_long() - l0)]
            return SymStr(base, n)
        return SymStr(self.base, n, off=(lo if self.off is None else self.off + lo))

    def __iter__(self):
        n = engine().concretize(self.len)
        for i in range(n):
            yield SymStr([self.chars[i]], 1)

    # -- comparison
    def eq_t(self, o):
        o = SymStr.lift(o)
        conds = [self.len == o.len]
        for i in range(min(self.cap, o.cap)):
            conds.append(z3.Or(iv(i) >= self.len, self.chars[i] == o.chars[i]))
        big, small = (self, o) if self.cap > o.cap else (o, self)
        conds.append(big.len <= small.cap)
        return z3.simplify(z3.And(*conds))

    def __eq__(self, o):
        if isinstance(o, (str, SymStr)):
            return mk_bool(self.eq_t(o))
        return False

    def __ne__(self, o):
        if isinstance(o, (str, SymStr)):
            return mk_bool(z3.Not(self.eq_t(o)))
        return True

    def __hash__(self):
        return hash(engine().concretize_str(self))

    def __bool__(self):
        return engine().decide(self.len != 0)

    # -- concatenation
    def __add__(self, o):
        if not isinstance(o, (str, SymStr)):
            return NotImplemented
        o = SymStr.lift(o)
        if o.cap == 0:
            return self
        if self.cap == 0:
            return o
        n1 = self.concrete_len()
        if n1 is not None:
            r = SymStr(self.chars[:n1] + o.chars, n1 + o.len)
            r.lmin = max(r.lmin, n1 + o.lmin)
            return r
        chars = []
        for j in range(self.cap + o.cap):
            a = self.chars[j] if j < self.cap else cv(0)
            chars.append(_ite(iv(j) < self.len, a, o.at(iv(j) - self.len)))
        r = SymStr(chars, self.len + o.len)
        r.lmin = max(r.lmin, self.lmin + o.lmin)
        return r

    def __radd__(self, o):
        if isinstance(o, str):
            return SymStr.const(o) + self
        return NotImplemented

    def __mul__(self, k):
        if isinstance(k, int):
            r = SymStr.const("")
            for _ in range(k):
                r = r + self
            return r
        return NotImplemented

    # -- whitespace
    def _lead(self, pred):
        """number of leading chars satisfying pred (16-bit term)"""
        n = self.len
        for i in reversed(range(self.cap)):
            n = z3.If(z3.And(iv(i) < self.len, z3.Not(pred(self.chars[i]))), iv(i), n)
        return z3.simplify(n)

    def _trail_end(self, pred, lo):
        """end index after removing trailing chars satisfying pred (not going below lo)"""
        e = lo
        for i in range(self.cap):
            e = z3.If(z3.And(iv(i) < self.len, iv(i) >= lo, z3.Not(pred(self.chars[i]))), iv(i + 1), e)
        return z3.simplify(e)

    @staticmethod
    def _pred(chars):
        if chars is None:
            return _is_ws
        if isinstance(chars, SymStr):
            chars = engine().concretize_str(chars)
        return lambda c: z3.Or(*[c == ord(x) for x in chars]) if chars else z3.BoolVal(False)

    def _memoised(self, key, f):
        r = self._memo.get(key)
        if r is None:
            r = self._memo[key] = f()
        return r

    def strip(self, chars=None):
        def f():
            p = self._pred(chars)
            lo = self._lead(p)
            return self.slice_t(lo, self._trail_end(p, lo))
        return self._memoised(("strip", chars if not isinstance(chars, SymStr) else id(chars)), f)

    def lstrip(self, chars=None):
        return self._memoised(("lstrip", chars if not isinstance(chars, SymStr) else id(chars)),
                              lambda: self.slice_t(self._lead(self._pred(chars)), self.len))

    def rstrip(self, chars=None):
        return self._memoised(("rstrip", chars if not isinstance(chars, SymStr) else id(chars)),
                              lambda: self.slice_t(iv(0), self._trail_end(self._pred(chars), iv(0))))

    # -- case
    def lower(self):
        return self._memoised("lower", lambda: SymStr(
            [z3.If(z3.And(z3.UGE(c, 65), z3.ULE(c, 90)), c + 32, c) for c in self.base], self.len, off=self.off))

    def upper(self):
        return self._memoised("upper", lambda: SymStr(
            [z3.If(z3.And(z3.UGE(c, 97), z3.ULE(c, 122)), c - 32, c) for c in self.base], self.len, off=self.off))

    def capitalize(self):
        lo = self.lower()
        if self.cap:
            lo.chars[0] = SymStr([self.chars[0]], 1).upper().chars[0]
        return lo

    def _all(self, pred, nonempty=True):
        conds = [z3.Or(iv(i) >= self.len, pred(self.chars[i])) for i in range(self.cap)]
        if nonempty:
            conds.append(self.len > 0)
        return mk_bool(z3.And(*conds))

    def isspace(self):
        return self._all(_is_ws)

    def isdigit(self):
        return self._all(rxa._is_digit)

    def isalpha(self):
        return self._all(lambda c: z3.Or(z3.And(z3.UGE(c, 97), z3.ULE(c, 122)), z3.And(z3.UGE(c, 65), z3.ULE(c, 90))))

    def isalnum(self):
        return self._all(lambda c: z3.And(rxa._is_word(c), c != 95))

    # -- searching
    def _match_at_t(self, sub, pos):
        """term: sub occurs at concrete position pos"""
        conds = [iv(pos) + sub.len <= self.len]
        for j in range(sub.cap):
            if pos + j < self.cap:
                conds.append(z3.Or(iv(j) >= sub.len, self.chars[pos + j] == sub.chars[j]))
            else:
                conds.append(iv(j) >= sub.len)
        return z3.And(*conds)

    def find_t(self, sub, start=0):
        sub = SymStr.lift(sub)
        st = term(start)
        r = iv(-1)
        for pos in reversed(range(self.cap + 1)):
            r = z3.If(z3.And(iv(pos) >= st, self._match_at_t(sub, pos)), iv(pos), r)
        return z3.simplify(r)

    def find(self, sub, start=0):
        return mk_int(self.find_t(sub, start))

    def rfind(self, sub):
        sub = SymStr.lift(sub)
        r = iv(-1)
        for pos in range(self.cap + 1):
            r = z3.If(self._match_at_t(sub, pos), iv(pos), r)
        return mk_int(r)

    def index(self, sub, start=0):
        r = self.find_t(sub, start)
        if engine().decide(r == iv(-1)):
            raise ValueError("substring not found")
        return mk_int(r)

    def __contains__(self, sub):
        if not isinstance(sub, (str, SymStr)):
            raise TypeError("'in <string>' requires string as left operand")
        return engine().decide(self.find_t(sub) != iv(-1))

    def contains(self, sub):
        return mk_bool(self.find_t(sub) != iv(-1))

    def count(self, sub):
        sub = SymStr.lift(sub)
        n = sub.concrete_len()
        if n != 1:
            raise Unsupported("count of multi-char substring")
        t = iv(0)
        for i in range(self.cap):
            t = t + z3.If(z3.And(iv(i) < self.len, self.chars[i] == sub.chars[0]), iv(1), iv(0))
        return mk_int(t)

    def startswith(self, p):
        if isinstance(p, tuple):
            return mk_bool(z3.Or(*[bterm(self.startswith(x)) for x in p]))
        return mk_bool(self._match_at_t(SymStr.lift(p), 0))

    def endswith(self, p):
        if isinstance(p, tuple):
            return mk_bool(z3.Or(*[bterm(self.endswith(x)) for x in p]))
        p = SymStr.lift(p)
        n = p.concrete_len()
        if n is None:
            raise Unsupported("endswith symbolic-length suffix")
        conds = [self.len >= n]
        for j in range(n):
            conds.append(self.at(self.len - n + j) == p.chars[j])
        return mk_bool(z3.And(*conds))

    def replace(self, old, new, count=-1):
        old, new = SymStr.lift(old), SymStr.lift(new)
        if old.is_concrete() and new.is_concrete() and len(old.to_py()) == 1 and len(new.to_py()) == 1 and count == -1:
            o, n = old.chars[0], new.chars[0]
            return SymStr([z3.If(c == o, n, c) for c in self.chars], self.len)
        if old.is_concrete() and new.is_concrete() and len(old.to_py()) == 1 and count == -1:
            # single character -> constant text, merged (no fork): guarded emission + compaction
            from fv import sxm
            o, rep = old.chars[0], new.to_py()
            blocks = []
            ch = self.chars
            n0 = self.concrete_len()
            for i in range(self.cap):
                inr = (i < n0) if n0 is not None else (True if i < self.lmin else iv(i) < self.len)
                if inr is False:
                    continue
                ps = possible(ch[i])
                if z3.is_bv_value(ch[i]) or (ps is not None and o.as_long() not in ps):
                    eq = z3.is_bv_value(ch[i]) and ch[i].as_long() == o.as_long()
                    blocks.append([(inr, [cv(r) for r in rep] if eq else [ch[i]])])
                else:
                    eq = ch[i] == o
                    hit = eq if inr is True else z3.And(inr, eq)
                    miss = z3.Not(eq) if inr is True else z3.And(inr, z3.Not(eq))
                    alts = [(hit, [cv(r) for r in rep]), (miss, [ch[i]])]
                    blocks.append((alts, inr is True))
            return sxm.compact_blocks(blocks)
        # general: occurrences located one by one (forks on the number of occurrences)
        out = SymStr.const("")
        rest = self
        k = 0
        while count < 0 or k < count:
            pos = rest.find_t(old)
            if old.concrete_len() == 0:
                raise Unsupported("replace empty pattern")
            if engine().decide(pos == iv(-1)):
                break
            out = out + rest.slice_t(iv(0), pos) + new
            rest = rest.slice_t(pos + old.len, rest.len)
            k += 1
        return out + rest

    def split(self, sep=None, maxsplit=-1):
        if sep is None:
            return self._split_ws()
        sep = SymStr.lift(sep)
        if sep.concrete_len() is None or sep.concrete_len() == 0:
            raise Unsupported("split with symbolic/empty separator")
        out = []
        rest = self
        while maxsplit < 0 or len(out) < maxsplit:
            pos = rest.find_t(sep)
            if engine().decide(pos == iv(-1)):
                break
            out.append(rest.slice_t(iv(0), pos))
            rest = rest.slice_t(pos + sep.len, rest.len)
        out.append(rest)
        return out

    def _split_ws(self):
        out = []
        rest = self.lstrip()
        while engine().decide(rest.len != 0):
            n = rest._lead(lambda c: z3.Not(_is_ws(c)))
            out.append(rest.slice_t(iv(0), n))
            rest = rest.slice_t(n, rest.len).lstrip()
        return out

    def join(self, items):
        items = list(items)
        r = SymStr.const("")
        for i, x in enumerate(items):
            if i:
                r = r + self
            r = r + x
        return r

    def ljust(self, width, fill=" "):
        w = term(width)
        pad = z3.simplify(z3.If(w > self.len, w - self.len, iv(0)))
        maxpad = engine().upper_bound(pad)
        return self + SymStr([cv(fill)] * maxpad, pad)

    def __format__(self, spec):
        # formatting is (in the code under analysis) message building: an opaque marker is
        # returned instead of forking over every concrete text; harnesses reject results that
        # contain the marker, so it can never flow into a checked value unnoticed
        return OPAQUE

    def __str__(self):
        return OPAQUE

    def __repr__(self):
        if self.is_concrete():
            return f"SymStr({self.to_py()!r})"
        return f"SymStr(cap={self.cap}, len={self.len})"

    def __lt__(self, o):
        raise Unsupported("string ordering")


class ChoiceStr(SymStr):
    """finite-choice string: the value is options[k] for a symbolic index k.  Operations with
    concrete arguments are computed per option with Python's own str methods and give another
    ChoiceStr over the same index, so no character-level terms are needed."""

    def __init__(self, index, options):
        self.index = index
        self.options = [str(o) for o in options]
        cap = max([len(o) for o in self.options] + [0])
        chars = []
        for i in range(cap):
            e = cv(0)
            for j in reversed(range(len(self.options))):
                if i < len(self.options[j]):
                    e = z3.If(index == j, cv(self.options[j][i]), e)
            chars.append(e)
        ln = iv(0)
        for j in reversed(range(len(self.options))):
            ln = z3.If(index == j, iv(len(self.options[j])), ln)
        SymStr.__init__(self, chars, ln)
        self.lmin = min([len(o) for o in self.options] + [0]) if self.options else 0
        # compatibility with standins.enum_value
        self.enum_index, self.enum_options = index, self.options

    def _map(self, f):
        return ChoiceStr(self.index, [f(o) for o in self.options])

    def _cond(self, pred):
        hits = [self.index == j for j, o in enumerate(self.options) if pred(o)]
        if len(hits) == len(self.options):
            return z3.BoolVal(True)
        return z3.Or(*hits) if hits else z3.BoolVal(False)

    def lower(self):
        return self._map(str.lower)

    def upper(self):
        return self._map(str.upper)

    def capitalize(self):
        return self._map(str.capitalize)

    def strip(self, chars=None):
        return self._map(lambda o: o.strip(chars)) if not isinstance(chars, SymStr) else SymStr.strip(self, chars)

    def lstrip(self, chars=None):
        return self._map(lambda o: o.lstrip(chars)) if not isinstance(chars, SymStr) else SymStr.lstrip(self, chars)

    def rstrip(self, chars=None):
        return self._map(lambda o: o.rstrip(chars)) if not isinstance(chars, SymStr) else SymStr.rstrip(self, chars)

    def replace(self, old, new, count=-1):
        if isinstance(old, str) and isinstance(new, str):
            return self._map(lambda o: o.replace(old, new, count))
        return SymStr.replace(self, old, new, count)

    def __add__(self, o):
        if isinstance(o, str):
            return self._map(lambda x: x + o)
        if isinstance(o, SymStr) and o.is_concrete():
            return self._map(lambda x: x + o.to_py())
        return SymStr.__add__(self, o)

    def __radd__(self, o):
        if isinstance(o, str):
            return self._map(lambda x: o + x)
        return NotImplemented

    def eq_t(self, o):
        if isinstance(o, str):
            return self._cond(lambda x: x == o)
        if isinstance(o, SymStr) and o.is_concrete() and not isinstance(o, ChoiceStr):
            t = o.to_py()
            return self._cond(lambda x: x == t)
        if isinstance(o, ChoiceStr):
            pairs = [z3.And(self.index == i, o.index == j) for i, a in enumerate(self.options)
                     for j, b in enumerate(o.options) if a == b]
            return z3.Or(*pairs) if pairs else z3.BoolVal(False)
        return SymStr.eq_t(self, o)

    def startswith(self, p):
        if isinstance(p, (str, tuple)):
            return mk_bool(self._cond(lambda x: x.startswith(p)))
        return SymStr.startswith(self, p)

    def endswith(self, p):
        if isinstance(p, (str, tuple)):
            return mk_bool(self._cond(lambda x: x.endswith(p)))
        return SymStr.endswith(self, p)

    def find_t(self, sub, start=0):
        if isinstance(sub, str) and isinstance(start, int):
            r = iv(-1)
            for j in reversed(range(len(self.options))):
                r = z3.If(self.index == j, iv(self.options[j].find(sub, start)), r)
            return z3.simplify(r)
        return SymStr.find_t(self, sub, start)

    def __getitem__(self, k):
        if isinstance(k, slice) and all(isinstance(x, (int, type(None))) for x in (k.start, k.stop, k.step)):
            return self._map(lambda o: o[k])
        return SymStr.__getitem__(self, k)

    def __hash__(self):
        return SymStr.__hash__(self)

    def __repr__(self):
        return f"ChoiceStr({self.options})"


def mk_str(s):
    """collapse to python str when fully concrete"""
    if isinstance(s, SymStr) and s.is_concrete():
        return s.to_py()
    return s


# --------------------------------------------------------------------------------------
class SymMatch:
    def __init__(self, pattern, string, caps):
        self.re = pattern
        self.string = string
        self.caps = caps  # list of 16-bit terms, 2 per group (group 0 first)
        self.pos = 0

    def _gid(self, g):
        if isinstance(g, str):
            return self.re.prog.groupindex[g]
        if isinstance(g, SymInt):
            g = int(g)
        return g

    def start(self, g=0):
        return mk_int(self.caps[2 * self._gid(g)])

    def end(self, g=0):
        return mk_int(self.caps[2 * self._gid(g) + 1])

    def span(self, g=0):
        return (self.start(g), self.end(g))

    def group(self, *gs):
        if not gs:
            gs = (0,)
        out = []
        for g in gs:
            k = self._gid(g)
            s, e = self.caps[2 * k], self.caps[2 * k + 1]
            if k != 0 and engine().decide(s == iv(-1)):
                out.append(None)
            else:
                out.append(mk_str(self.string.slice_t(s, e)))
        return out[0] if len(out) == 1 else tuple(out)

    __getitem__ = group

    def groups(self, default=None):
        r = []
        for k in range(1, self.re.prog.ngroups):
            v = self.group(k)
            r.append(default if v is None else v)
        return tuple(r)

    def groupdict(self, default=None):
        return {n: (default if self.group(n) is None else self.group(n)) for n in self.re.prog.groupindex}

    def __bool__(self):
        return True


class SymPattern:
    """wrapper around a real compiled pattern: concrete strings go to `re`, SymStr to RXA"""

    def __init__(self, pat):
        self.pat = pat
        self.pattern = pat.pattern
        self.flags = pat.flags
        self.groups = pat.groups
        self.groupindex = pat.groupindex
        self._prog = None

    @property
    def prog(self):
        if self._prog is None:
            try:
                self._prog = rxa.prog_for(self.pat)
            except rxa.Unsupported as e:
                raise Inconclusive(f"regex {self.pat.pattern!r} not encodable: {e}")
        return self._prog

    def _cvcall(self, name, *args, **kw):
        """any argument is a finite-choice value: evaluate the real `re` method pointwise"""
        from fv import choice
        if any(isinstance(a, choice.CV) for a in args):
            return True, choice.apply(lambda *aa: getattr(self.pat, name)(*aa, **kw), *args)
        return False, None

    def _run(self, s, mode, start=0):
        hit, r = self._cvcall(mode, s) if (isinstance(start, int) and start == 0) else self._cvcall(mode, s, start)
        if hit:
            return r
        if isinstance(s, str):
            return getattr(self.pat, mode)(s) if start == 0 else getattr(self.pat, mode)(s, start)
        engine().note_regex(self.pat)
        m = rxa.Matcher(self.prog, s.chars, s.len)
        ok, caps, end = m.match() if mode == "match" else m.search(term(start))
        if not engine().decide(z3.simplify(ok)):
            return None
        return SymMatch(self, s, caps)

    def match(self, s, pos=0):
        if pos != 0:
            raise Unsupported("match with pos")
        return self._run(s, "match")

    def search(self, s, pos=0):
        return self._run(s, "search", pos)

    def fullmatch(self, s):
        hit, r = self._cvcall("fullmatch", s)
        if hit:
            return r
        if isinstance(s, str):
            return self.pat.fullmatch(s)
        raise Unsupported("fullmatch on SymStr")

    def finditer(self, s):
        hit, r = self._cvcall("findall", s)
        if hit:
            from fv import choice
            yield from choice.apply(lambda x: list(self.pat.finditer(x)), s)
            return
        if isinstance(s, str):
            yield from self.pat.finditer(s)
            return
        pos = 0
        while True:
            m = self._run(s, "search", pos)
            if m is None:
                return
            yield m
            e, st = m.caps[1], m.caps[0]
            pos = mk_int(z3.If(e == st, e + 1, e))

    def findall(self, s):
        hit, r = self._cvcall("findall", s)
        if hit:
            return r
        out = []
        for m in self.finditer(s):
            g = self.groups
            out.append(m.group(0) if g == 0 else (m.group(1) if g == 1 else m.groups("")))
        return out

    def split(self, s, maxsplit=0):
        hit, r = self._cvcall("split", s, maxsplit)
        if hit:
            return r
        if isinstance(s, str):
            return self.pat.split(s, maxsplit)
        out = []
        last = 0
        for m in self.finditer(s):
            out.append(mk_str(s.slice_t(term(last), m.caps[0])))
            for k in range(1, self.prog.ngroups):
                out.append(m.group(k))
            last = m.end()
        out.append(mk_str(s.slice_t(term(last), s.len)))
        return out

    def sub(self, repl, s, count=0):
        hit, r = self._cvcall("sub", repl, s, count)
        if hit:
            return r
        if isinstance(s, str) and isinstance(repl, str):
            return self.pat.sub(repl, s, count)
        s = SymStr.lift(s)
        if callable(repl):
            raise Unsupported("callable replacement")
        if isinstance(repl, str) and "\\" in repl:
            raise Unsupported("group references in replacement")
        out = SymStr.const("")
        last = 0
        n = 0
        for m in self.finditer(s):
            out = out + s.slice_t(term(last), m.caps[0]) + repl
            last = m.end()
            n += 1
            if count and n >= count:
                break
        return mk_str(out + s.slice_t(term(last), s.len))


# --------------------------------------------------------------------------------------
def _fingerprint(t):
    """syntactic fingerprint of a decision, used to detect non-deterministic re-execution.  Large
    character-level terms are not fingerprinted: z3's simplifier orders commutative arguments by
    internal ids, which differ between executions although the term is the same."""
    s = t.sexpr()
    return hash(s) if len(s) < 400 else None


class Engine:
    """Depth-first exploration of all feasible paths of `fn` by re-execution."""

    def __init__(self, ctx=None, max_paths=20000, query_timeout_s=30, wall_budget_s=None, incremental=False):
        self.incremental = incremental  # True: one push/pop solver per path (cheap formulas, many queries)
        self.ctx = ctx
        self.max_paths = max_paths
        self.qt = query_timeout_s
        self.wall = wall_budget_s
        self.paths = 0
        self.solver_calls = 0
        self.solver_s = 0.0
        self.regexes = {}
        self.base = []  # global assumptions (alphabet, lengths)
        self.fresh = 0
        self.profile = None

    # -- symbolic inputs ---------------------------------------------------------
    def string(self, name, cap, alphabet=None, min_len=0, max_len=None):
        chars = [z3.BitVec(f"{name}_{i}", CW) for i in range(cap)]
        if min_len == cap:
            ln = iv(cap)  # fixed length: positions stay concrete
        else:
            ln = z3.BitVec(f"{name}_len", IW)
            self.base.append(ln >= min_len)
            self.base.append(ln <= (cap if max_len is None else max_len))
        if alphabet is not None:
            vs = frozenset(ord(a) for a in alphabet)
            for c in chars:
                self.base.append(z3.Or(*[c == ord(a) for a in alphabet]))
                _VARSETS[c.get_id()] = vs
        else:
            for c in chars:
                self.base.append(z3.And(z3.UGE(c, 9), z3.ULE(c, 126)))
        return SymStr(chars, ln)

    def integer(self, name, lo=None, hi=None):
        t = z3.BitVec(name, IW)
        if lo is not None:
            self.base.append(t >= lo)
        if hi is not None:
            self.base.append(t <= hi)
        return SymInt(t)

    def boolean(self, name):
        return SymBool(z3.Bool(name))

    def assume(self, cond):
        """path assumption: abandon the path when infeasible"""
        t = z3.simplify(bterm(cond))
        if z3.is_true(t):
            return
        ok, m = (False, None) if z3.is_false(t) else self._check([t])
        if not ok:
            raise PathAbort()
        self._model = m
        self._solver_assertions.append(t)
        self._pc.append(t)

    # -- solver ------------------------------------------------------------------
    def _check(self, extra):
        """is pc ∧ extra satisfiable?  A fresh QF_BV solver per query: bit-blasting + SAT is much
        faster here than the incremental SMT core."""
        if self.incremental:
            s = self._inc
            if s is None:
                s = self._inc = z3.Solver()
                s.set("timeout", int(self.qt * 1000))
                self._inc_n = 0
            for c in self._solver_assertions[self._inc_n:]:
                s.add(c)
            self._inc_n = len(self._solver_assertions)
            s.push()
            s.add(*extra)
            t0 = time.time()
            r = str(s.check())
            self.solver_calls += 1
            self.solver_s += time.time() - t0
            m = s.model() if r == "sat" else None
            s.pop()
        else:
            s = z3.SolverFor("QF_BV")
            s.set("timeout", int(self.qt * 1000))
            s.add(*self._solver_assertions)
            s.add(*extra)
            t0 = time.time()
            r = str(s.check())
            self.solver_calls += 1
            self.solver_s += time.time() - t0
            m = s.model() if r == "sat" else None
        if r == "unknown":
            raise Inconclusive("solver returned unknown on a path-feasibility query")
        return r == "sat", m

    def decide(self, t):
        t = z3.simplify(t)
        if z3.is_true(t):
            return True
        if z3.is_false(t):
            return False
        k = len(self._decisions)
        if self.profile is not None and k >= len(self._prefix):
            import sys
            f = sys._getframe(1)
            while f and f.f_code.co_filename.endswith(("fv/sym.py", "fv/patch.py", "fv/sxm.py")):
                f = f.f_back
            key = f"{f.f_code.co_filename.split('/')[-1]}:{f.f_lineno}" if f else "?"
            self.profile[key] = self.profile.get(key, 0) + 1
        if k < len(self._prefix):
            d, fp = self._prefix[k]
            if fp is not None and fp != _fingerprint(t):
                raise Inconclusive("re-execution is not deterministic: decision %d differs from the recorded one (%s)" % (k, str(t)[:200]))
            m = self._model
            if m is not None:
                v = m.eval(t, model_completion=True)
                if not ((z3.is_true(v) and d) or (z3.is_false(v) and not d)):
                    m = None
        else:
            mt = mf = None
            can_t = can_f = None
            if self._model is not None:
                # the cached model satisfies the path condition: it decides one side for free
                v = self._model.eval(t, model_completion=True)
                if z3.is_true(v):
                    can_t, mt = True, self._model
                elif z3.is_false(v):
                    can_f, mf = True, self._model
            if can_t is None:
                can_t, mt = self._check([t])
            if can_f is None:
                can_f, mf = self._check([z3.Not(t)])
            if can_t and can_f:
                d = True
                self._todo.append(self._prefix_now() + [(False, _fingerprint(t))])
            elif can_t:
                d = True
            elif can_f:
                d = False
            else:
                raise PathAbort()
            m = mt if d else mf
        self._model = m
        self._decisions.append((d, _fingerprint(t)))
        c = t if d else z3.Not(t)
        self._solver_assertions.append(c)
        self._pc.append(c)
        return d

    def _prefix_now(self):
        return list(self._decisions)

    def concretize(self, t, candidates=None):
        """concrete value for 16-bit term t; forks over the feasible values in a fixed order"""
        t = z3.simplify(t)
        if z3.is_bv_value(t):
            return t.as_signed_long()
        for v in (candidates if candidates is not None else range(-1, 260)):
            if self.decide(t == iv(v)):
                return v
        raise PathAbort()

    def concretize_str(self, s):
        if s.is_concrete():
            return s.to_py()
        n = self.concretize(s.len)
        out = []
        for i in range(n):
            c = z3.simplify(s.chars[i])
            if z3.is_bv_value(c):
                out.append(chr(c.as_long()))
            else:
                out.append(chr(self.concretize(z3.ZeroExt(IW - CW, c))))
        return "".join(out)

    def upper_bound(self, t):
        """smallest concrete n such that t <= n on this path (by linear probing, small values)"""
        for n in range(0, 200):
            ok, _ = self._check([t > n])
            if not ok:
                return n
        raise Unsupported("unbounded term")

    def note_regex(self, pat):
        self.regexes[pat.pattern] = pat

    # -- properties -----------------------------------------------------------------
    def require(self, cond, label, witness_terms=None):
        """assert `cond` on the current path: pc ∧ ¬cond must be unsat, else record a model"""
        t = bterm(cond)
        self.n_require += 1
        ok, m = self._check([z3.Not(t)])
        if ok:
            self._found.append((label, m, list(self._pc)))
            # attributes the harness function has set on itself (h.state, h.want, ...) evaluated in the model NOW: the
            # symbolic values of a later path must never be used to describe this path's witness
            auto = {}
            for k, v in list(vars(self._fn).items()) if getattr(self, "_fn", None) is not None else []:
                try:
                    from fv import choice as _ch
                    auto[k] = _ch.value_in_model(m, v)
                except Exception as e:  # noqa
                    auto[k] = None
            self.autosnaps.append(auto)
            # witness values must be taken on THIS path (later paths rebuild the symbolic values)
            snap = None
            if self.snapshot is not None:
                try:
                    snap = self.snapshot(m)
                except Exception as e:  # noqa
                    snap = {"snapshot_error": repr(e)}
            self.snapshots.append(snap)
            return False
        return True

    def reachable(self, label):
        self.reached[label] = self.reached.get(label, 0) + 1

    def model_value(self, m, x):
        """evaluate a SymStr/SymInt/SymBool/python value in model m"""
        if isinstance(x, SymStr):
            n = m.eval(x.len, model_completion=True).as_signed_long()
            return "".join(chr(m.eval(x.chars[i], model_completion=True).as_long()) for i in range(max(0, min(n, x.cap))))
        if isinstance(x, SymInt):
            return m.eval(x.t, model_completion=True).as_signed_long()
        if isinstance(x, SymBool):
            return z3.is_true(m.eval(x.t, model_completion=True))
        if isinstance(x, (list, tuple)):
            return [self.model_value(m, y) for y in x]
        if isinstance(x, dict):
            return {k: self.model_value(m, v) for k, v in x.items()}
        return x

    # -- main loop ----------------------------------------------------------------
    def explore(self, fn, on_violation=None):
        """Run fn() on every feasible path.  fn uses engine inputs created *inside* fn
        (same names every run).  Returns list of (label, model, pc) violations."""
        global _ENGINE
        self._todo = [[]]
        self._found = []
        self.snapshots = []
        self.autosnaps = []
        self._fn = fn
        self.snapshot = None
        self.reached = {}
        self.n_require = 0
        t0 = time.time()
        prev = _ENGINE
        _ENGINE = self
        try:
            while self._todo:
                if self.paths >= self.max_paths:
                    raise Inconclusive(f"path budget {self.max_paths} exhausted")
                if self.wall and time.time() - t0 > self.wall:
                    raise Inconclusive(f"wall budget {self.wall}s exhausted after {self.paths} paths")
                self._prefix = self._todo.pop()
                self._decisions = []
                self._pc = []
                self.base = []
                self._solver_assertions = []
                self._inc = None
                self._model = None
                self._base_added = 0
                self.paths += 1
                try:
                    fn(_BaseAdder(self))
                except PathAbort:
                    pass
                if self._found and on_violation and on_violation(self._found[-1]):
                    break
        finally:
            _ENGINE = prev
        if self.ctx is not None:
            self.ctx.paths += self.paths
            self.ctx.solver_s += self.solver_s
            self.ctx.queries.append({"label": f"DSE: {self.paths} paths, {self.solver_calls} solver calls, "
                                              f"{self.n_require} assertions", "result": "sat" if self._found else "unsat",
                                     "s": round(self.solver_s, 2)})
        return self._found


class _BaseAdder:
    """facade handed to the harness: creating inputs adds their domain constraints to the
    path solver before the code under test runs (assumptions are not retroactive)"""

    def __init__(self, e):
        self.e = e

    def _flush(self):
        for c in self.e.base[self.e._base_added:]:
            self.e._solver_assertions.append(c)
        self.e._base_added = len(self.e.base)

    def string(self, *a, **k):
        r = self.e.string(*a, **k)
        self._flush()
        return r

    def integer(self, *a, **k):
        r = self.e.integer(*a, **k)
        self._flush()
        return r

    def boolean(self, *a, **k):
        return self.e.boolean(*a, **k)

    def __getattr__(self, n):
        return getattr(self.e, n)
