"""In-memory file system used as the stubbed environment of FORD's write-out code (ford/output.py) and settings code.

Every mutating operation is logged (operation, destination path) and counted; the `fail_at`-th one raises OSError
("injected fault") where `fail_at` is a symbolic integer decided through the engine: the crash point is a solver variable.
Semantics follow pathlib / shutil for the calls FORD makes (see the doc strings); what is not modelled raises Unsupported.
"""
import pathlib
import posixpath

from fv import sym

DIR = "<dir>"
_CUR = [None]


def fs():
    return _CUR[0]


class Link(str):
    """a symbolic link node: the string is the (absolute) target path"""


class MemFS:
    def __init__(self, nodes, symlinks=None):
        self.nodes = dict(nodes)          # absolute posix path -> DIR | bytes
        self.symlinks = dict(symlinks or {})
        self.log = []                     # (op, destination path) of operations that took effect
        self.attempts = []                # every mutating call, also those that failed their precondition checks
        self.count = 0
        self.fail_at = None               # SymInt / int / None
        self.failed = False
        for p in list(self.nodes):
            q = posixpath.dirname(p)
            while q and q != "/":
                self.nodes.setdefault(q, DIR)
                q = posixpath.dirname(q)
        self.nodes.setdefault("/", DIR)

    # ---- queries ---------------------------------------------------------------------------------
    CWD = "/cwd"

    def _abs(self, p):
        """relative paths are relative to the process's working directory, as for the OS"""
        p = str(p)
        return p if p.startswith("/") else posixpath.normpath(posixpath.join(self.CWD, p))

    def exists(self, p):
        return self._abs(p) in self.nodes

    def is_dir(self, p):
        return self.nodes.get(self._abs(p)) == DIR

    def is_file(self, p):
        p = self._abs(p)
        return p in self.nodes and self.nodes[p] != DIR

    def children(self, p):
        p = self._abs(p).rstrip("/") or "/"
        pre = p if p.endswith("/") else p + "/"
        return sorted(k for k in self.nodes if k.startswith(pre) and k != p)

    def tree(self, root):
        root = str(root)
        return {k[len(root):]: (v if (v == DIR or isinstance(v, Link)) else bytes(v)) for k, v in self.nodes.items()
                if k == root or k.startswith(root + "/")}

    # ---- mutation (logged, counted, fault-injectable) ------------------------------------------------
    def _effect(self, op, dst):
        """the operation passed its precondition checks and is about to change the tree"""
        self.log.append((op, self._abs(dst)))

    def _op(self, op, dst):
        self.count += 1
        self.attempts.append((op, self._abs(dst)))
        k = self.fail_at
        if k is not None and not self.failed:
            hit = (k == self.count)
            if bool(hit):
                self.failed = True
                raise OSError(5, "injected fault", str(dst))

    def unlink(self, p):
        self._op("unlink", p)
        p = self._abs(p)
        if p not in self.nodes:
            raise FileNotFoundError(2, "No such file or directory", p)
        if self.nodes[p] == DIR:
            raise IsADirectoryError(21, "Is a directory", p)
        self._effect("unlink", p)
        del self.nodes[p]

    def rmtree(self, p, ignore_errors=False):
        self._op("rmtree", p)
        p = self._abs(p)
        try:
            if p not in self.nodes:
                raise FileNotFoundError(2, "No such file or directory", p)
            if self.nodes[p] != DIR:
                raise NotADirectoryError(20, "Not a directory", p)
        except OSError:
            if ignore_errors:
                return
            raise
        self._effect("rmtree", p)
        for k in self.children(p) + [p]:
            del self.nodes[k]

    def mkdir(self, p, parents=False, exist_ok=False):
        self._op("mkdir", p)
        p = self._abs(p)
        if p in self.nodes:
            if exist_ok and self.nodes[p] == DIR:
                return
            raise FileExistsError(17, "File exists", p)
        par = posixpath.dirname(p)
        if par not in self.nodes:
            if not parents:
                raise FileNotFoundError(2, "No such file or directory", p)
            self._effect("mkdir", par)
            self._mk(par)
        elif self.nodes[par] != DIR:
            raise NotADirectoryError(20, "Not a directory", p)
        self._effect("mkdir", p)
        self.nodes[p] = DIR

    def _mk(self, p):
        if p in self.nodes or p in ("", "/"):
            self.nodes.setdefault("/", DIR)
            return
        self._mk(posixpath.dirname(p))
        self.nodes[p] = DIR

    def write(self, p, data):
        self._op("write", p)
        p = self._abs(p)
        par = posixpath.dirname(p)
        if self.nodes.get(par) != DIR:
            raise FileNotFoundError(2, "No such file or directory", p)
        if self.nodes.get(p) == DIR:
            raise IsADirectoryError(21, "Is a directory", p)
        self._effect("write", p)
        self.nodes[p] = bytes(data) if not isinstance(data, str) else data.encode()

    def touch(self, p):
        self._op("touch", p)
        p = self._abs(p)
        hops = 0
        while isinstance(self.nodes.get(p), Link) and hops < 8:   # utime / open follow symbolic links
            p = self._abs(str(self.nodes[p]))
            hops += 1
        if p not in self.nodes and self.nodes.get(posixpath.dirname(p)) != DIR:
            raise FileNotFoundError(2, "No such file or directory", p)
        self._effect("touch", p)
        if p not in self.nodes:
            self.nodes[p] = b""

    def copy(self, src, dst):
        src, dst = self._abs(src), self._abs(dst)
        if self.nodes.get(dst) == DIR:
            dst = posixpath.join(dst, posixpath.basename(src))
        self._op("copy", dst)
        if src not in self.nodes:
            raise FileNotFoundError(2, "No such file or directory", src)
        if self.nodes[src] == DIR:
            raise IsADirectoryError(21, "Is a directory", src)
        par = posixpath.dirname(dst)
        if self.nodes.get(par) != DIR:
            raise FileNotFoundError(2, "No such file or directory", dst)
        self._effect("copy", dst)
        self.nodes[dst] = self.nodes[src]
        return dst

    def copytree(self, src, dst, dirs_exist_ok=False, symlinks=False):
        src, dst = self._abs(src), self._abs(dst)
        self._op("copytree", dst)
        if src not in self.nodes:
            raise FileNotFoundError(2, "No such file or directory", src)
        if self.nodes[src] != DIR:
            raise NotADirectoryError(20, "Not a directory", src)
        if dst in self.nodes and not (dirs_exist_ok and self.nodes[dst] == DIR):
            raise FileExistsError(17, "File exists", dst)
        self._effect("copytree", dst)
        self._mk(dst)
        dangling = []
        for k in self.children(src):
            v = self.nodes[k]
            if isinstance(v, Link) and not symlinks:
                # the link's target is copied; a dangling link is reported after everything else has been copied
                t = self._abs(str(v))
                if t not in self.nodes or self.nodes[t] == DIR or isinstance(self.nodes[t], Link):
                    dangling.append(k)
                    continue
                v = self.nodes[t]
            self.nodes[dst + k[len(src):]] = v
        if dangling:
            import shutil as _sh
            raise _sh.Error([(d, dst + d[len(src):], "No such file or directory") for d in dangling])
        return dst

    def rename(self, a, b):
        self._op("rename", b)
        a, b = self._abs(a), self._abs(b)
        self._effect("rename", b)
        for k in [a] + self.children(a):
            self.nodes[b + k[len(a):]] = self.nodes.pop(k)


class VPath(pathlib.PurePosixPath):
    """pathlib.Path look-alike over the current MemFS"""

    def exists(self):
        return fs().exists(self)

    def is_dir(self):
        return fs().is_dir(self)

    def is_file(self):
        return fs().is_file(self)

    def unlink(self, missing_ok=False):
        if missing_ok and not self.exists():
            return
        fs().unlink(self)

    def mkdir(self, mode=0o777, parents=False, exist_ok=False):
        fs().mkdir(self, parents=parents, exist_ok=exist_ok)

    def write_bytes(self, data):
        fs().write(self, data)

    def write_text(self, data, encoding=None):
        fs().write(self, data)

    def read_text(self, encoding=None):
        v = fs().nodes[str(self)]
        return v.decode() if isinstance(v, bytes) else v

    def touch(self, mode=0o666, exist_ok=True):
        fs().touch(self)

    def rglob(self, pattern):
        if pattern != "*":
            raise sym.Unsupported("rglob pattern " + pattern)
        return [type(self)(k) for k in fs().children(self)]

    def iterdir(self):
        return [type(self)(k) for k in fs().children(self) if posixpath.dirname(k) == str(self)]

    def rename(self, target):
        fs().rename(self, target)
        return type(self)(str(target))

    def absolute(self):
        return self if self.is_absolute() else type(self)("/cwd") / self

    def resolve(self, strict=False):
        """lexical `.`/`..` collapse plus the symlink table of the MemFS (enough for the placements of the catalogue)"""
        p = self.absolute()
        out = []
        for part in p.parts[1:]:
            if part == ".":
                continue
            if part == "..":
                if out:
                    out.pop()
                continue
            out.append(part)
            cur = "/" + "/".join(out)
            hops = 0
            while cur in fs().symlinks and hops < 8:
                cur = fs().symlinks[cur]
                out = [x for x in cur.split("/") if x]
                hops += 1
        return type(self)("/" + "/".join(out))

    def expanduser(self):
        return self

    @classmethod
    def cwd(cls):
        return cls("/cwd")


class ShutilProxy:
    """the shutil calls FORD makes, on the MemFS"""

    @staticmethod
    def rmtree(path, ignore_errors=False, onerror=None):
        fs().rmtree(path, ignore_errors=ignore_errors)

    @staticmethod
    def copy(src, dst):
        return fs().copy(src, dst)

    copy2 = copy

    @staticmethod
    def copytree(src, dst, copy_function=None, dirs_exist_ok=False, symlinks=False, **kw):
        return fs().copytree(src, dst, dirs_exist_ok=dirs_exist_ok, symlinks=symlinks)


class PathlibProxy:
    Path = VPath
    PurePath = pathlib.PurePath
    PurePosixPath = pathlib.PurePosixPath


def inside(p, root):
    p, root = str(p), str(root)
    return p == root or p.startswith(root.rstrip("/") + "/")
