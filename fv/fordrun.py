"""Run the real FORD on a generated scratch project (used only by replays)."""
import os
import re
import shutil
import subprocess
import sys
import tempfile


def run_ford(files, options=None, pages=None, timeout=180):
    """files: {relative path: text}; options: {key: value} for the project file.
    Returns (tmpdir, outdir, returncode, log).  Caller removes tmpdir."""
    d = tempfile.mkdtemp(prefix="fvford-")
    src = os.path.join(d, "src")
    os.makedirs(src)
    for rel, text in files.items():
        p = os.path.join(src, rel)
        os.makedirs(os.path.dirname(p), exist_ok=True)
        with open(p, "w") as f:
            f.write(text)
    opts = {"project": "replay", "src_dir": "./src", "output_dir": "./doc", "graph": "false", "parallel": "0",
            "quiet": "true", "preprocess": "false"}
    opts.update(options or {})
    if pages:
        pd = os.path.join(d, "pages")
        for rel, text in pages.items():
            p = os.path.join(pd, rel)
            os.makedirs(os.path.dirname(p), exist_ok=True)
            with open(p, "w") as f:
                f.write(text)
        opts["page_dir"] = "./pages"
    with open(os.path.join(d, "proj.md"), "w") as f:
        f.write("---\n" + "".join(f"{k}: {v}\n" for k, v in opts.items()) + "---\n\nReplay project.\n")
    env = dict(os.environ)
    env["PYTHONPATH"] = os.environ.get("FORD_REPO", "/repo") + os.pathsep + env.get("PYTHONPATH", "")
    r = subprocess.run([sys.executable, "-m", "ford", "proj.md"], cwd=d, env=env, capture_output=True, text=True,
                       timeout=timeout)
    return d, os.path.join(d, "doc"), r.returncode, (r.stdout + r.stderr)[-3000:]


HREF_RE = re.compile(r"""(?:href|src|action)\s*=\s*["']([^"'#?]+)(?:[#?][^"']*)?["']""", re.I)


def broken_links(outdir, only_html=True):
    """[(page, url)] for local links that do not resolve to an existing file"""
    bad = []
    for root, _, fs in os.walk(outdir):
        for fn in fs:
            if not fn.endswith(".html"):
                continue
            p = os.path.join(root, fn)
            try:
                text = open(p, encoding="utf-8", errors="replace").read()
            except OSError:
                continue
            for m in HREF_RE.finditer(text):
                u = m.group(1).strip()
                if not u or re.match(r"^[a-zA-Z][a-zA-Z0-9+.-]*:", u) or u.startswith("//") or "{" in u:
                    continue
                if only_html and not u.endswith(".html"):
                    continue
                tgt = os.path.normpath(os.path.join(root, u)) if not u.startswith("/") else u
                if not os.path.exists(tgt):
                    bad.append((os.path.relpath(p, outdir), u))
    return bad


def cleanup(d):
    shutil.rmtree(d, ignore_errors=True)


def broken_fragments(outdir):
    """[(page, url)] for local links page.html#fragment whose file is missing or holds no element with that id"""
    from urllib.parse import unquote
    bad = []
    ids = {}
    for root, _, fs in os.walk(outdir):
        for fn in fs:
            if not fn.endswith(".html"):
                continue
            p = os.path.join(root, fn)
            text = open(p, encoding="utf-8", errors="replace").read()
            for m in re.finditer(r"""(?:href|xlink:href)\s*=\s*["']([^"']+)["']""", text, re.I):
                u = m.group(1).strip()
                if "#" not in u or re.match(r"^[a-zA-Z][a-zA-Z0-9+.-]*:", u) or u.startswith("//") or "{" in u:
                    continue
                path, frag = u.split("#", 1)
                if not frag:
                    continue
                tgt = os.path.normpath(os.path.join(root, path)) if path else p
                if not tgt.endswith(".html"):
                    continue
                if not os.path.exists(tgt):
                    bad.append((os.path.relpath(p, outdir), u))
                    continue
                if tgt not in ids:
                    t2 = open(tgt, encoding="utf-8", errors="replace").read()
                    ids[tgt] = set(re.findall(r"""\b(?:id|name)=["']([^"']+)["']""", t2))
                if frag not in ids[tgt] and unquote(frag) not in ids[tgt]:
                    bad.append((os.path.relpath(p, outdir), u))
    return bad
