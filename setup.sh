#!/bin/sh
# Build the overlay venv (offline): /venv's packages + /repo + z3-solver from the wheelhouse.
set -e
cd "$(dirname "$0")"
mkdir -p .locks
exec 9>.locks/venv.lock
flock 9
if [ ! -x .venv/bin/python ] || ! .venv/bin/python -c "import z3" 2>/dev/null; then
  rm -rf .venv
  /venv/bin/python -m venv .venv
  SP=$(.venv/bin/python -c "import sysconfig; print(sysconfig.get_paths()['purelib'])")
  echo "import site; site.addsitedir('/venv/lib/python3.12/site-packages')" > "$SP/_overlay.pth"
  PIP_NO_INDEX=1 .venv/bin/pip install -q --no-index --find-links /opt/veriftools/wheels z3-solver >/dev/null
fi
.venv/bin/python -c "import z3, ford, jinja2, markdown" 
